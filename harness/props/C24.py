"""C24 — multicasting shares one source subscription per connection (DESIGN.md §5 C24).

Model: lean/RxModel/Conn.lean (a minimal Subject/BehaviorSubject/ReplaySubject, ConnectableObservable.connect with its
has_subscription flag and composite handle, ref_count_, auto_connect as written, publish/share/replay/publish_value/
multicast(subject) and multicast(subject_factory, mapper)), executed by the `drv_conn` driver.
Correspondence: histories of subscribe / unsubscribe / connect / disconnect calls at generated virtual times (ties on
purpose) over cold and hot TestScheduler sources; compared: every subscriber's timed notifications and the source's
subscription log.  Oracle (real code only, written against the property text): source subscriptions never overlap; a raw
connectable is subscribed exactly from each effective connect() to its disconnect / the source's end; ref_count/share
connect at the 0->1 edge of the subscriber count and disconnect at ->0; auto_connect(n) subscribes once, when n subscribers
are present; every subscriber sees the subject's input from its subscription on (plus current / replayed values).
"""
from __future__ import annotations

import random

import fw
from fw import InjectedError, enc, err_name

LEAN_TARGETS = ["RxProofs.C24"]
DRIVER = "drv_conn"
DRIVER_ROOT = "Conn"
THEOREMS = [
    "C24.connect_one_sub_per_connection",
    "C24.connect_effective",
    "C24.connect_idempotent_while_connected",
    "C24.disconnect_closes",
    "C24.refcount_edges",
    "C24.refcount_connected_iff",
    "C24.autoconnect_at_n",
    "C24.autoconnect_stays_connected",
    "C24.multicast_subscriber_sees_subject_suffix",
    "C24.late_subscriber_gets_terminal",
    "C24.multicast_factory_one_source_subscription",
    "C24.sync_one_source_subscription",
    "C24.connect_reentrant_noop",
]
RULE = ("histories of 3-14 calls (subscribe/unsubscribe of up to 5 subscribers, connect/disconnect of any earlier handle) at times drawn "
        "from a small grid so that calls coincide with each other and with source messages; sources cold or hot, completing / failing / "
        "never ending; subject kinds plain (publish, multicast(Subject()), share), BehaviorSubject (publish_value), ReplaySubject(buffer 0..3 "
        "or unbounded); wrappers raw connectable / ref_count / auto_connect(0..3); plus multicast(subject_factory, mapper) with mapper = "
        "identity or merge(c, c); plus oracle-only 'mcast_win' cases: replay(mapper=concat(c.take(n), c), window=W[, buffer_size]) without an operator-level "
        "scheduler, subscribed with an explicit TestScheduler (the late second use must get exactly the values still inside the window); plus oracle-only 'replay_backlog' cases (a late subscriber of replay() after 1200-4000 buffered values); plus 'sync' cases: a source that emits 0-3 values (and maybe a terminal) from inside its subscribe(), "
        "publish / publish_value / replay(0..2|unbounded), raw connectable and two ref_count views, subscribers that connect() / subscribe (to any view) / dispose another "
        "subscription / make the source emit from inside on_next (nested up to depth 2), top-level connect/disconnect/unsubscribe/push. Non-trivial: at least two different call kinds and at least one delivery. Distinct by canonical JSON.")
ASSUMPTIONS = [
    "single-threaded virtual-time execution on reactivex.testing.TestScheduler; sources are its cold/hot observables",
    "virtual-time cases: subscribers are passive recorders; sync cases: subscribers may connect/subscribe/dispose others and make the source emit from inside on_next, over Subject, BehaviorSubject and count-bounded ReplaySubject (ScheduledObserver + the thread's trampoline, incl. Observable.subscribe's own trampolining, are modelled); where nested emission or trampolined delivery reorders what an observer sees, the property oracle compares multisets (the model correspondence stays exact)",
    "ReplaySubject only with a count bound and its default scheduler (the time window is the subject family's business)",
    "auto_connect is modelled as written: it counts the subscribers currently present (count is decremented on unsubscribe), not the arrivals",
]
HORIZON = 1000
GRID = [200, 205, 210, 210, 215, 220, 220, 225, 230, 240, 250, 260, 300, 300, 320, 400]


# =============================================================================== generation
def gen_msgs(rng, hot):
    t = rng.choice([150, 195, 200]) if hot else 0
    msgs = []
    for _ in range(rng.randrange(0, 6)):
        t += rng.choice([5, 10, 10, 15, 20])
        msgs.append([t, ["N", rng.randrange(0, 5)]])
    t += rng.choice([5, 10, 20])
    r = rng.random()
    if r < 0.55:
        msgs.append([t, ["C"]])
    elif r < 0.75:
        msgs.append([t, ["E", "src%d" % rng.randrange(2)]])
    return msgs


def gen_ops(rng, wrap, n_ops):
    times = sorted(rng.choice(GRID) for _ in range(n_ops))
    ops, live, gone, nconn, nxt = [], [], [], 0, 0
    for t in times:
        kinds = ["sub", "sub", "unsub"]
        if wrap == "raw":
            kinds += ["connect", "connect", "disconnect"]
        k = rng.choice(kinds)
        if k == "sub" and nxt < 5:
            ops.append([t, ["sub", nxt]])
            live.append(nxt)
            nxt += 1
        elif k == "unsub" and (live or gone):
            if live and rng.random() < 0.85:
                i = live.pop(rng.randrange(len(live)))
                gone.append(i)
            else:
                i = rng.choice(gone or live)
            ops.append([t, ["unsub", i]])
        elif k == "connect":
            ops.append([t, ["connect"]])
            nconn += 1
        elif k == "disconnect" and nconn:
            ops.append([t, ["disconnect", rng.randrange(nconn)]])
        elif nxt < 5:
            ops.append([t, ["sub", nxt]])
            live.append(nxt)
            nxt += 1
    return ops


def cases(rng, tier):
    n = fw.tier_scale(tier, 2500, 25000)
    for _ in range(n):
        hot = rng.random() < 0.5
        subject = rng.choice(["plain", "plain", "behavior", "replay"])
        wrap = rng.choice(["raw", "raw", "refcount", "refcount", "auto"])
        c = {"op": "conn_run", "subject": subject, "wrap": wrap, "hot": hot, "msgs": gen_msgs(rng, hot), "horizon": HORIZON}
        if subject == "behavior":
            c["init"] = rng.choice([9, None, 0])
        if subject == "replay":
            c["buf"] = rng.choice([None, 0, 1, 2, 3])
        if subject == "plain":
            c["via"] = rng.choice(["publish", "multicast"] + (["share"] if wrap == "refcount" else []))
        if wrap == "auto":
            c["n"] = rng.choice([0, 1, 2, 2, 3])
        c["ops"] = gen_ops(rng, wrap, rng.choice([3, 5, 8, 14]))
        yield c
    for _ in range(fw.tier_scale(tier, 500, 5000)):
        hot = rng.random() < 0.4
        subject = rng.choice(["plain", "behavior", "replay"])
        c = {"op": "mcast_run", "subject": subject, "wrap": "raw", "hot": hot, "msgs": gen_msgs(rng, hot), "horizon": HORIZON,
             "inner": rng.choice([1, 2]), "via": rng.choice(["specialised", "multicast"])}
        if subject == "behavior":
            c["init"] = rng.choice([9, 0])
        if subject == "replay":
            c["buf"] = rng.choice([None, 1, 2])
        ops = [o for o in gen_ops(rng, "refcount", rng.choice([2, 4, 6]))]
        seen = set()
        c["ops"] = []
        for t, o in ops:  # at most one unsubscribe per subscriber (the model looks up the first one)
            if o[0] == "unsub":
                if o[1] in seen:
                    continue
                seen.add(o[1])
            c["ops"].append([t, o])
        yield c
    yield from gen_sync_cases(rng, tier)
    yield from gen_mcast_win_cases(rng, tier)
    yield from gen_backlog_cases(rng, tier)


def model_request(case):
    if case["op"] in ("mcast_win", "replay_backlog"):
        return None
    if case["op"] == "sync_run":
        return {k: v for k, v in case.items() if not (k == "buf" and v is None)}
    c = {k: v for k, v in case.items() if k not in ("via",)}
    if c.get("buf", 0) is None:
        c.pop("buf")
    if "init" in c:
        c["init"] = enc(c["init"])
    return c


# =============================================================================== synchronous sources, re-entrant calls
def gen_sync_cases(rng, tier):
    """a source that emits inside subscribe(); subscribers that connect / subscribe (also through a second ref_count view) /
    dispose another subscription from inside on_next"""
    for _ in range(fw.tier_scale(tier, 1500, 12000)):
        nsync = rng.choice([0, 1, 2, 3])
        sync = [["N", rng.randrange(1, 6)] for _ in range(nsync)]
        r = rng.random()
        if r < 0.12:
            sync.append(["C"])
        elif r < 0.18:
            sync.append(["E", "s0"])
        c = {"op": "sync_run", "subject": rng.choice(["plain", "plain", "behavior", "replay"]), "sync": sync, "actions": [], "ops": []}
        if c["subject"] == "behavior":
            c["init"] = 9
        if c["subject"] == "replay":
            c["buf"] = rng.choice([None, 0, 1, 2])
        nxt = [0]
        nconn = [0]

        def new_sub(depth, parent_view="top"):
            i = nxt[0]
            nxt[0] += 1
            view = rng.choice([None, 0, 0, 1]) if parent_view == "top" or rng.random() < 0.5 else parent_view
            react = None
            if depth < 2 and rng.random() < 0.55:
                a = len(c["actions"])
                c["actions"].append(None)
                k = rng.random()
                if k < 0.45:
                    act = new_sub(depth + 1, view)
                elif k < 0.75:
                    act = ["connect"]
                elif k < 0.88 and i > 0:
                    act = ["unsub", rng.randrange(i)]
                else:
                    # the source emits from inside on_next: nested deliveries reorder what later observers of the snapshot see
                    # (compared exactly with the model; the property oracle then compares as multisets)
                    act = ["push", ["N", 50 + a]]
                c["actions"][a] = act
                react = [rng.choice([1, 1, 2]), a]
            return ["sub", i, view, react]

        for _ in range(rng.choice([1, 2, 3, 5])):
            k = rng.random()
            if k < 0.5 and nxt[0] < 6:
                c["ops"].append(new_sub(0))
            elif k < 0.62:
                c["ops"].append(["connect"])
                nconn[0] += 1
            elif k < 0.72 and nconn[0]:
                c["ops"].append(["disconnect", rng.randrange(nconn[0])])
            elif k < 0.85 and nxt[0]:
                c["ops"].append(["unsub", rng.randrange(nxt[0])])
            else:
                c["ops"].append(["push", ["N", 70 + len(c["ops"])]])
        if not any(o[0] == "sub" for o in c["ops"]):
            c["ops"].insert(0, new_sub(0))
        yield c


def impl_sync(case):
    import reactivex as rx
    from reactivex import operators as ops
    from reactivex.disposable import Disposable

    seq = [0]  # global event clock

    def tick():
        seq[0] += 1
        return seq[0]

    nsub = [0]
    state = {"open": set(), "maxopen": 0, "obs": {}}

    def subscribe(observer, scheduler=None):
        k = nsub[0]
        nsub[0] += 1
        state["open"].add(k)
        state["maxopen"] = max(state["maxopen"], len(state["open"]))
        state["obs"][k] = observer
        for n in case["sync"]:
            if n[0] == "N":
                observer.on_next(n[1] + 100 * (k + 1))
            elif n[0] == "C":
                observer.on_completed()
            else:
                observer.on_error(InjectedError(n[1]))
        return Disposable(lambda: state["open"].discard(k))

    src = rx.Observable(subscribe)
    if case["subject"] == "plain":
        conn = src.pipe(ops.publish())
    elif case["subject"] == "behavior":
        conn = src.pipe(ops.publish_value(case["init"]))
    else:
        conn = src.pipe(ops.replay(buffer_size=case.get("buf")))
    # what the shared subject receives, with the event clock (the subject is the connectable's own object)
    feed = []
    subject = conn.subject
    o_next, o_err, o_comp = subject.on_next, subject.on_error, subject.on_completed

    inflight = []  # clocks of the subject inputs whose delivery is in progress

    def w_next(v):
        if not subject.is_stopped:
            feed.append([tick(), ["N", v]])
            inflight.append(feed[-1][0])
            try:
                o_next(v)
            finally:
                inflight.pop()
        else:
            o_next(v)

    def w_err(e):
        if not subject.is_stopped:
            feed.append([tick(), ["E", err_name(e)]])
        o_err(e)

    def w_comp():
        if not subject.is_stopped:
            feed.append([tick(), ["C"]])
        o_comp()

    subject.on_next, subject.on_error, subject.on_completed = w_next, w_err, w_comp
    views = {}
    out, disps, handles, marks = {}, {}, [], {}
    sub_view = {}

    def view(k):
        if k is None:
            return conn
        if k not in views:
            views[k] = conn.pipe(ops.ref_count())
        return views[k]

    def do(op):
        if op[0] == "sub":
            _, i, v, react = op
            lg = out.setdefault(str(i), [])
            got = [0]
            marks[i] = [tick(), None]
            sub_view[str(i)] = v

            def on_next(x):
                lg.append(["N", x])
                got[0] += 1
                if react is not None and got[0] == react[0]:
                    do(case["actions"][react[1]])

            def on_error(e):
                lg.append(["E", err_name(e)])
                marks[i][1] = marks[i][1] or tick()

            def on_completed():
                lg.append(["C"])
                marks[i][1] = marks[i][1] or tick()

            disps[i] = view(v).subscribe(on_next, on_error, on_completed)
        elif op[0] == "unsub":
            d = disps.get(op[1])
            if d is not None:
                if marks[op[1]][1] is None:
                    marks[op[1]][1] = tick()
                    marks[op[1]].append(inflight[-1] if inflight else None)
                d.dispose()
        elif op[0] == "connect":
            conn.connect()  # made from inside a callback: the history does not keep what it returns
        elif op[0] == "disconnect":
            if op[1] < len(handles) and handles[op[1]] is not None:
                handles[op[1]].dispose()
        elif op[0] == "push":
            tick()
            for k in sorted(state["open"]):
                ob = state["obs"][k]
                n = op[1]
                ob.on_next(n[1]) if n[0] == "N" else (ob.on_completed() if n[0] == "C" else ob.on_error(InjectedError(n[1])))

    for op in case["ops"]:
        if op[0] == "connect":
            handles.append(conn.connect())
        else:
            do(op)
    ids = sorted(int(i) for i in out)
    return {"out": {str(i): out[str(i)] for i in ids}, "nsrc": nsub[0], "maxopen": state["maxopen"], "hasSub": bool(conn.has_subscription),
            "_feed": feed, "_marks": {str(i): marks[i] for i in ids}, "_views": sub_view}


def oracle_sync(case, o):
    if o["maxopen"] > 1:
        return f"{o['maxopen']} source subscriptions were open at the same time for one connectable (source subscribed {o['nsrc']} times)"
    # ref_count connects at 0 -> 1 and stays connected while it has subscribers: with a single view, nobody else disconnecting,
    # a view that still has a live subscriber at the end means the connectable is connected
    views = {v for v in o["_views"].values() if v is not None}
    no_disc = not any(x[0] == "disconnect" for x in case["ops"])
    live = [i for i, v in o["_views"].items() if v is not None and o["_marks"][i][1] is None]
    if len(views) == 1 and no_disc and live and not o["hasSub"]:
        return (f"ref_count view still has live subscribers {live} but the connectable is not connected "
                f"(source subscribed {o['nsrc']} times): the 0 -> 1 edge did not connect")
    # every subscriber receives what the shared subject receives from its subscription on
    feed = o["_feed"]
    term = next(([t, n] for t, n in feed if n[0] in ("C", "E")), None)
    for i, lg in o["out"].items():
        a, b = o["_marks"][i][:2]
        cut = o["_marks"][i][2] if len(o["_marks"][i]) > 2 else None  # unsubscribed while this subject input was being delivered
        got = list(lg)
        if term is not None and term[0] < a:
            # subscribed to a stopped subject: exactly its terminal (a replay subject: its buffer first)
            if case["subject"] == "replay":
                before = [["N", n[1]] for t, n in feed if t < a and n[0] == "N"]
                buf = case.get("buf")
                keep = before if buf is None else (before[-buf:] if buf > 0 else [])
                full = keep + [term[1]]
                if b is not None and got == full[:len(got)]:
                    continue  # unsubscribed while its (trampolined) replay was still being delivered
                if got[:len(keep)] == keep:
                    got = got[len(keep):]
            if got != [term[1]]:
                return f"subscriber {i} subscribed after the shared subject had terminated with {term[1]} but received {lg}"
            continue
        if case["subject"] == "behavior":
            # the current value at the subscription: the last value the subject received before, else the initial one
            before = [n[1] for t, n in feed if t < a and n[0] == "N"]
            cur = ["N", before[-1] if before else case["init"]]
            if not got or got[0] != cur:
                return f"subscriber {i} of a publish_value observable did not first receive the current value {cur}: {lg}"
            got = got[1:]
        if case["subject"] == "replay":
            # first the buffered values: the last `buf` values the subject received before
            before = [["N", n[1]] for t, n in feed if t < a and n[0] == "N"]
            buf = case.get("buf")
            keep = before if buf is None else (before[-buf:] if buf > 0 else [])
            if b is not None and got == keep[:len(got)]:
                continue  # unsubscribed while its (trampolined) replay was still being delivered
            if got[:len(keep)] != keep:
                return f"subscriber {i} of a replay observable did not first receive the buffered values {keep}: {lg}"
            got = got[len(keep):]
        exp = [n for t, n in feed if t > a and (b is None or t < b) and t != cut]
        if cut is not None and cut > a:
            inflight_n = [n for t, n in feed if t == cut]
            if got and inflight_n and got[-1] == inflight_n[0] and got[:-1] == exp:
                exp = exp + inflight_n  # it had already received that value when it was unsubscribed
        reordering = any(x[0] == "push" for x in case["actions"]) or case["subject"] == "replay"
        if reordering:
            # nested emission / trampolined delivery: same notifications, possibly in another order, or cut short by its own unsubscription
            window = [n for t, n in feed if t > a and (b is None or t < b)]  # including a value in flight at its unsubscription

            def submultiset(x, y):
                y = list(map(fw.key, y))
                for g in map(fw.key, x):
                    if g not in y:
                        return False
                    y.remove(g)
                return True
            ok = sorted(map(fw.key, got)) == sorted(map(fw.key, exp)) or (b is not None and submultiset(got, window))
            if ok:
                continue
        if got != exp:
            return (f"subscriber {i} received {lg} but the shared subject received {exp} between its subscribe call and its "
                    f"unsubscription/termination (subject input with clock: {feed}, subscriber window {a}..{b})")
    return None



# =============================================================================== replay(mapper, window) with a late-subscribing mapper
def gen_mcast_win_cases(rng, tier):
    """replay(mapper=m, window=W[, buffer_size]) WITHOUT an operator-level scheduler, subscribed with an explicit scheduler;
    m = lambda c: concat(c.take(n), c) uses the shared sequence a second time, late.  Oracle only (time windows of the
    ReplaySubject are the subject family's model)."""
    for _ in range(fw.tier_scale(tier, 400, 4000)):
        hot = rng.random() < 0.5
        subs = sorted(rng.sample([200, 205, 215, 230, 260], rng.choice([1, 1, 2])))
        yield {"op": "mcast_win", "hot": hot, "msgs": gen_msgs(rng, hot), "n": rng.choice([1, 2, 2, 3]), "window": rng.choice([5, 10, 15, 30, 60]),
               "buf": rng.choice([None, None, 1, 2]), "subs": subs, "horizon": HORIZON}


def impl_mcast_win(case):
    import reactivex as rx
    from reactivex import operators as ops
    from reactivex.testing import TestScheduler

    sched = TestScheduler()
    src = _source(sched, case)
    n = case["n"]
    target = src.pipe(ops.replay(mapper=lambda c: rx.concat(c.pipe(ops.take(n)), c), buffer_size=case["buf"], window=case["window"]))
    out = {}
    disps = []

    def mk(i):
        def act(s, st):
            lg = out.setdefault(str(i), [])
            disps.append(target.subscribe(lambda v: lg.append([int(sched.clock), ["N", enc(v)]]),
                                          lambda e: lg.append([int(sched.clock), ["E", err_name(e)]]),
                                          lambda: lg.append([int(sched.clock), ["C"]]), scheduler=sched))
        return act

    for i, t in enumerate(case["subs"]):
        sched.schedule_absolute(t, mk(i))
    sched.schedule_absolute(case["horizon"], lambda s, st: [d.dispose() for d in disps])
    sched.start()
    return {"out": out, "src": fw.subs_json(src.subscriptions)}


def oracle_mcast_win(case, o):
    """written from the property text: one source subscription per subscription; the late use of the shared sequence gets the values
    that are still inside the window (and the buffer bound) when it subscribes, then everything that follows"""
    n, W, buf = case["n"], case["window"], case["buf"]
    if [s for s, _ in o["src"]] != case["subs"]:
        return f"replay(mapper): subscriptions at {case['subs']} but the source was subscribed at {[s for s, _ in o['src']]}"
    for i, t0 in enumerate(case["subs"]):
        feed = []
        for t, x in case["msgs"]:
            at = t if case["hot"] else t0 + t
            if at > t0:
                feed.append([at, x])
                if x[0] != "N":
                    break
        exp, taken, T, ended = [], 0, None, None
        for at, x in feed:
            if x[0] == "N":
                exp.append([at, x])
                taken += 1
                if taken == n:
                    T = at
                    break
            elif x[0] == "E":
                exp.append([at, x])
                ended = "E"
                break
            else:
                T = at  # the first use completes with the source; the second one starts then
                break
        if ended is None and T is not None:
            vals = [[at, x] for at, x in feed if x[0] == "N" and at <= T and T - at <= W]
            if buf is not None:
                vals = vals[-buf:] if buf > 0 else []
            exp += [[T, x] for _, x in vals]
            for at, x in feed:
                if at > T or (x[0] != "N" and at == T):
                    exp.append([at, x])
        got = o["out"].get(str(i), [])
        if got != exp:
            return (f"replay(mapper=concat(c.take({n}), c), window={W}, buffer_size={buf}) subscribed at {t0} with an explicit scheduler delivered "
                    f"{got}; the late use of the shared sequence must get the values inside the window at its subscription and what follows: {exp}")
    return None



# =============================================================================== replay with a long backlog
def gen_backlog_cases(rng, tier):
    """a late subscriber of replay() with 10^3..10^4 buffered elements gets all of them (or the last buffer_size) and the
    terminal; values only.  Oracle only."""
    for _ in range(fw.tier_scale(tier, 4, 12)):
        n = rng.choice([1200, 2500, 4000])
        yield {"op": "replay_backlog", "n": n, "buf": rng.choice([None, None, n - 300]), "end": rng.choice(["C", "C", "E", None]),
               "late": rng.choice([1, 2])}


def impl_backlog(case):
    import reactivex as rx
    from reactivex import operators as ops
    from reactivex.disposable import Disposable

    n = case["n"]

    def subscribe(observer, scheduler=None):
        for i in range(n):
            observer.on_next(i)
        if case["end"] == "C":
            observer.on_completed()
        elif case["end"] == "E":
            observer.on_error(InjectedError("src"))
        return Disposable()

    import sys
    conn = rx.Observable(subscribe).pipe(ops.replay(buffer_size=case["buf"]))
    conn.connect()
    out = []
    old_limit = sys.getrecursionlimit()
    sys.setrecursionlimit(1000)  # Python's default (the harness raises it): delivery of a backlog must not need a deep stack
    try:
        out = _backlog_subscribers(case, conn)
    finally:
        sys.setrecursionlimit(old_limit)
    return {"subs": out}


def _backlog_subscribers(case, conn):
    out = []
    for k in range(case["late"]):
        got, term, raised = [], [], None
        try:
            conn.subscribe(got.append, lambda e: term.append("E:" + err_name(e)), lambda: term.append("C"))
        except BaseException as e:  # noqa: an exception escaping from subscribe is part of the observation
            raised = type(e).__name__
        out.append({"count": len(got), "first": got[0] if got else None, "last": got[-1] if got else None,
                    "ordered": got == list(range(got[0], got[0] + len(got))) if got else True, "term": term, "raised": raised})
    return out


def oracle_backlog(case, o):
    n, buf = case["n"], case["buf"]
    keep = n if buf is None else min(buf, n)
    for k, s in enumerate(o["subs"]):
        exp_term = {"C": ["C"], "E": ["E:src"], None: []}[case["end"]]
        if s["raised"] or s["count"] != keep or s["first"] != n - keep or s["last"] != n - 1 or not s["ordered"] or s["term"] != exp_term:
            return (f"late subscriber #{k} of replay(buffer_size={buf}) after {n} values: expected the last {keep} values {n - keep}..{n - 1} "
                    f"then {exp_term}; got {s}")
    return None



# =============================================================================== real code
def _source(sched, case):
    from reactivex.testing import ReactiveTest

    rec = []
    for t, n in case["msgs"]:
        if n[0] == "N":
            rec.append(ReactiveTest.on_next(t, n[1]))
        elif n[0] == "C":
            rec.append(ReactiveTest.on_completed(t))
        else:
            rec.append(ReactiveTest.on_error(t, InjectedError(n[1])))
    return sched.create_hot_observable(*rec) if case["hot"] else sched.create_cold_observable(*rec)


def _subject_factory(case):
    from reactivex.subject import BehaviorSubject, ReplaySubject, Subject

    if case["subject"] == "plain":
        return lambda s=None: Subject()
    if case["subject"] == "behavior":
        return lambda s=None: BehaviorSubject(case["init"])
    return lambda s=None: ReplaySubject(case.get("buf"))


def impl(case):
    if case["op"] == "replay_backlog":
        return impl_backlog(case)
    if case["op"] == "mcast_win":
        return impl_mcast_win(case)
    if case["op"] == "sync_run":
        return impl_sync(case)
    import reactivex as rx
    from reactivex import operators as ops
    from reactivex.subject import Subject
    from reactivex.testing import TestScheduler

    sched = TestScheduler()
    src = _source(sched, case)
    out = {}
    disps = {}
    handles = []
    if case["op"] == "conn_run":
        if case["subject"] == "plain":
            via = case.get("via", "publish")
            op = ops.multicast(Subject()) if via == "multicast" else ops.publish()
        elif case["subject"] == "behavior":
            op = ops.publish_value(case["init"])
        else:
            op = ops.replay(buffer_size=case.get("buf"))
        if case["wrap"] == "refcount" and case.get("via") == "share":
            target = src.pipe(ops.share())
        else:
            conn = src.pipe(op)
            if case["wrap"] == "raw":
                target = conn
            elif case["wrap"] == "refcount":
                target = conn.pipe(ops.ref_count())
            else:
                target = conn.auto_connect(case["n"])
    else:
        k = case["inner"]
        mapper = (lambda c: c) if k == 1 else (lambda c: rx.merge(c, c))
        if case.get("via") == "multicast":
            target = src.pipe(ops.multicast(subject_factory=_subject_factory(case), mapper=mapper))
        elif case["subject"] == "plain":
            target = src.pipe(ops.publish(mapper))
        elif case["subject"] == "behavior":
            target = src.pipe(ops.publish_value(case["init"], mapper))
        else:
            target = src.pipe(ops.replay(buffer_size=case.get("buf"), mapper=mapper))
        conn = None

    def do(op):
        def act(s, st):
            t = int(sched.clock)
            if op[0] == "sub":
                i = op[1]
                lg = out.setdefault(str(i), [])
                disps[i] = target.subscribe(lambda v: lg.append([int(sched.clock), ["N", enc(v)]]),
                                            lambda e: lg.append([int(sched.clock), ["E", err_name(e)]]),
                                            lambda: lg.append([int(sched.clock), ["C"]]))
            elif op[0] == "unsub":
                d = disps.get(op[1])
                if d is not None:
                    d.dispose()
            elif op[0] == "connect":
                handles.append(conn.connect())
            elif op[0] == "disconnect":
                if op[1] < len(handles) and handles[op[1]] is not None:
                    handles[op[1]].dispose()
        return act

    for t, op in case["ops"]:
        sched.schedule_absolute(t, do(op))

    def finish(s, st):
        for i in sorted(disps, key=lambda i: [o[1][1] for o in case["ops"] if o[1][0] == "sub"].index(i)):
            disps[i].dispose()
        for h in handles:
            if h is not None:
                h.dispose()
    sched.schedule_absolute(case["horizon"], finish)
    sched.start()
    return {"out": out, "src": fw.subs_json(src.subscriptions)}


def canon_impl(case, o):
    if case["op"] == "sync_run":
        return {k: v for k, v in o.items() if not k.startswith("_")}
    return o


def canon_model(case, resp):
    return resp


# =============================================================================== oracle (property text)
def _present_intervals(case, out):
    """subscriber -> [from, to, why]: present from its subscribe call until its unsubscribe call ("call"), the terminal it
    received ("terminal"), or the horizon"""
    res = {}
    for t, o in case["ops"]:
        if o[0] == "sub":
            res[o[1]] = [t, case["horizon"], "horizon"]
    for t, o in case["ops"]:
        if o[0] == "unsub" and o[1] in res and t >= res[o[1]][0] and t < res[o[1]][1]:
            res[o[1]][1:] = [t, "call"]
    for i, lg in out.items():
        for t, n in lg:
            if n[0] in ("C", "E") and (t < res[int(i)][1] or (t == res[int(i)][1] and (case["hot"] or t == res[int(i)][0]))):
                res[int(i)][1:] = [t, "terminal"]
    return res


def oracle(case, o):
    if case["op"] == "replay_backlog":
        return oracle_backlog(case, o)
    if case["op"] == "mcast_win":
        return oracle_mcast_win(case, o)
    if case["op"] == "sync_run":
        return oracle_sync(case, o)
    src = o["src"]
    # O1: never two live source subscriptions
    ivs = [(s, case["horizon"] + 1 if u is None else u) for s, u in src]
    for a in range(len(ivs)):
        for b in range(a + 1, len(ivs)):
            if ivs[a][0] < ivs[b][1] and ivs[b][0] < ivs[a][1] and case["op"] == "conn_run":
                return f"two source subscriptions are live at the same time: {src}"
    last_msg = case["msgs"][-1] if case["msgs"] and case["msgs"][-1][1][0] in ("C", "E") else None
    if case["op"] == "mcast_run":
        nsub = sum(1 for _, x in case["ops"] if x[0] == "sub")
        if len(src) != nsub:
            return f"multicast(factory, mapper): {nsub} subscriptions but {len(src)} source subscriptions: {src}"
        starts = [t for t, x in case["ops"] if x[0] == "sub"]
        if [s for s, _ in src] != starts:
            return f"multicast(factory, mapper): source subscribed at {[s for s, _ in src]}, subscriptions at {starts}"
        return None
    raw_exp = []
    if case["wrap"] == "raw":
        # O2: one source subscription per effective connect, from the connect to its disconnect / the source's end
        connected, exp, handle_of, cur = False, raw_exp, [], None
        for t, x in case["ops"]:
            if x[0] == "connect":
                if not connected:
                    connected = True
                    exp.append([t, None])
                    cur = len(exp) - 1
                handle_of.append(cur)
            elif x[0] == "disconnect" and x[1] < len(handle_of):
                h = handle_of[x[1]]
                if connected and h == cur:
                    connected = False
                    if exp[h][1] is None:
                        exp[h][1] = t
        if [s for s, _ in src] != [s for s, _ in exp]:
            return f"source subscribed at {[s for s, _ in src]} but the effective connect() calls are at {[s for s, _ in exp]}"
        for (s, u), (es, eu) in zip(src, exp):
            end = eu if eu is not None else case["horizon"]
            if u is not None and u > end:
                return f"source subscription {s}..{u} outlives its connection (disconnected at {end})"
            if u is not None and u < end:
                # may only end earlier because the source ended
                ok = last_msg is not None and ((case["hot"] and last_msg[0] == u) or (not case["hot"] and s + last_msg[0] == u))
                if not ok:
                    return f"source subscription {s}..{u} ended although the connection lasted until {end} and the source did not end then"
    pres = _present_intervals(case, o["out"])
    if case["wrap"] == "refcount":
        # O3: connected exactly while the subscriber count is positive (edges 0->1, ->0)
        events = []
        order = {i: k for k, (t, x) in enumerate(case["ops"]) if x[0] == "sub" for i in [x[1]]}
        for i, (a, b, _w) in pres.items():
            events.append((a, 0, order[i], +1))
        cnt, exp = 0, []
        # walk through time: arrivals in history order; departures when they happen
        points = sorted({v[0] for v in pres.values()} | {v[1] for v in pres.values()})
        for p in points:
            arr = sorted((order[i], i) for i, (a, b, _w) in pres.items() if a == p)
            dep = [i for i, (a, b, _w) in pres.items() if b == p and a < p]
            for i in dep:
                cnt -= 1
                if cnt == 0 and exp and exp[-1][1] is None:
                    exp[-1][1] = p
            for _, i in arr:
                cnt += 1
                if cnt == 1:
                    exp.append([p, None])
                if pres[i][1] == p:  # came and went in the same instant
                    cnt -= 1
                    if cnt == 0:
                        exp[-1][1] = p
        exp = [[s, u if u is not None else None] for s, u in exp]
        got = [[s, u] for s, u in src]
        # same-instant re-orderings (a departure and an arrival at one instant) make the count touch 0 or not depending on call order;
        # the oracle accepts both readings by merging/splitting at equal instants
        def norm(l):
            res = []
            for s, u in l:
                if res and res[-1][1] == s:
                    res[-1][1] = u
                else:
                    res.append([s, u])
            return [x for x in res if x[0] != x[1]]
        if norm(got) != norm(exp):
            return f"ref_count: source subscribed over {got} but the subscriber count is positive over {exp} (presence {pres})"
    if case["wrap"] == "auto":
        n = case["n"]
        if len(src) > 1:
            return f"auto_connect({n}): more than one source subscription {src}"
        # first instant at which n subscribers are present
        if n == 0:
            exp_t = 0
        else:
            exp_t, cnt = None, 0
            evs = []
            for t, x in case["ops"]:
                if x[0] == "sub":
                    evs.append((t, x[1], +1))
                elif x[0] == "unsub" and x[1] in pres and pres[x[1]][1] == t and t >= pres[x[1]][0]:
                    evs.append((t, x[1], -1))
            done = set()
            for t, i, d in evs:
                if d < 0:
                    if i in done:
                        continue
                    done.add(i)
                cnt += d
                # a subscriber that got a terminal at once (stopped subject) leaves at once
                if d > 0 and cnt == n and exp_t is None:
                    exp_t = t
                if d > 0 and pres[i][1] == t and i not in done and not any(tt == t and xx == ["unsub", i] for tt, xx in case["ops"]):
                    cnt -= 1
                    done.add(i)
        got_t = src[0][0] if src else None
        if got_t != exp_t:
            return f"auto_connect({n}): source subscribed at {got_t}, but {n} subscribers are first present at {exp_t}"
    # O5: every subscriber sees what the subject receives from its subscription on (+ current / replayed values)
    feed = []  # what the subject receives: (time, notif) while a source subscription is live, up to the first terminal
    for s, u in src:
        end = case["horizon"] if u is None else u
        for t, n in case["msgs"]:
            at = t if case["hot"] else s + t
            if case["hot"]:
                inside = s < at <= end  # a hot message at the connect instant came before the call; one at the disconnect instant too
            else:
                # the history's calls at an instant run before the cold messages due at that instant
                # (a terminal due at `end` was delivered iff it ended the subscription itself: somebody received it then, or no call is there)
                if case["wrap"] == "raw":  # an effective disconnect() of this very connection at that instant
                    k = src.index([s, u]) if [s, u] in src else -1
                    ended_by_call = 0 <= k < len(raw_exp) and raw_exp[k][1] == end
                elif case["wrap"] == "refcount":  # a live subscriber's unsubscribe call at that instant
                    ended_by_call = any(v[1] == end and v[2] == "call" for v in pres.values())
                else:
                    ended_by_call = False
                ended_by_call = ended_by_call or end == case["horizon"]
                seen_then = any([at, n] in lg for lg in o["out"].values())
                inside = s < at < end or (at == end and n[0] != "N" and (seen_then or not ended_by_call))
            if inside:
                feed.append((at, n))
    feed.sort(key=lambda x: x[0])
    acc = []
    for at, n in feed:
        acc.append((at, n))
        if n[0] in ("C", "E"):
            break
    feed = acc
    term = feed[-1] if feed and feed[-1][1][0] in ("C", "E") else None
    for i, lg in o["out"].items():
        a, b, why = pres[int(i)]
        if case["hot"]:
            # a hot message at an instant precedes the calls of that instant
            later = [[t, n] for t, n in feed if a < t <= b]
            vals_before = [n[1] for t, n in feed if t <= a and n[0] == "N"]
        else:
            # a cold message at an instant follows the calls of that instant
            later = [[t, n] for t, n in feed if a <= t < b or (t == b and why == "terminal" and n[0] != "N")]
            vals_before = [n[1] for t, n in feed if t < a and n[0] == "N"]
        stopped_before = term is not None and (term[0] <= a if case["hot"] else term[0] < a)
        prelude = []
        if case["subject"] == "behavior" and not stopped_before:
            prelude = [[a, ["N", enc(vals_before[-1] if vals_before else case["init"])]]]
        if case["subject"] == "replay":
            buf = case.get("buf")
            keep = vals_before if buf is None else (vals_before[-buf:] if buf > 0 else [])
            prelude = [[a, ["N", v]] for v in keep]
        if stopped_before:
            later = [[a, term[1]]]
        exp = prelude + later
        if exp != lg:
            return (f"subscriber {i} (present {a}..{b}) received {lg} but the subject's input from its subscription on is {later} "
                    f"with prelude {prelude} (source subscriptions {src})")
    return None


def nontrivial(case, o):
    if case["op"] == "replay_backlog":
        return True
    if case["op"] == "mcast_win":
        return any(len(v) > case["n"] for v in o["out"].values())
    if case["op"] == "sync_run":
        return o["nsrc"] >= 1 and any(o["out"].values())
    kinds = {x[0] for _, x in case["ops"]}
    return len(kinds) >= 2 and any(o["out"].values())


def bucket(case, o):
    yield case["op"]
    if case["op"] == "replay_backlog":
        return
    if case["op"] == "mcast_win":
        yield "mcast_win:" + ("hot" if case["hot"] else "cold")
        return
    if case["op"] == "sync_run":
        yield "sync:subject:" + case["subject"]
        yield "sync:reactions:%d" % len(case["actions"])
        yield "sync:nsrc:%d" % min(o["nsrc"], 3)
        for a in case["actions"]:
            yield "sync:react:" + a[0]
        return
    yield "subject:" + case["subject"]
    yield "wrap:" + case["wrap"] + (str(case["n"]) if case["wrap"] == "auto" else "")
    yield "source:" + ("hot" if case["hot"] else "cold")
    yield "srcsubs:%d" % min(len(o["src"]), 4)
    if any(t1 == t2 for (t1, _), (t2, _) in zip(case["ops"], case["ops"][1:])):
        yield "same-instant-calls"


def shrink(case):
    if case["op"] == "replay_backlog":
        return
    if case["op"] == "mcast_win":
        for i in range(len(case["msgs"])):
            c = dict(case)
            c["msgs"] = case["msgs"][:i] + case["msgs"][i + 1:]
            yield c
        if len(case["subs"]) > 1:
            c = dict(case)
            c["subs"] = case["subs"][:1]
            yield c
        return
    if case["op"] == "sync_run":
        for i in range(len(case["ops"])):
            if len(case["ops"]) > 1:
                c = dict(case)
                c["ops"] = case["ops"][:i] + case["ops"][i + 1:]
                yield c
        for i in range(len(case["sync"])):
            c = dict(case)
            c["sync"] = case["sync"][:i] + case["sync"][i + 1:]
            yield c
        return
    for i in range(len(case["ops"])):
        c = dict(case)
        c["ops"] = case["ops"][:i] + case["ops"][i + 1:]
        # keep handle indices meaningful
        yield c
    for i in range(len(case["msgs"])):
        c = dict(case)
        c["msgs"] = case["msgs"][:i] + case["msgs"][i + 1:]
        yield c


LEVEL_TEXT = ("Lean theorems over the Connectable model, for every history of subscribe/unsubscribe/connect/disconnect calls at any virtual times, any "
              "source (cold or hot, any messages) and any of the three subject kinds: at most one live source subscription, exactly one per effective "
              "connect (`connect_one_sub_per_connection`); ref_count connects at the 0->1 edge and disconnects at ->0, connected iff count > 0 "
              "(`refcount_edges`, `refcount_connected_iff`); auto_connect(n) connects exactly when n subscribers are present and never disconnects "
              "(`autoconnect_at_n`); a subscriber receives exactly the subject's input from its subscription on, plus current/replayed values "
              "(`multicast_subscriber_sees_subject_suffix`). The model is run against the real operators on generated histories (outputs and source "
              "subscription logs), and an independent oracle written against the property text runs on the real code.")
LEVEL_NOTE = ("Two models: virtual-time histories with passive subscribers (Conn.lean) and synchronous sources with re-entrant calls from callbacks "
              "(ConnSync.lean, an explicit call-stack machine; theorem: never two open source subscriptions under any reactions); both run against the real code. "
              "Model = single-threaded semantics; ReplaySubject only count-bounded with its default scheduler; "
              "multicast(subject_factory, mapper): `multicast_factory_one_source_subscription` (exactly one source subscription per outer subscription, at its time, released at the end), "
              "mapper = identity / merge(c, c) in the correspondence. auto_connect is modelled and proved as written (it counts subscribers currently present, its docstring says 'after that many "
              "subscriptions occur'); histories in which subscribers leave before the n-th arrives are accepted with the as-written reading.")

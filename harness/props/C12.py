"""C12 — switching forwards only the latest inner sequence (switch_latest, switch_map, switch_map_indexed, flat_map_latest)."""
import copy

import fw
from props import comb_common as cc

LEAN_TARGETS = ["RxProofs.C12"]
DRIVER = "drv_comb"
DRIVER_ROOT = "Comb"
PROCS = 1  # a case takes ~1 ms: forking a pool costs more than it saves, and one process lets impl / model_request share the run
THEOREMS = [
    "C12.switch_only_latest",
    "C12.switch_unsub_prev_at_arrival",
    "C12.switch_completes_iff",
    "C12.switch_stale_error_ignored",
]
RULE = ("outer timeline (cold or hot; completing before/after the last inner, erroring, never completing) of 0..4 inner sources with "
        "overlapping lifetimes (cold, hot, 'rude' hot that keeps pushing after it was unsubscribed - i.e. stale elements and stale errors, or "
        "notifying synchronously inside subscribe), 5-tick grid so that an inner element and the arrival of the next inner often coincide; "
        "operators switch_latest, switch_map, switch_map_indexed, flat_map_latest with a mapper that may raise; optional dispose; the recorded "
        "global event list is replayed through the Lean machine, outputs (timed) and subscribe/unsubscribe effects compared per event in "
        "same-instant order; oracle-only additions: re-entrant switches (a synchronously emitting inner whose element makes the consumer push the next "
        "inner into the hot outer; the stale inner goes on and completes; outer completes before/after the latest inner) and two overlapping "
        "subscriptions of one observable; non-trivial = at least two inners arrived or an inner terminated")
ASSUMPTIONS = ["single-threaded / virtual-time execution: one run is one list of tagged events",
               "each element of the outer sequence is a distinct inner observable, the outer sequence does not notify inside subscribe"]
TRUSTED_EXTRA = ["the logging cold/hot/sync sources of harness/props/comb_common.py as measuring instruments"]
LEVEL_TEXT = ("Lean theorems (arbitrary event lists, no bounds) on the trace machine of switch_latest (switch_map, switch_map_indexed, flat_map_latest = map + switch_latest): a value goes "
"out iff it is delivered by the most recently arrived inner; the arrival step unsubscribes the previous inner and then subscribes the new one (exact effects); the output completes "
"iff the outer completed and the latest inner (if any) completed; notifications of stale inners, errors included, have no effect. Tied to /repo by replaying recorded event lists "
"of generated real runs with overlapping inner lifetimes, stale pushes, same-instant arrivals, and comparing outputs and effects in order, plus a property-text oracle.")
LEVEL_NOTE = ("Model = RxModel/Comb.lean + RxModel/CombHO.lean swM (latest id as `cur`, has_latest, is_stopped, Composite(outer, Serial inner)). All four theorems full: "
"switch_only_latest and switch_completes_iff are stated against declarative folds over the delivered notifications (swSpec / swTStep+swRule: 'latest' = the most "
"recently arrived inner), switch_unsub_prev_at_arrival gives the exact effect list of the arrival step, switch_stale_error_ignored holds for ANY state (it is the `latest[0] == _id` guard). "
"LIMIT of the trace machine: a source that is still inside its own subscribe call cannot be disposed, so after a RE-ENTRANT switch (consumer feedback pushing the next "
"inner into the outer from inside on_next) the stale inner's notifications really reach the operator; the flat machine closes a source at `unsub` and therefore never "
"delivers them - these runs are NOT replayed through the model, they are oracle-only cases (feedback cases: only-latest forwarding, completion only after outer and "
"latest inner completed). Also oracle-only: two overlapping subscriptions of one switched observable on a shared hot outer, each compared with a subscription alone "
"on a fresh instance. Stale pushes after unsubscription are generated with 'rude' hot sources. Also generated: the very same inner object "
"delivered again while still running (one trace id per subscription), outers that emit inside subscribe, two SUCCESSIVE observers of one switched observable (besides "
"overlapping ones); an exception escaping into the scheduler is recorded as an output ('X'), never a harness error.")

OPS = ["switch_latest", "switch_map", "switch_map_indexed", "flat_map_latest"]


def cases(rng, tier):
    n = fw.tier_scale(tier, 4000, 80000)
    for i in range(n):
        op = OPS[i % len(OPS)]
        r = rng.random()
        if r < 0.12:
            # oracle-only: re-entrant switch through consumer feedback (a stale inner's notifications really reach the operator)
            yield cc.gen_feedback_case(rng, op)
            continue
        c = cc.gen_ho_case(rng, op, p_rude=0.5)
        if r < 0.22:
            # oracle-only: two subscriptions of the same switched observable alive at the same time, fed by a shared hot outer
            if rng.random() < 0.5:
                c["second"] = {"dispose1": cc.SUBSCRIBE_AT + 5 * rng.randint(8, 16), "sub2": cc.SUBSCRIBE_AT + 5 * rng.randint(1, 6)}
            else:
                # two successive observers: the first one received inners, is disposed, then the second one subscribes
                d1 = cc.SUBSCRIBE_AT + 5 * rng.randint(4, 10)
                c["second"] = {"dispose1": d1, "sub2": d1 + 5 * rng.randint(0, 4)}
            c["dispose"] = None
            if c["outer"]["mode"] != "hot":
                c["outer"] = {"mode": "hot", "msgs": [[cc.SUBSCRIBE_AT + m[0]] + m[1:] for m in c["outer"]["msgs"]]}
        yield c


def impl(case):
    if "second" in case:
        r = cc.run_second_subscriber(lambda: cc.ho_world_and_build(case)[:2], case["second"])
        return {"second": r, "log": [], "split": cc.split_log([]), "idx": []}
    log, idx_seen = cc.run_ho(case)
    return {"split": cc.split_log(log, cc.sync_ids_of(case)), "log": log, "idx": idx_seen}


def model_request(case):
    if "second" in case or case.get("feedback"):
        return None     # oracle-only (the flat trace machine does not model a source that is still inside its own subscribe)
    log, _ = cc.run_ho(case)
    if cc.outer_delivers_after_end(case, log):
        return None
    sp = cc.split_log(log, cc.sync_ids_of(case))
    return {"op": "switch", "events": [e for _, e in sp["events"]]}


def canon_impl(case, out):
    return cc.canon_real(out["split"])


def canon_model(case, resp):
    log, _ = cc.run_ho(case)
    sp = cc.split_log(log, cc.sync_ids_of(case))
    return cc.canon_model_resp(sp["events"], resp, cc.sync_ids_of(case))


def oracle(case, out):
    """walk the log with the property's own notions: `latest` = the most recently arrived inner"""
    if "second" in out:
        return cc.second_failure(case, out["second"], "not the elements of ITS latest inner")
    log = out["log"]
    got = cc.outputs(out["split"])
    if not cc.grammar_ok(got):
        return f"output is not next* terminal?: {got}"
    feedback = bool(case.get("feedback"))
    latest = None
    latest_done = False
    outer_done = False
    finished = False     # output terminated or disposed
    open_subs = set()
    term = set()
    expect = []          # expected output entries [t, notif]
    for p, e in enumerate(log):
        if e[0] == "dispose":
            finished = True
        elif e[0] == "sub":
            open_subs.add(e[1])
        elif e[0] == "unsub":
            open_subs.discard(e[1])
        elif e[0] == "ev":
            sid, nt, t = e[1], e[2], e[3]
            if sid not in open_subs or sid in term or finished:
                continue
            if nt[0] != "N":
                term.add(sid)
            if sid == 0:
                if nt[0] == "N":
                    prev = latest
                    latest, latest_done = nt[1], False
                    # the previous inner must be unsubscribed, and the new one subscribed, within this step, in this order
                    step = []
                    for f in log[p + 1:]:
                        if f[0] in ("ev", "tick", "dispose"):
                            break
                        step.append(f)
                    if not cc_sync(case, latest):
                        subs = [i for i, f in enumerate(step) if f[0] == "sub" and f[1] == latest]
                        if len(subs) != 1:
                            return f"inner {latest} arrived at {t} but was not subscribed in that step: {step}"
                        if prev is not None and prev in open_subs and not (feedback and cc_sync(case, prev)):
                            uns = [i for i, f in enumerate(step) if f[0] == "unsub" and f[1] == prev]
                            if len(uns) != 1 or uns[0] > subs[0]:
                                return f"previous inner {prev} not unsubscribed before {latest} is subscribed at {t}: {step}"
                elif nt[0] == "E":
                    expect.append([t, nt]); finished = True
                else:
                    outer_done = True
                    if latest is None or latest_done:
                        expect.append([t, ["C"]]); finished = True
            else:
                if sid != latest:
                    continue   # stale inner: ignored, errors included
                if nt[0] == "N":
                    expect.append([t, nt])
                elif nt[0] == "E":
                    expect.append([t, nt]); finished = True
                else:
                    latest_done = True
                    if outer_done:
                        expect.append([t, ["C"]]); finished = True
    if got != expect:
        return f"switch: got {got}, expected by the latest-inner rule {expect}"
    # at most one inner subscription open at any time (sync inners: counted until their terminal)
    act = set()
    for e in log:
        if e[0] == "sub" and e[1] != 0:
            act.add(e[1])
            if len(act) > 1 and not feedback:   # feedback: the previous inner may still be inside its own subscribe call
                return f"two inner subscriptions open: {sorted(act)}"
        elif e[0] == "unsub" or (e[0] == "ev" and e[2][0] != "N"):
            act.discard(e[1])
    if case["op"] == "switch_map_indexed" and out["idx"] != list(range(len(out["idx"]))):
        return f"switch_map_indexed passed indices {out['idx']}"
    return None


def cc_sync(case, sid):
    s = case["inners"].get(str(sid))
    return s is not None and s["mode"] == "sync"


def nontrivial(case, out):
    if "second" in out:
        return len(out["second"]["fresh"]) > 0
    log = out["log"]
    arrivals = len([1 for e in log if e[0] == "sub" and e[1] != 0])
    return arrivals >= 2 or any(e[0] == "ev" and e[1] != 0 and e[2][0] != "N" for e in log)


def bucket(case, out):
    if "second" in out:
        yield "second_subscriber_" + ("overlapping" if case["second"]["sub2"] < case["second"]["dispose1"] else "successive")
        return
    if case.get("feedback"):
        yield "feedback_reentrant_switch"
        log_ = out["log"]
        lat, stale_c = None, False
        for e in log_:
            if e[0] == "ev" and e[1] == 0 and e[2][0] == "N":
                lat = e[2][1]
            elif e[0] == "ev" and e[1] != 0 and e[1] != lat and e[2][0] == "C":
                stale_c = True
        if stale_c:
            yield "feedback_stale_completion_delivered"
    sp = out["split"]
    log = out["log"]
    got = cc.outputs(sp)
    yield f"op={case['op']}"
    yield f"inners={len(case['inners'])}"
    yield "end=" + (got[-1][1][0] if got and got[-1][1][0] != "N" else "open")
    ts = [t for t, _ in sp["events"]]
    yield "simultaneous=" + str(len(ts) != len(set(ts)))
    yield "dispose=" + str(case.get("dispose") is not None)
    yield "mapper_raises=" + str("raise_on" in case)
    yield "callable_form=" + case.get("callable_form", "def")
    if case.get("outer", {}).get("mode") == "sync":
        yield "sync_outer" + ("_oracle_only" if cc.outer_delivers_after_end(case, out["log"]) else "")
    if any("same_as" in s_ for s_ in case["inners"].values()):
        yield "same_inner_object_twice"
    # stale notifications: events of an inner logged while it is not the latest arrived
    latest, stale_n, stale_e, switched_live = None, 0, 0, 0
    open_subs = set()
    for e in log:
        if e[0] == "sub":
            open_subs.add(e[1])
        elif e[0] == "unsub":
            open_subs.discard(e[1])
        elif e[0] == "ev" and e[1] == 0 and e[2][0] == "N":
            if latest in open_subs:
                switched_live += 1
            latest = e[2][1]
        elif e[0] == "ev" and e[1] != 0 and e[1] != latest:
            if e[2][0] == "E":
                stale_e += 1
            else:
                stale_n += 1
    yield "stale_elements=" + str(stale_n > 0)
    yield "stale_error=" + str(stale_e > 0)
    yield "switched_while_live=" + str(switched_live > 0)
    for s in case["inners"].values():
        yield "inner=" + s["mode"] + ("-rude" if s.get("rude") else "")


def shrink(case):
    yield from cc.shrink_ho(case)

"""C05 — element-wise operators match their list semantics (DESIGN.md §5 C05).

Correspondence: a hot TestScheduler observable built from a generated (possibly non-conforming) timeline is
pushed through the REAL operator; recorded either at subscriber level (`mode = "sub"`, through
`Observable.subscribe`) or with a raw observer plugged in by `_subscribe_core` (`mode = "raw"`: the
subscriber's terminal never disposes the source subscription, so handlers keep being called).  The full timed
output is compared with the Lean model (`drv_ops`, op "c05").

Oracle: the Python list computation of the property text, evaluated on every prefix of the conforming input so
that every output is also checked to arrive at the virtual time of the input that determines it.
"""
import itertools

import fw
from fw import FnTab, InjectedError, enc, dec, err_name

LEAN_TARGETS = ["RxProofs.C05"]
DRIVER = "drv_ops"
DRIVER_ROOT = "Ops"
THEOREMS = [
    "C05.run_eq_sem", "C05.lag_irrelevant", "C05.pipe_eq", "C05.timing", "C05.emitted_at",
    "C05.map_eq", "C05.map_pure", "C05.map_indexed_eq", "C05.map_indexed_pure",
    "C05.filter_eq", "C05.filter_pure", "C05.filter_indexed_eq", "C05.filter_indexed_pure", "C05.filter_indexed_none_eq",
    "C05.take_eq", "C05.skip_eq",
    "C05.take_while_eq", "C05.take_while_pure", "C05.take_while_indexed_eq", "C05.take_while_indexed_pure",
    "C05.skip_while_eq", "C05.skip_while_pure", "C05.skip_while_indexed_eq", "C05.skip_while_indexed_pure",
    "C05.distinct_eq", "C05.distinct_pure", "C05.distinct_until_changed_eq", "C05.distinct_until_changed_pure",
    "C05.pairwise_eq", "C05.start_with_eq", "C05.default_if_empty_eq", "C05.ignore_elements_eq",
    "C05.take_last_eq", "C05.skip_last_eq", "C05.take_last_buffer_eq", "C05.element_at_eq",
    "C05.find_eq", "C05.find_index_eq", "C05.find_pure", "C05.find_index_pure",
    "C05.starmap_eq", "C05.starmap_tuples", "C05.starmap_identity", "C05.starmap_not_iterable",
    "C05.pluck_eq", "C05.pluck_missing_key", "C05.pluck_found", "C05.pluck_not_subscriptable", "C05.take_timed", "C05.filter_timed",
    "C05.materialize_eq", "C05.dematerialize_eq", "C05.dematerialize_materialize", "C05.scan_seed_eq",
    "C05.map_timed", "C05.skip_last_timed", "C05.take_last_timed",
    "C05.skip_last_asis_drops_none", "C05.skip_last_asis_counter",
    # re-entrant feedback sources (RxModel/OpsFb.lean)
    "C05.fb_eq_sequential", "C05.map_fb", "C05.filter_fb", "C05.filter_indexed_fb", "C05.take_fb", "C05.skip_fb", "C05.take_while_fb",
    "C05.take_while_indexed_fb", "C05.skip_while_fb", "C05.distinct_fb", "C05.distinct_until_changed_fb", "C05.pairwise_fb",
    "C05.start_with_fb", "C05.default_if_empty_fb", "C05.ignore_elements_fb", "C05.take_last_fb", "C05.skip_last_fb",
    "C05.take_last_buffer_fb", "C05.element_at_fb", "C05.find_fb", "C05.materialize_fb", "C05.dematerialize_fb", "C05.scan_seed_fb",
    "C05.take_late_counter",
]
RULE = ("per case: one operator (uniform over the catalogue), parameters aimed at its branches (counts 0..len+2 and negative, "
        "predicate/key/comparer tables over the case's small value alphabet incl. raising entries and non-bool truthy results), a hot "
        "timeline of 0..12 elements with duplicates and falsy values, equal timestamps, terminal kinds balanced (completed/error/none) and "
        "~15% non-conforming tails (emissions after the terminal, second terminal); recorded at subscriber level (70%) or by a raw observer "
        "without disposal feedback (30%); plus 1200 RE-ENTRANT cases (model correspondence for the single-stage operators, oracle for all): the source is a Subject and the consumer pushes the next pending "
        "element into it from inside its own on_next, so the operator's handler is re-entered during its downstream call. Non-trivial = output differs from the conforming input or a callback raised or the input is non-conforming.")
ASSUMPTIONS = [
    "single-threaded / virtual-time execution; source = one hot observable (the property quantifies over finite timelines)",
    "downstream observer callbacks return normally (raising subscribers are C01/C09's subject)",
    "dematerialize: every element is a Notification object",
    "skip_last is modelled WITH the proposed fix fixes/C05_skip_last_none.patch; the pinned behaviour is the separate skipLastAsIsOp",
]
TSUB = 200
AOOR = "ArgumentOutOfRangeException"

VALS = [None, 0, 0.0, False, "", (), [], {}, 1, "a", 2, 3, True, (1, 2), "b"]
OPS = ["map", "map_indexed", "starmap", "pluck", "filter", "filter_indexed", "take", "skip", "take_while", "take_while_indexed",
       "skip_while", "skip_while_indexed", "distinct", "distinct_until_changed", "pairwise", "start_with", "default_if_empty",
       "ignore_elements", "take_last", "skip_last", "take_last_buffer", "element_at", "element_at_or_default", "find", "find_index",
       "materialize", "dematerialize", "materialize_dematerialize"]


# ----------------------------------------------------------------------------------------- generation
def gen_timeline(rng, elems, maxlen=12):
    """[[t, notif], ...] over encoded element values `elems` (callable -> encoded value)"""
    n = rng.choice([0, 1, 2, 3, 4, 5, 6, 8, 12][: (9 if maxlen >= 12 else 6)])
    t = 200
    out = []
    for _ in range(n):
        t += rng.choice([0, 5, 10, 10, 10])
        t = max(t, 210)
        out.append([t, ["N", elems()]])
    kind = rng.choice(["C", "C", "C", "E", "E", "open", "bad"])
    t = max(t + rng.choice([0, 5, 10]), 210)
    if kind == "C":
        out.append([t, ["C"]])
    elif kind == "E":
        out.append([t, ["E", f"src{rng.randrange(3)}"]])
    elif kind == "bad":
        out.append([t, rng.choice([["C"], ["E", "src0"]])])
        for _ in range(rng.randrange(1, 4)):
            t += rng.choice([0, 5, 10])
            r = rng.random()
            out.append([t, ["N", elems()] if r < 0.6 else (["C"] if r < 0.8 else ["E", "late"])])
    return out


def pred_result(rng, raising=True):
    r = rng.random()
    if raising and r < 0.07:
        return {"raise": f"cb{rng.randrange(3)}"}
    if r < 0.14:
        return enc(rng.choice([0, "", None, (), "x", 7, [0]]))  # non-bool truthy / falsy results
    return rng.random() < 0.6


def gen_fn1(rng, alphabet, result):
    return {"tab": [[a, result()] for a in alphabet], "dflt": result()}


def gen_fn_idx(rng, elems, result, n_idx=14):
    """table over (value, index) pairs: every element of the timeline at every plausible index"""
    tab = []
    seen = set()
    for a in elems:
        for i in range(n_idx):
            k = fw.key([a, i])
            if k not in seen and rng.random() < 0.9:
                seen.add(k)
                tab.append([{"t": [a, i]}, result()])
    return {"tab": tab, "dflt": result()}


def gen_case(rng, vals=VALS, ops_list=OPS):
    name = rng.choice(ops_list)
    k = rng.choice([1, 2, 3, 4])
    alphabet = [enc(v) for v in rng.sample(vals, min(k, len(vals)))]
    case = {"op": "c05", "name": name, "mode": "sub" if rng.random() < 0.7 else "raw", "tsub": TSUB}
    elems = lambda: rng.choice(alphabet)  # noqa

    if name == "starmap":
        tups = [enc(t) for t in [(), (1,), (1, 2), (None, 0), [1, 2], [0], (0,), ("", ()), "ab", "", {"k": 1}, {}, {0: None, "": 1}, []]]
        alphabet = rng.sample(tups, 3) + ([enc(rng.choice([None, 0, False, 0.0]))] if rng.random() < 0.3 else [])
    elif name == "pluck":
        keys = ["k", "k", 0, 0, "", "z", -1, 1, 5, True, False, None, [], 0.0, -3]
        dicts = [enc(d) for d in [{}, {"k": None}, {"k": 0, "z": 1}, {0: "", "": ()}, {"k": [], 0: False}, {None: 0, 1: ""},
                                  [1, None], (0,), "ab", [], (), "", [[], {}, 0]]]
        alphabet = rng.sample(dicts, 3) + ([enc(rng.choice([None, 0, False, 0.0]))] if rng.random() < 0.25 else [])
        case["key"] = enc(rng.choice(keys))
    elif name == "dematerialize":
        base = alphabet
        def elems():  # noqa
            r = rng.random()
            if r < 0.8:
                return {"t": [".N", rng.choice(base)]}
            if r < 0.9:
                return {"t": [".C"]}
            return {"t": [".E", f"inner{rng.randrange(2)}"]}

    case["input"] = gen_timeline(rng, elems)
    n_el = sum(1 for t, n in case["input"] if n[0] == "N")
    used = []
    for t, n in case["input"]:
        if n[0] == "N" and fw.key(n[1]) not in [fw.key(u) for u in used]:
            used.append(n[1])
    count = lambda: rng.choice([0, 0, 1, 1, 2, 3, max(n_el - 1, 0), n_el, n_el + 1, n_el + 2, -1])  # noqa
    pres = lambda: pred_result(rng)  # noqa

    if name == "map":
        case["f"] = None if rng.random() < 0.08 else gen_fn1(rng, alphabet, lambda: ({"raise": "map_err"} if rng.random() < 0.08 else enc(rng.choice(vals))))
    elif name == "map_indexed":
        case["f"] = None if rng.random() < 0.08 else gen_fn_idx(rng, used, lambda: ({"raise": "mapi_err"} if rng.random() < 0.05 else enc(rng.choice(vals))))
    elif name == "starmap":
        if rng.random() < 0.15:
            case["f"] = None
        else:
            args = []
            for a in alphabet:
                v = dec(a)
                if isinstance(v, (tuple, list, str, dict)):
                    xs = [enc(x) for x in v]  # what *v unpacks to (a dict: its keys, a str: its characters)
                    args.append(xs[0] if len(xs) == 1 else {"t": xs})
            case["f"] = {"tab": [[a, ({"raise": "star_err"} if rng.random() < 0.1 else enc(rng.choice(vals)))] for a in args],
                         "dflt": enc(rng.choice(vals))}
    elif name in ("filter", "take_while", "skip_while"):
        case["p"] = gen_fn1(rng, alphabet, pres)
    elif name in ("filter_indexed", "take_while_indexed", "skip_while_indexed", "find", "find_index"):
        if name == "filter_indexed" and rng.random() < 0.1:
            case["p"] = None
        else:
            case["p"] = gen_fn_idx(rng, used, pres)
    if name in ("take_while", "take_while_indexed"):
        case["inclusive"] = rng.random() < 0.5
    if name in ("take", "skip", "take_last", "skip_last", "take_last_buffer", "element_at", "element_at_or_default"):
        case["n"] = count()
    if name in ("element_at_or_default", "default_if_empty"):
        case["dflt"] = enc(rng.choice(vals))
    if name == "start_with":
        case["args"] = [enc(rng.choice(vals)) for _ in range(rng.randrange(0, 4))]
    if name in ("distinct", "distinct_until_changed"):
        keys = [enc(v) for v in rng.sample(vals, 3)]
        case["key"] = None
        case["cmp"] = None
        if rng.random() < 0.5:
            case["key"] = gen_fn1(rng, alphabet, lambda: ({"raise": "key_err"} if rng.random() < 0.06 else rng.choice(keys)))
        if rng.random() < 0.4:
            dom = keys if case["key"] else alphabet
            case["cmp"] = {"tab": [[{"t": [a, b]}, pred_result(rng, True)] for a in dom for b in dom], "dflt": rng.random() < 0.5}
    return case


# Operators that still have to wait for a fix before they can be put on a re-entrant source (none: element_at and
# find / find_index were fixed by c373a15 / 8cbe136 — they now record the match before emitting it).
REENTRANT_PENDING_FIX = set()


def reentrant_skip():
    return REENTRANT_PENDING_FIX


CHAIN_KINDS = ["filter", "filter", "map", "take", "skip", "take_while", "take_while", "skip_while", "distinct_until_changed", "distinct",
               "filter_indexed", "take_last", "skip_last"]


def gen_chain(rng, vals=VALS):
    """two or three directly chained stages, mostly of the SAME kind, over one small alphabet; with partial callbacks: a later
    stage's callback raises on a marker value that an earlier filter / take_while removes, so it must never see it"""
    k = rng.choice([2, 2, 3])
    kind = rng.choice(CHAIN_KINDS)
    kinds = [kind] * k if rng.random() < 0.8 else [rng.choice(CHAIN_KINDS) for _ in range(k)]
    alphabet = [enc(v) for v in rng.sample(vals, rng.choice([2, 3, 4]))]
    inp = gen_timeline(rng, lambda: rng.choice(alphabet))
    n_el = sum(1 for t, n in inp if n[0] == "N")
    marker = rng.choice(alphabet) if rng.random() < 0.7 else None
    removed = False
    stages = []
    for kd in kinds:
        st = {"name": kd}
        if kd in ("filter", "take_while", "skip_while"):
            tab = gen_fn1(rng, alphabet, lambda: pred_result(rng, raising=False))
            if marker is not None:
                for row in tab["tab"]:
                    if fw.key(row[0]) == fw.key(marker):
                        if removed:
                            row[1] = {"raise": "partial"}      # partial: defined only on what the earlier stage lets through
                        elif kd in ("filter", "take_while"):
                            row[1] = False
                if kd in ("filter", "take_while") and not removed:
                    removed = True
            st["p"] = tab
            if kd == "take_while":
                st["inclusive"] = False if marker is not None else rng.random() < 0.5
        elif kd == "map":
            st["f"] = gen_fn1(rng, alphabet, lambda: rng.choice(alphabet))
            if marker is not None and removed:
                for row in st["f"]["tab"]:
                    if fw.key(row[0]) == fw.key(marker):
                        row[1] = {"raise": "partial"}
            elif marker is not None:
                # the mapper may re-introduce the marker: from here on nothing guarantees it is gone
                marker = None
        elif kd == "filter_indexed":
            used = []
            for t, n in inp:
                if n[0] == "N" and fw.key(n[1]) not in [fw.key(u) for u in used]:
                    used.append(n[1])
            st["p"] = gen_fn_idx(rng, used, lambda: pred_result(rng, raising=False))
        elif kd in ("take", "skip", "take_last", "skip_last"):
            st["n"] = rng.choice([0, 1, 1, 2, 3, max(n_el - 1, 0), n_el])
        elif kd in ("distinct", "distinct_until_changed"):
            st["key"] = gen_fn1(rng, alphabet, lambda: rng.choice(alphabet)) if rng.random() < 0.5 else None
            st["cmp"] = None
            if st["key"] is not None:
                marker = None
        stages.append(st)
    return {"op": "c05", "name": "chain", "mode": rng.choice(["sub", "sub", "sub", "raw", "feedback"]), "tsub": TSUB,
            "input": inp, "stages": stages}


def cases(rng, tier):
    for _ in range(fw.tier_scale(tier, 4000, 60000)):
        yield gen_case(rng)
    for _ in range(fw.tier_scale(tier, 800, 10000)):
        yield gen_chain(rng)
    # re-entrant feedback source (oracle only): the consumer pushes the next element from inside its own on_next
    skip = reentrant_skip()
    for _ in range(fw.tier_scale(tier, 1200, 15000)):
        c = gen_case(rng, ops_list=[o for o in OPS if o not in skip])
        c["mode"] = "feedback"
        yield c


# ----------------------------------------------------------------------------------------- real code
def _val(v):
    """recorded value -> JSON encoding (Notification objects become tagged tuples)"""
    from reactivex.notification import Notification

    if isinstance(v, Notification):
        if v.kind == "N":
            return {"t": [".N", _val(v.value)]}
        if v.kind == "E":
            return {"t": [".E", err_name(v.exception)]}
        return {"t": [".C"]}
    return enc(v)


def _to_notification(j):
    from reactivex.notification import OnCompleted, OnError, OnNext

    t = j["t"]
    if t[0] == ".N":
        return OnNext(dec(t[1]))
    if t[0] == ".E":
        return OnError(InjectedError(t[1]))
    return OnCompleted()


CALLBACK_KEYS = ("f", "p", "key")  # callbacks applied to the ELEMENTS of a stage's input (comparers see keys, not elements)


def build_operator(case, registry=None, stage=0):
    """the real operator of a case (may raise at construction); `registry` collects (stage, key, FnTab) of its callbacks"""
    from reactivex import operators as ops

    name = case["name"]
    if name == "chain":
        from reactivex import compose

        return compose(*[build_operator(st, registry, i) for i, st in enumerate(case["stages"])])

    def fn(k):
        if case.get(k) is None:
            return None
        t = FnTab.from_json(case[k])
        if registry is not None and k in CALLBACK_KEYS and name != "starmap":
            registry.append((stage, k, t))
        return t
    if name == "map":
        return ops.map(fn("f")) if case.get("f") is not None else ops.map()
    if name == "map_indexed":
        return ops.map_indexed(fn("f")) if case.get("f") is not None else ops.map_indexed()
    if name == "starmap":
        return ops.starmap(fn("f")) if case.get("f") is not None else ops.starmap()
    if name == "pluck":
        return ops.pluck(dec(case["key"]))
    if name == "filter":
        return ops.filter(fn("p"))
    if name == "filter_indexed":
        return ops.filter_indexed(fn("p"))
    if name == "take":
        return ops.take(case["n"])
    if name == "skip":
        return ops.skip(case["n"])
    if name == "take_while":
        return ops.take_while(fn("p"), case["inclusive"])
    if name == "take_while_indexed":
        return ops.take_while_indexed(fn("p"), case["inclusive"])
    if name == "skip_while":
        return ops.skip_while(fn("p"))
    if name == "skip_while_indexed":
        return ops.skip_while_indexed(fn("p"))
    if name == "distinct":
        return ops.distinct(fn("key"), fn("cmp"))
    if name == "distinct_until_changed":
        return ops.distinct_until_changed(fn("key"), fn("cmp"))
    if name == "pairwise":
        return ops.pairwise()
    if name == "start_with":
        return ops.start_with(*[dec(a) for a in case["args"]])
    if name == "default_if_empty":
        return ops.default_if_empty(dec(case["dflt"]))
    if name == "ignore_elements":
        return ops.ignore_elements()
    if name == "take_last":
        return ops.take_last(case["n"])
    if name in ("skip_last", "skip_last_asis"):
        return ops.skip_last(case["n"])
    if name == "take_last_buffer":
        return ops.take_last_buffer(case["n"])
    if name == "element_at":
        return ops.element_at(case["n"])
    if name == "element_at_or_default":
        return ops.element_at_or_default(case["n"], dec(case["dflt"]))
    if name in ("find", "find_index"):
        p = fn("p")
        pred = lambda x, i, s: p(x, i)  # noqa
        return ops.find(pred) if name == "find" else ops.find_index(pred)
    if name == "materialize":
        return ops.materialize()
    if name == "dematerialize":
        return ops.dematerialize()
    if name == "materialize_dematerialize":
        from reactivex import compose

        return compose(ops.materialize(), ops.dematerialize())
    raise ValueError(name)


def run_real(case, make_observable):
    """drive `make_observable(hot_source)` with the case's timeline; -> {"out": timed notifications, "esc": escaped exceptions}"""
    from reactivex import abc
    from reactivex.scheduler import VirtualTimeScheduler
    from reactivex.testing import ReactiveTest, TestScheduler

    sched = TestScheduler()
    rec = []
    for t, n in case["input"]:
        if n[0] == "N":
            v = _to_notification(n[1]) if case["name"] == "dematerialize" else dec(n[1])
            rec.append(ReactiveTest.on_next(t, v))
        elif n[0] == "E":
            rec.append(ReactiveTest.on_error(t, InjectedError(n[1])))
        else:
            rec.append(ReactiveTest.on_completed(t))
    xs = sched.create_hot_observable(*rec)
    out = []

    class Raw(abc.ObserverBase):
        def on_next(self, value):
            out.append([int(sched.clock), ["N", _val(value)]])

        def on_error(self, error):
            out.append([int(sched.clock), ["E", err_name(error)]])

        def on_completed(self):
            out.append([int(sched.clock), ["C"]])

    raw = Raw()
    try:
        result = make_observable(xs)
    except Exception as e:  # argument validation happens when the (curried) operator is applied to its source
        return {"ctor": err_name(e)}

    def subscribe(s, st):
        if case["mode"] == "raw":
            result._subscribe_core(raw, sched)
        else:
            result.subscribe(raw.on_next, raw.on_error, raw.on_completed, scheduler=sched)

    sched.schedule_absolute(case.get("tsub", TSUB), subscribe)
    esc = []
    for _ in range(len(case["input"]) + 5):
        try:
            VirtualTimeScheduler.start(sched)
            break
        except Exception as e:  # an exception that escaped to the emitter
            esc.append([int(sched.clock), err_name(e)])
            sched._is_enabled = False
    return {"out": out, "esc": esc}


def run_feedback(case, make_observable):
    """RE-ENTRANT source: a Subject used as a feedback queue.  The input notifications are pushed in order, each exactly
    once; whenever the consumer receives an element it pushes the next pending notification into the Subject from
    inside its own on_next (so the operator's on_next handler is re-entered while it is still inside its downstream
    call); whatever the consumer did not trigger is pushed from the top level.  -> untimed output."""
    from reactivex.subject import Subject

    src = Subject()
    pending = []
    for t, n in case["input"]:
        pending.append(n)
    out = []
    depth = [0]

    def push():
        n = pending.pop(0)
        depth[0] += 1
        try:
            if n[0] == "N":
                src.on_next(_to_notification(n[1]) if case["name"] == "dematerialize" else dec(n[1]))
            elif n[0] == "E":
                src.on_error(InjectedError(n[1]))
            else:
                src.on_completed()
        finally:
            depth[0] -= 1

    armed = [False]

    def on_next(v):
        out.append(["N", _val(v)])
        # only ELEMENTS are fed back re-entrantly (a terminal is pushed from the top level once the chain has unwound), and
        # only once subscribe() has returned (what a hot source emits before the operator subscribed it is lost by design)
        if armed[0] and pending and pending[0][0] == "N" and depth[0] < 40:
            push()

    try:
        result = make_observable(src)
    except Exception as e:
        return {"ctor": err_name(e)}
    esc = []
    try:
        result.subscribe(on_next, lambda e: out.append(["E", err_name(e)]), lambda: out.append(["C"]))
    except Exception as e:  # raised while subscribing: an observation, not a harness failure
        return {"ctor": err_name(e)}
    armed[0] = True
    while pending:
        try:
            push()
        except Exception as e:  # escaped to the emitter
            esc.append(err_name(e))
    return {"fb": out, "esc": esc}


def impl(case):
    if case.get("mode") == "feedback":
        reg = []
        try:
            op = build_operator(case, reg)
        except Exception as e:
            return {"ctor": err_name(e)}
        out = run_feedback(case, lambda xs: xs.pipe(op))
        if "ctor" not in out:
            out["calls"] = [[st, k, t.calls] for st, k, t in reg]
        return out
    reg = []
    try:
        op = build_operator(case, reg)
    except Exception as e:  # constructor-time validation
        return {"ctor": err_name(e)}
    out = run_real(case, lambda xs: xs.pipe(op))
    if "ctor" not in out:
        out["calls"] = [[st, k, t.calls] for st, k, t in reg]
    return out


def canon_impl(case, out):
    """the callback call logs are checked by the oracle; the model does not produce them"""
    return {k: v for k, v in out.items() if k != "calls"} if isinstance(out, dict) else out


# single-stage operators with a split (re-entrant) model in RxModel/OpsFb.lean; compositions (map_indexed,
# skip_while_indexed, materialize|dematerialize, slice pipelines) stay oracle-only in feedback mode
FB_MODELLED = {"map", "starmap", "pluck", "filter", "filter_indexed", "take", "skip", "take_while", "take_while_indexed", "skip_while",
               "distinct", "distinct_until_changed", "pairwise", "start_with", "default_if_empty", "ignore_elements", "take_last",
               "skip_last", "take_last_buffer", "element_at", "element_at_or_default", "find", "find_index", "materialize", "dematerialize"}


def model_request(case):
    if case.get("mode") == "feedback":
        return case if case["name"] in FB_MODELLED else None
    return case


# ----------------------------------------------------------------------------------------- oracle
def conforming(inp):
    """(times of elements, element values, end, end time) of the conforming prefix"""
    xs, ts = [], []
    for t, n in inp:
        if n[0] == "N":
            xs.append(n[1])
            ts.append(t)
        else:
            return ts, xs, n, t
    return ts, xs, None, None


class _Stop(Exception):
    def __init__(self, out):
        self.out = out


def _truth(v):
    return bool(v)


def py_ref(case, xs_enc, end):
    """The Python list computation of the property text: notifications for elements `xs_enc` (encoded) ending with
    `end` (None = not ended yet, ["C"], ["E", name])."""
    name = case["name"]
    if name == "chain":
        cur, cend = xs_enc, end
        for st in case["stages"]:
            notifs = py_ref(st, cur, cend)
            if notifs is None:
                return None
            cur = [n[1] for n in notifs if n[0] == "N"]
            cend = notifs[-1] if notifs and notifs[-1][0] in ("C", "E") else None
        return [["N", x] for x in cur] + ([cend] if cend is not None else [])
    xs = [dec(x) for x in xs_enc]
    endl = [end] if end is not None else []
    fn = lambda k: FnTab.from_json(case[k]) if case.get(k) is not None else None  # noqa
    N = lambda vs: [["N", _val(v)] for v in vs]  # noqa

    def guarded(body):
        """run a list computation whose callbacks may raise: the elements produced so far, then the error"""
        out = []
        try:
            for y in body():
                out.append(y)
        except InjectedError as e:
            return N(out) + [["E", e.name]]
        except _Stop:
            return N(out) + [["C"]]
        except (TypeError, KeyError, IndexError) as e:
            return N(out) + [["E", type(e).__name__]]
        return N(out) + endl

    if name == "map":
        f = fn("f")
        return guarded(lambda: ((f(x) if f else x) for x in xs))
    if name == "map_indexed":
        f = fn("f")
        return guarded(lambda: ((f(x, i) if f else x) for i, x in enumerate(xs)))
    if name == "starmap":
        f = fn("f")
        return guarded(lambda: ((f(*x) if f else x) for x in xs)) if f else N(xs) + endl
    if name == "pluck":
        k = dec(case["key"])
        return guarded(lambda: (x[k] for x in xs))
    if name == "filter":
        p = fn("p")
        return guarded(lambda: (x for x in xs if p(x)))
    if name == "filter_indexed":
        p = fn("p")
        return guarded(lambda: (x for i, x in enumerate(xs) if p is None or p(x, i)))
    if name in ("take", "skip", "element_at", "element_at_or_default") and case["n"] < 0:
        return None
    if name == "take":
        n = case["n"]
        return N(xs[:n]) + ([["C"]] if len(xs) >= n else endl)
    if name == "skip":
        return N(xs[case["n"]:]) + endl
    if name in ("take_while", "take_while_indexed"):
        p = fn("p")
        idx = name.endswith("indexed")

        def body():
            for i, x in enumerate(xs):
                if p(x, i) if idx else p(x):
                    yield x
                else:
                    if case["inclusive"]:
                        yield x
                    raise _Stop(None)
        return guarded(body)
    if name in ("skip_while", "skip_while_indexed"):
        p = fn("p")
        idx = name.endswith("indexed")

        def body():
            it = iter(enumerate(xs))
            for i, x in it:
                if not (p(x, i) if idx else p(x)):
                    yield x
                    break
            for i, x in it:
                yield x
        return guarded(body)
    if name == "distinct":
        key, cmp = fn("key"), fn("cmp")

        def body():
            seen = []
            for x in xs:
                k = key(x) if key else x
                if not any((cmp(a, k) if cmp else a == k) for a in seen):
                    seen.append(k)
                    yield x
        return guarded(body)
    if name == "distinct_until_changed":
        key, cmp = fn("key"), fn("cmp")

        def body():
            has, cur = False, None
            for x in xs:
                k = key(x) if key else x
                if not has or not (cmp(cur, k) if cmp else cur == k):
                    has, cur = True, k
                    yield x
        return guarded(body)
    if name == "pairwise":
        return N(list(zip(xs, xs[1:]))) + endl
    if name == "start_with":
        return N([dec(a) for a in case["args"]] + xs) + endl
    if name == "default_if_empty":
        return N(xs if xs or end != ["C"] else [dec(case["dflt"])]) + endl
    if name == "ignore_elements":
        return endl
    if name == "take_last":
        n = max(case["n"], 0)
        return (N(xs[max(len(xs) - n, 0):]) + endl) if end == ["C"] else endl
    if name in ("skip_last", "skip_last_asis"):
        n = max(case["n"], 0)
        return N(xs[:max(len(xs) - n, 0)]) + endl
    if name == "take_last_buffer":
        n = max(case["n"], 0)
        return (N([xs[max(len(xs) - n, 0):]]) + endl) if end == ["C"] else endl
    if name in ("element_at", "element_at_or_default"):
        i = case["n"]
        if i < len(xs):
            return N([xs[i]]) + [["C"]]
        if end == ["C"]:
            return (N([dec(case["dflt"])]) + [["C"]]) if name == "element_at_or_default" else [["E", AOOR]]
        return endl
    if name in ("find", "find_index"):
        p = fn("p")

        def body():
            for i, x in enumerate(xs):
                if p(x, i):
                    yield (i if name == "find_index" else x)
                    raise _Stop(None)
            if end == ["C"]:
                yield (-1 if name == "find_index" else None)
        return guarded(body)
    if name == "materialize":
        tail = []
        if end == ["C"]:
            tail = [["N", {"t": [".C"]}], ["C"]]
        elif end is not None:
            tail = [["N", {"t": [".E", end[1]]}], ["C"]]
        return [["N", {"t": [".N", x]}] for x in xs_enc] + tail
    if name == "dematerialize":
        out = []
        for x in xs_enc:
            t = x["t"]
            if t[0] == ".N":
                out.append(["N", t[1]])
            else:
                return out + [["C"] if t[0] == ".C" else ["E", t[1]]]
        return out + endl
    if name == "materialize_dematerialize":
        return [["N", x] for x in xs_enc] + endl
    raise ValueError(name)


def expected_timed(case):
    """Every output at the time of the input that determines it: the list computation on each prefix of the
    conforming input; what is new for prefix k+1 belongs to the time of input k."""
    ts, xs, end, tend = conforming(case["input"])
    if py_ref(case, [], None) is None:
        return {"ctor": AOOR}
    steps = [(case.get("tsub", TSUB), [], None)]
    for k in range(len(xs)):
        steps.append((ts[k], xs[: k + 1], None))
    if end is not None:
        steps.append((tend, xs, end))
    out, prev = [], []
    for t, pxs, pend in steps:
        cur = py_ref(case, pxs, pend)
        if cur[: len(prev)] != prev:
            return {"nonmonotone": [prev, cur]}
        out += [[t, n] for n in cur[len(prev):]]
        prev = cur
        if cur and cur[-1][0] in ("C", "E"):
            break
    return {"out": out}


def cut(timed):
    out = []
    for t, n in timed:
        out.append([t, n])
        if n[0] in ("C", "E"):
            break
    return out


def expected_untimed(case):
    ts, xs, end, tend = conforming(case["input"])
    if py_ref(case, [], None) is None:
        return {"ctor": AOOR}
    return {"fb": py_ref(case, xs, end)}


def cut_untimed(ns):
    out = []
    for n in ns:
        out.append(n)
        if n[0] in ("C", "E"):
            break
    return out


def oracle_feedback(case, out):
    exp = expected_untimed(case)
    if "ctor" in exp or "ctor" in out:
        return None if exp == out else f"constructor: expected {exp}, got {out}"
    if cut_untimed(out["fb"]) != out["fb"]:
        return f"subscriber saw notifications after a terminal: {out['fb']}"
    if fw.key(out["fb"]) != fw.key(exp["fb"]):
        return f"{case['name']} over a re-entrant (feedback) source: expected {exp['fb']}, got {out['fb']}"
    if out["esc"]:
        return f"exception escaped to the emitter: {out['esc']}"
    return None


def stage_inputs(case):
    """encoded elements reaching each stage (list reference), for the conforming input"""
    ts, xs, end, tend = conforming(case["input"])
    stages = case["stages"] if case["name"] == "chain" else [case]
    ins, cur, cend = [], xs, end
    for st in stages:
        ins.append(cur)
        notifs = py_ref(st, cur, cend)
        if notifs is None:
            return None
        cur = [n[1] for n in notifs if n[0] == "N"]
        cend = notifs[-1] if notifs and notifs[-1][0] in ("C", "E") else None
    return ins


def oracle_calls(case, out):
    """every callback of a stage is applied to the elements of THAT stage's input, in order (a prefix of them: the stage
    may stop calling it once it has terminated) — never to an element an earlier stage removed or did not produce"""
    if not isinstance(out, dict) or "calls" not in out:
        return None
    ins = stage_inputs(case)
    if ins is None:
        return None
    for st, k, calls in out["calls"]:
        seen = [(c["t"][0] if isinstance(c, dict) and "t" in c and len(c["t"]) == 2 and isinstance(c["t"][1], int)
                 and not isinstance(c["t"][1], bool) and _indexed(case, st) else c) for c in calls]
        want = ins[st][: len(seen)]
        if fw.key(seen) != fw.key(want):
            return (f"stage {st} callback '{k}' was applied to {seen}, but the elements reaching that stage are {ins[st]} "
                    f"(it must see a prefix of them, in order)")
    return None


def _indexed(case, st):
    name = (case["stages"][st] if case["name"] == "chain" else case)["name"]
    return name in ("map_indexed", "filter_indexed", "take_while_indexed", "skip_while_indexed", "find", "find_index")


def oracle(case, out):
    v = oracle_main(case, out)
    return v or oracle_calls(case, out)


def oracle_main(case, out):
    if case.get("mode") == "feedback":
        return oracle_feedback(case, out)
    exp = expected_timed(case)
    if "nonmonotone" in exp:
        return f"reference not prefix-monotone (harness bug): {exp}"
    if "ctor" in exp or "ctor" in out:
        return None if exp == out else f"constructor: expected {exp}, got {out}"
    got = cut(out["out"])
    if case["mode"] == "sub" and got != out["out"]:
        return f"subscriber saw notifications after a terminal: {out['out']}"
    if fw.key(got) != fw.key(exp["out"]):
        return f"{case['name']}: expected {exp['out']}, got {got}"
    if out["esc"]:
        return f"exception escaped to the emitter: {out['esc']}"
    return None


def nontrivial(case, out):
    if "ctor" in out:
        return True
    if case.get("mode") == "feedback":
        return len(out["fb"]) > 1
    ts, xs, end, tend = conforming(case["input"])
    conf = [["N", x] for x in xs] + ([end] if end else [])
    return [n for t, n in out["out"]] != conf or len(conf) != len(case["input"])


def bucket(case, out):
    yield "op:" + case["name"]
    if case["name"] == "chain":
        yield "chain:" + "|".join(st["name"] for st in case["stages"])
    yield "mode:" + case["mode"]
    ts, xs, end, tend = conforming(case["input"])
    yield "end:" + (end[0] if end else "open")
    yield "len:" + (str(len(xs)) if len(xs) < 4 else "4+")
    if len(xs) + (1 if end else 0) != len(case["input"]):
        yield "nonconforming-input"
    if "ctor" in out:
        yield "ctor-raises"
    elif "fb" in out:
        yield "feedback:" + case["name"]
    else:
        if any(n[0] == "E" and n[1].startswith(("cb", "map", "key", "star")) for t, n in out["out"]):
            yield "callback-raised"
        if out["out"] and out["out"][-1][1][0] == "C" and (end is None or out["out"][-1][0] != tend):
            yield "early-completion"


def shrink(case):
    inp = case["input"]
    for i in range(len(inp)):
        c = dict(case)
        c["input"] = inp[:i] + inp[i + 1:]
        yield c
    if case.get("mode") == "raw":
        c = dict(case)
        c["mode"] = "sub"
        yield c
    if isinstance(case.get("n"), int) and case["n"] > 0:
        c = dict(case)
        c["n"] = case["n"] - 1
        yield c


LEVEL_TEXT = ("Lean theorems (unbounded, by induction): for every raw notification list (conforming or not), every user callback "
              "(arbitrary, raising anywhere) and with or without lagging disposal, what the subscriber sees of map, map_indexed, starmap/pluck "
              "(as map instances), filter(+indexed), take, skip, take_while(+inclusive,+indexed), skip_while(+indexed), distinct, "
              "distinct_until_changed, pairwise, start_with, default_if_empty, ignore_elements, take_last, skip_last (fixed), take_last_buffer, "
              "element_at(+_or_default), find, find_index, materialize, dematerialize equals the reference list computation on the conforming "
              "prefix with the same termination; *_pure theorems identify the reference loops with List.map/filter/takeWhile/dropWhile/"
              "eraseDupsBy/eraseRepsBy/find? for non-raising callbacks; timing: emitted_at + map_timed/skip_last_timed/take_last_timed; "
              "dematerialize_materialize; pipe_eq (composition through the real observer chain); re-entrant feedback sources: fb_eq_sequential "
              "(state committed before the downstream call => re-entrant run = sequential run of the arrival order, every input and nesting bound) "
              "and *_fb for every single-stage operator. Models mirror the handlers line by line and "
              "are tied to /repo by differential execution on generated hot timelines (timed output, subscriber-level and raw).")
LEVEL_NOTE = ("All listed operators have theorems; starmap/pluck are map instances over the modelled argument adapters of RxModel/OpsVal.lean "
              "(*values unpacking of tuples/lists/strings/dicts, x[key] on dicts/lists/tuples/strings incl. KeyError/IndexError/TypeError); only the "
              "FnTab n-ary key convention lives in the driver. distinct is modelled with the C09 fix for a raising comparer (on_error instead of escaping) and map_indexed with the C04 fix (per-subscription counter, one more AutoDetachObserver in front of the observer). "
              "skip_last is modelled with the proposed fix (fixes/C05_skip_last_none.patch): on the unfixed tree the check reports VIOLATION; "
              "the as-is behaviour is kept as skipLastAsIsOp with decide'd counter-example theorems skip_last_asis_*. take(0)/empty() and "
              "start_with (concat+from_iterable) are modelled as 'emitted while subscribing'; the scheduler hop inside concat is not modelled "
              "(inputs start after the subscription instant). Re-entrant runs (RxModel/OpsFb.lean: handlers split at their downstream calls) are "
              "modelled and proved for the single-stage operators; compositions (map_indexed, skip_while_indexed, materialize|dematerialize, slice "
              "pipelines of 2+ stages) stay oracle-only in feedback mode; terminals are pushed from the top level (a terminal fed back from "
              "inside on_next is outside the property's quantifier); a state write AFTER a downstream call is not expressible in HOutR (no code "
              "in the catalogue does that).")

"""Shared instruments of the Comb family (C10-C13): logged cold / hot / synchronous sources on TestScheduler, the global
event log, and the comparison of the real run with the Lean trace machine (DESIGN.md §4 L2).

One real run yields one global log, in real order (including same-instant order):
    ["sub", sid, t] ["unsub", sid, t] ["ev", sid, notif, t] ["out", notif, t] ["tick", t] ["dispose", t]
The "ev"/"tick"/"dispose" entries are the tagged input events replayed through the Lean machine; the entries between two
events are the effects of the earlier one (emitted output, subscribe, unsubscribe), compared in order and with times.
"""
import fw
from fw import InjectedError, enc, err_name

import functools
import json as _json

SUBSCRIBE_AT = 200
END = 2000
FALSY = [None, 0, False, "", (), 1, "a", 0.0]


# --------------------------------------------------------------------------------------------- values with unusual equality
class _Special:
    """an element whose == is not to be trusted; it is identified by the (source, index) tag it travels with, never by =="""
    def __init__(self, spec):
        self.spec = spec

    def __hash__(self):
        return id(self)

    def __repr__(self):
        return "special:" + _json.dumps(self.spec)


class EqTrue(_Special):        # like unittest.mock.ANY
    def __eq__(self, other):
        return True

    __hash__ = _Special.__hash__


class EqFalse(_Special):       # not even equal to itself
    def __eq__(self, other):
        return False

    __hash__ = _Special.__hash__


class EqRaises(_Special):      # e.g. an array-like with element-wise ==
    def __eq__(self, other):
        raise InjectedError("eq")

    __hash__ = _Special.__hash__


SPECIAL_KINDS = [".eq_true", ".eq_false", ".eq_raises", "nan"]
_SPECIAL_CLASSES = {".eq_true": EqTrue, ".eq_false": EqFalse, ".eq_raises": EqRaises}


def decode_value(j):
    if isinstance(j, dict) and "t" in j:
        if len(j["t"]) == 3 and j["t"][0] in _SPECIAL_CLASSES:
            return _SPECIAL_CLASSES[j["t"][0]](j)      # the element IS the special object; it carries its (source, index) tag
        return tuple(decode_value(x) for x in j["t"])
    if isinstance(j, list):
        return [decode_value(x) for x in j]
    return fw.dec(j)


def enc2(v):
    if isinstance(v, _Special):
        return v.spec
    if isinstance(v, tuple):
        return {"t": [enc2(x) for x in v]}
    if isinstance(v, list):
        return [enc2(x) for x in v]
    return enc(v)


# --------------------------------------------------------------------------------------------- user callables of every form
CALLABLE_FORMS = ["def", "lambda", "partial", "method", "object"]


def as_callable(fn, form):
    """the same function as a plain def, a lambda, a functools.partial, a bound method, an object with __call__"""
    if form == "lambda":
        return lambda *a: fn(*a)
    if form == "partial":
        return functools.partial(lambda _tag, *a: fn(*a), "tag")
    if form == "method":
        class Holder:
            def call(self, *a):
                return fn(*a)

        return Holder().call
    if form == "object":
        class Callable:
            def __call__(self, *a):
                return fn(*a)

        return Callable()

    def plain(*a):
        return fn(*a)

    return plain


# --------------------------------------------------------------------------------------------- the world
class World:
    def __init__(self):
        from reactivex.testing import TestScheduler

        world = self

        class LogScheduler(TestScheduler):
            # the operators' own zero-delay hops (`scheduler.schedule(action)`) are logged when they RUN
            def schedule(self, action, state=None):
                qn = getattr(action, "__qualname__", "")
                if qn.endswith("subscribe.<locals>.action") and any(
                    p in qn for p in ("concat_with_iterable_", "catch_with_iterable_", "on_error_resume_next_")
                ):
                    def logged(sched, st=None, _a=action):
                        world.log.append(["tick", int(self.clock)])
                        return _a(sched, st)

                    return super().schedule(logged, state)
                return super().schedule(action, state)

        from reactivex.scheduler import ImmediateScheduler

        class LogImmediate(ImmediateScheduler):
            # a scheduler that runs zero-delay work INLINE (re-entrantly): the operators' hops are logged when they run
            def schedule(self, action, state=None):
                qn = getattr(action, "__qualname__", "")
                if qn.endswith("subscribe.<locals>.action") and any(
                    p in qn for p in ("concat_with_iterable_", "catch_with_iterable_", "on_error_resume_next_")
                ):
                    def logged(sched, st=None, _a=action):
                        world.log.append(["tick", world.now()])
                        return _a(sched, st)

                    return super().schedule(logged, state)
                return super().schedule(action, state)

        self.sched = LogScheduler()
        self.imm = LogImmediate()
        self.log = []

    def now(self):
        return int(self.sched.clock)


def make_src(world, sid, spec):
    """spec: {"mode": "cold"|"hot"|"sync", "msgs": [[t, "N", v] | [t, "E", name] | [t, "C"]], "rude": bool}
    cold: times relative to the subscription; hot: absolute; sync: delivered inside subscribe (times ignored)."""
    from reactivex import Observable
    from reactivex.disposable import CompositeDisposable, Disposable

    mode = spec["mode"]
    if mode == "timer":
        return make_timer_src(world, sid, spec)
    msgs = spec["msgs"]
    rude = bool(spec.get("rude"))

    sub_ids = spec.get("sub_ids")       # the SAME observable object listed / delivered several times: id of its k-th subscription
    resub = bool(spec.get("resub"))      # the j-th subscription of this observable is source id j (repeat / retry / while_do)
    per_sub = spec.get("per_sub")        # cold only: a different timeline for each successive subscription

    class Src(Observable):
        def __init__(self):
            super().__init__()
            self.sid = sid
            self.observers = []
            self.nsub = 0
            if mode == "hot":
                for m in msgs:
                    world.sched.schedule_absolute(m[0], self._hot_action(m))

        def _hot_action(self, m):
            def act(*_):
                for o, my in self.observers[:]:
                    self._deliver(o, m, my)

            return act

        def push(self, m):
            """deliver one more notification NOW (possibly re-entrantly, from inside a subscriber's callback): what
            `subject.on_next(...)` called by a consumer does"""
            for o, my in self.observers[:]:
                self._deliver(o, m, my)

        def _deliver(self, o, m, my):
            if m[1] == "N":
                world.log.append(["ev", my, ["N", m[2]], world.now()])
                o.on_next(decode_value(m[2]))
            elif m[1] == "E":
                world.log.append(["ev", my, ["E", m[2]], world.now()])
                o.on_error(InjectedError(m[2]))
            else:
                world.log.append(["ev", my, ["C"], world.now()])
                o.on_completed()

        def _subscribe_core(self, observer, scheduler=None):
            my = (sid + self.nsub) if resub else (sub_ids[min(self.nsub, len(sub_ids) - 1)] if sub_ids else sid)
            mine = msgs if per_sub is None else per_sub[min(self.nsub, len(per_sub) - 1)]
            self.nsub += 1
            world.log.append(["sub", my, world.now()])
            closed = [False]
            if mode == "hot":
                entry = (observer, my)
                self.observers.append(entry)

                def d():
                    if not closed[0]:
                        closed[0] = True
                        if not rude:
                            self.observers.remove(entry)
                        world.log.append(["unsub", my, world.now()])

                return Disposable(d)
            if mode == "sync":
                for m in mine:
                    self._deliver(observer, m, my)

                def d():
                    if not closed[0]:
                        closed[0] = True
                        world.log.append(["unsub", my, world.now()])

                return Disposable(d)
            comp = CompositeDisposable()
            for m in mine:
                comp.add(world.sched.schedule_relative(m[0], (lambda mm: lambda *_: self._deliver(observer, mm, my))(m)))

            def d():
                if not closed[0]:
                    closed[0] = True
                    world.log.append(["unsub", my, world.now()])
                    comp.dispose()

            return Disposable(d)

    src = Src()
    if not hasattr(world, "srcs"):
        world.srcs = {}
    world.srcs[sid] = src
    return src


def build_sources(world, specs, base=0, order=None):
    """one observable per position; a spec with "same_as": j is THE SAME OBJECT as position j (listed twice): its k-th subscription
    (in the operator's subscription order `order`) logs the id of the position it was subscribed for"""
    n = len(specs)
    order = list(order) if order is not None else list(range(n))
    objs = [None] * n
    for j, sp in enumerate(specs):
        if "same_as" in sp:
            continue
        grp = [j] + [i for i, s2 in enumerate(specs) if s2.get("same_as") == j]
        if len(grp) > 1:
            grp.sort(key=order.index)
            sp = dict(sp, sub_ids=[base + g for g in grp])
        objs[j] = make_src(world, base + j, sp)
    for i, sp in enumerate(specs):
        if "same_as" in sp:
            objs[i] = objs[sp["same_as"]]
    return objs


def add_duplicate(rng, specs, p=0.12):
    """with probability p list one of the (cold / hot) sources a second time"""
    n = len(specs)
    if n < 2 or rng.random() >= p:
        return
    j = rng.randrange(0, n - 1)
    i = rng.randrange(j + 1, n)
    if specs[j].get("mode") in ("cold", "hot") and "same_as" not in specs[j] and not specs[j].get("resub"):
        specs[i] = dict(specs[j], same_as=j)


_ITER_CTX = {"world": None, "ids": {}}


def _install_from_tap():
    """flat_map turns a mapper result that is a plain ITERABLE into an observable with `from_` inside `_flatmap.py`: tap that call
    (once per process) so that the resulting inner is a logged source; the iterable is recognised by identity"""
    import reactivex.operators._flatmap as fm

    if getattr(fm.from_, "_verif_tap", False):
        return
    orig = fm.from_

    def tapped(iterable, scheduler=None):
        w = _ITER_CTX["world"]
        sid = _ITER_CTX["ids"].get(id(iterable))
        if w is None or sid is None:
            return orig(iterable, scheduler)
        return make_tap(w, sid, orig(iterable, scheduler))

    tapped._verif_tap = True
    fm.from_ = tapped


def make_iterable(world, sid, spec):
    """{"mode": "iter", "kind": "list"|"tuple"|"gen"|"iter", "vals": [...], "fail_after": k|None}: what a flat_map mapper may return
    instead of an observable. "gen": a generator that raises after k elements; "iter": an iterator that logs every pull."""
    vals = [decode_value(v) for v in spec["vals"]]
    k = spec.get("fail_after")
    kind = spec["kind"]
    if kind == "list":
        obj = list(vals)
    elif kind == "tuple":
        obj = tuple(vals)
    elif kind == "gen":
        def gen():
            for j, v in enumerate(vals):
                if k is not None and j == k:
                    raise InjectedError(f"g{sid}")
                world.log.append(["pull", sid, j, world.now()])
                yield v
            if k is not None and k >= len(vals):
                raise InjectedError(f"g{sid}")

        obj = gen()
    else:
        class LoggingIter:
            def __init__(self):
                self.j = 0

            def __iter__(self):
                return self

            def __next__(self):
                j = self.j
                if k is not None and j == min(k, len(vals)):
                    raise InjectedError(f"g{sid}")
                if j >= len(vals):
                    raise StopIteration
                self.j += 1
                world.log.append(["pull", sid, j, world.now()])
                return vals[j]

        obj = LoggingIter()
    _ITER_CTX["world"] = world
    _ITER_CTX["ids"][id(obj)] = sid
    world._keep = getattr(world, "_keep", []) + [obj]     # keep it alive: ids are recognised by identity
    return obj


def iter_expected(spec, sid, sub_t):
    vals = spec["vals"]
    k = spec.get("fail_after")
    n = len(vals) if k is None else min(k, len(vals))
    out = [[sub_t, ["N", vals[j]]] for j in range(n)]
    out.append([sub_t, ["C"] if k is None else ["E", f"g{sid}"]])
    return out


def iter_delivery_failure(inners, log):
    """an inner given as a lazy iterable delivers exactly its elements up to its failure, in order, and is pulled only after it was
    subscribed (never inside the mapper call)"""
    for key, spec in inners.items():
        if spec.get("mode") != "iter":
            continue
        sid = int(key)
        arrived = [p for p, e in enumerate(log) if e[0] == "ev" and e[1] == 0 and e[2] == ["N", sid]]
        subs = [p for p, e in enumerate(log) if e[0] == "sub" and e[1] == sid]
        pulls = [p for p, e in enumerate(log) if e[0] == "pull" and e[1] == sid]
        if pulls and (not subs or pulls[0] < subs[0]):
            return f"the iterable returned for inner {sid} was pulled before it was subscribed (inside the mapper call): it must be consumed lazily"
        if subs:
            s_t = log[subs[0]][2]
            got = [[e[3], e[2]] for e in log if e[0] == "ev" and e[1] == sid]
            exp = iter_expected(spec, sid, s_t)
            uns = [e[2] for e in log if e[0] == "unsub" and e[1] == sid]
            ended_same_instant = bool(uns) and uns[0] == s_t and got != exp
            if got != exp[: len(got)] or (len(got) < len(exp) and not ended_same_instant and not any(
                    e[0] == "dispose" or (e[0] == "out" and e[1][0] != "N") for e in log[: subs[0] + 1])):
                # cut short only by the end of the whole sequence in that very instant
                ended = [p for p, e in enumerate(log) if e[0] == "dispose" or (e[0] == "out" and e[1][0] != "N")]
                if got != exp[: len(got)] or not ended:
                    return f"inner {sid} (iterable {spec['kind']}, fails after {spec.get('fail_after')}) delivered {got}, it owes {exp}"
    return None


def make_timer_src(world, sid, spec):
    """{"mode": "timer", "due": d, "period": p|None, "count": m}: rx.timer WITHOUT an explicit scheduler - it runs on whatever
    scheduler reaches it through subscribe(scheduler=...) - behind a logging tap.  Emits (sid, i, 1) for i < m, then completes."""
    import reactivex as rx
    from reactivex import operators as ops

    if spec.get("period") is None:
        t = rx.timer(spec["due"])
    else:
        t = rx.timer(spec["due"], spec["period"]).pipe(ops.take(spec["count"]))
    return make_tap(world, sid, t.pipe(ops.map(lambda i: (sid, i, 1))))


def timer_expected(spec, sub_t):
    """the notifications a timer source delivers to a subscription made at sub_t: [[t, notif]...]"""
    sid = spec["sid"]
    if spec.get("period") is None:
        t = sub_t + spec["due"]
        return [[t, ["N", enc((sid, 0, 1))]], [t, ["C"]]]
    out = []
    for i in range(spec["count"]):
        out.append([sub_t + spec["due"] + i * spec["period"], ["N", enc((sid, i, 1))]])
    out.append([out[-1][0], ["C"]])
    return out


def make_tap(world, sid, inner, value_id=None):
    """A logging pass-through around an observable the harness did not build (from_iterable inside start_with / rx.merge)."""
    from reactivex import Observable
    from reactivex.disposable import Disposable

    def subscribe(observer, scheduler=None):
        world.log.append(["sub", sid, world.now()])
        closed = [False]

        def on_next(v):
            world.log.append(["ev", sid, ["N", value_id(v) if value_id else enc2(v)], world.now()])
            observer.on_next(v)

        def on_error(e):
            world.log.append(["ev", sid, ["E", err_name(e)], world.now()])
            observer.on_error(e)

        def on_completed():
            world.log.append(["ev", sid, ["C"], world.now()])
            observer.on_completed()

        inner_d = inner.subscribe(on_next, on_error, on_completed, scheduler=scheduler)

        def d():
            if not closed[0]:
                closed[0] = True
                world.log.append(["unsub", sid, world.now()])
                inner_d.dispose()

        return Disposable(d)

    return Observable(subscribe)


def run_second_subscriber(make_world_and_build, second):
    """Two subscribers on ONE observable instance: A subscribes at 200 and is disposed at second["dispose1"], B subscribes at
    second["sub2"] (before or after that).  Returns B's timed output and, for comparison, the output of a single subscriber at
    the same instant on a FRESH instance of the same case (and A's output next to A alone): the two must not influence each other."""
    def outputs_of(with_first, with_second):
        world, build = make_world_and_build()
        sched = world.sched
        holder, outs = {}, {"a": [], "b": []}
        sched.schedule_absolute(100, lambda *_: holder.__setitem__("obs", build()))

        def sub(tag):
            out = outs[tag]

            def go(*_):
                holder[tag] = holder["obs"].subscribe(
                    lambda v: out.append([world.now(), ["N", enc2(v)]]),
                    lambda e: out.append([world.now(), ["E", err_name(e)]]),
                    lambda: out.append([world.now(), ["C"]]),
                    scheduler=sched)
            return go

        if with_first:
            sched.schedule_absolute(SUBSCRIBE_AT, sub("a"))
            sched.schedule_absolute(max(second["dispose1"], SUBSCRIBE_AT + 1), lambda *_: holder["a"].dispose())
        if with_second:
            sched.schedule_absolute(max(second["sub2"], SUBSCRIBE_AT + 1), sub("b"))
        sched.schedule_absolute(END, lambda *_: sched.stop())
        try:
            sched.start()
        except Exception as ex:  # an observation (reported for both subscribers), not a harness failure
            for t in outs:
                outs[t].append([world.now(), ["X", "escaped:" + type(ex).__name__]])
        for t in ("a", "b"):
            try:
                if t in holder:
                    holder[t].dispose()
            except Exception:
                pass
        return {t: [o for o in outs[t] if o[0] <= END] for t in outs}

    both = outputs_of(True, True)
    return {"outA": both["a"], "outB": both["b"], "freshA": outputs_of(True, False)["a"], "fresh": outputs_of(False, True)["b"]}


def second_failure(case, r, what):
    if r["outB"] != r["fresh"]:
        return (f"a second subscriber (at {case['second']['sub2']}; the first one lives from 200 to {case['second']['dispose1']}) of the same "
                f"observable got {r['outB']}, alone on a fresh instance it gets {r['fresh']}: {what}")
    if r["outA"] != r["freshA"]:
        return (f"the first subscriber (200..{case['second']['dispose1']}) got {r['outA']} while a second one subscribed at "
                f"{case['second']['sub2']}; alone on a fresh instance it gets {r['freshA']}: {what}")
    return None


def gen_feedback_case(rng, op):
    """Re-entrant switch / merge: an inner that emits synchronously inside its own subscribe; the consumer reacts to one of its
    elements by pushing the NEXT inner into the (hot) outer - the new inner arrives while the old one is still inside subscribe and
    cannot be disposed yet; the old inner then goes on (stale) and completes; the outer completes before or after the latest inner."""
    t1 = SUBSCRIBE_AT + 5 * rng.randint(1, 4)
    n_sync = rng.randint(1, 3)
    sync_msgs = [[0, "N", enc((1, j, rng.choice(FALSY)))] for j in range(n_sync)]
    r = rng.random()
    if r < 0.75:
        sync_msgs.append([0, "C"])
    elif r < 0.85:
        sync_msgs.append([0, "E", "e1"])
    inners = {"1": {"mode": "sync", "msgs": sync_msgs}}
    feedback = [{"on": [1, rng.randrange(n_sync)], "push": 2}]
    if rng.random() < 0.3:
        # a second synchronous inner that triggers a third
        m = rng.randint(1, 2)
        msgs2 = [[0, "N", enc((2, j, rng.choice(FALSY)))] for j in range(m)] + ([[0, "C"]] if rng.random() < 0.8 else [])
        inners["2"] = {"mode": "sync", "msgs": msgs2}
        feedback.append({"on": [2, rng.randrange(m)], "push": 3})
        last = 3
    else:
        last = 2
    inners[str(last)] = gen_src(rng, last, allow_sync=False, p_rude=0.0, span=30, p_complete=0.8, p_error=0.1)
    outer_msgs = [[t1, "N", 1]]
    r = rng.random()
    if r < 0.75:
        outer_msgs.append([t1 + 5 * rng.randint(0, 8), "C"])     # often BEFORE the latest inner completes
    elif r < 0.85:
        outer_msgs.append([t1 + 5 * rng.randint(0, 8), "E", "e0"])
    return {"op": op, "outer": {"mode": "hot", "msgs": outer_msgs}, "inners": inners, "feedback": feedback, "dispose": None}


def gen_second(rng):
    return {"dispose1": SUBSCRIBE_AT + 5 * rng.randint(1, 10), "sub2": SUBSCRIBE_AT + 5 * rng.randint(1, 14)}


def run_world(world, build, dispose=None, cut=None, inline=False, react=None):
    """build() -> observable (called at time 100); subscribed at 200; dispose = None | [t, mode] (mode 0: queued before
    the subscription, 1: queued right after it, 2: queued one tick before t); cut = None | m: the
    subscriber disposes from inside its m-th on_next (what `take(m)` does to its upstream); inline: subscribe with an
    ImmediateScheduler (zero-delay hops of the operator run re-entrantly) instead of the TestScheduler; returns the log."""
    sched, log = world.sched, world.log
    holder = {}

    def do_create(*_):
        holder["obs"] = build()

    def do_dispose(*_):
        log.append(["dispose", world.now()])
        holder["d"].dispose()

    seen = [0]

    def on_next(v):
        log.append(["out", ["N", enc2(v)], world.now()])
        if react is not None:
            react(enc2(v))     # the consumer reacts to an element (e.g. pushes the next request into the outer subject)
        seen[0] += 1
        if cut is not None and seen[0] == cut:
            do_dispose()

    def do_subscribe(*_):
        holder["d"] = holder["obs"].subscribe(
            on_next,
            lambda e: log.append(["out", ["E", err_name(e)], world.now()]),
            lambda: log.append(["out", ["C"], world.now()]),
            scheduler=world.imm if inline else sched,
        )
        if dispose is not None and int(dispose[1]) == 1:
            sched.schedule_absolute(max(dispose[0], SUBSCRIBE_AT), do_dispose)

    sched.schedule_absolute(100, do_create)
    sched.schedule_absolute(SUBSCRIBE_AT, do_subscribe)
    if dispose is not None and int(dispose[1]) == 0:
        sched.schedule_absolute(max(dispose[0], SUBSCRIBE_AT + 1), do_dispose)
    if dispose is not None and int(dispose[1]) == 2:
        # enqueued one tick earlier: runs after everything that was already queued for that instant, but before
        # whatever the notifications of that instant schedule themselves (the operators' own zero-delay hops)
        td = max(dispose[0], SUBSCRIBE_AT + 1)
        sched.schedule_absolute(td - 1, lambda *_: sched.schedule_absolute(td, do_dispose))
    sched.schedule_absolute(END, lambda *_: sched.stop())
    try:
        sched.start()
    except Exception as ex:  # an exception escaping from the operator into the scheduler is an observation, not a harness failure
        log.append(["out", ["X", "escaped:" + type(ex).__name__], world.now()])
    n = len(log)
    try:
        if "d" in holder:
            holder["d"].dispose()   # cancel whatever is still pending (e.g. wall-clock timers of a broken scheduler hand-over)
    except Exception:
        pass
    del log[n:]
    return log


# --------------------------------------------------------------------------------------------- log -> segments
def split_log(log, sync_ids=()):
    """-> {"events": [[t, ev]...], "init": [eff...], "segs": [[eff...] per event], "sync_unsubs": [[sid, t]...]}
    eff = ["e", notif, t] | ["s", sid, t] | ["u", sid, t]; ev = ["s", sid, notif] | ["t"] | ["d"]."""
    events, segs, init, sync_unsubs = [], [], [], []
    cur = init
    for e in log:
        if e[0] == "ev":
            events.append([e[3], ["s", e[1], e[2]]])
            cur = []
            segs.append(cur)
        elif e[0] == "tick":
            events.append([e[1], ["t"]])
            cur = []
            segs.append(cur)
        elif e[0] == "dispose":
            events.append([e[1], ["d"]])
            cur = []
            segs.append(cur)
        elif e[0] == "out":
            cur.append(["e", e[1], e[2]])
        elif e[0] == "sub":
            cur.append(["s", e[1], e[2]])
        elif e[0] == "unsub":
            if e[1] in sync_ids:
                sync_unsubs.append([e[1], e[2]])
            else:
                cur.append(["u", e[1], e[2]])
    return {"events": events, "init": init, "segs": segs, "sync_unsubs": sorted(sync_unsubs)}


def canon_real(split):
    return {"init": split["init"], "segs": split["segs"], "sync_unsubs": split["sync_unsubs"]}


def canon_model_resp(split_events, resp, sync_ids=(), t0=SUBSCRIBE_AT):
    """attach the event times to the model's per-event effects"""
    if isinstance(resp, dict) and "error" in resp:
        return resp
    sync_unsubs = []

    def conv(effs, t):
        out = []
        for e in effs:
            if e[0] == "u" and e[1] in sync_ids:
                sync_unsubs.append([e[1], t])
            else:
                out.append([e[0], e[1], t])
        return out

    init = conv(resp["init"], t0)
    segs = [conv(effs, ev[0]) for ev, effs in zip(split_events, resp["steps"])]
    return {"init": init, "segs": segs, "sync_unsubs": sorted(sync_unsubs)}


def outputs(split):
    """timed downstream notifications [[t, notif]...] of a real run"""
    out = []
    for seg in [split["init"]] + split["segs"]:
        for e in seg:
            if e[0] == "e":
                out.append([e[2], e[1]])
    return out


def intervals(log):
    """sid -> [[sub_t, unsub_t|None]...]"""
    res = {}
    for e in log:
        if e[0] == "sub":
            res.setdefault(e[1], []).append([e[2], None])
        elif e[0] == "unsub":
            for iv in res.get(e[1], []):
                if iv[1] is None:
                    iv[1] = e[2]
                    break
    return res


def grammar_ok(out):
    """next* (error|completed)?"""
    for i, (_, n) in enumerate(out):
        if n[0] == "X":
            return False          # an exception escaped from the operator
        if n[0] != "N" and i != len(out) - 1:
            return False
    return True


# --------------------------------------------------------------------------------------------- generators
def gen_timeline(rng, sid, maxn=4, span=40, base=0, p_complete=0.55, p_error=0.2, grid=5, specials=0.0):
    """messages with times on a coarse grid so that simultaneous events across sources are frequent"""
    n = rng.choice([0, 0, 1, 1, 2, 2, 3, maxn])
    ts = sorted(base + grid * rng.randint(0 if base else 0, span // grid) for _ in range(n))
    def value(j):
        if rng.random() < specials:
            k = rng.choice(SPECIAL_KINDS)
            return {"t": [sid, j, {"f": "nan"}]} if k == "nan" else {"t": [k, sid, j]}
        return {"t": [sid, j, enc(rng.choice(FALSY))]}

    msgs = [[t, "N", value(j)] for j, t in enumerate(ts)]
    last = ts[-1] if ts else base
    r = rng.random()
    tt = last + grid * rng.randint(0, 3)
    if r < p_complete:
        msgs.append([tt, "C"])
    elif r < p_complete + p_error:
        msgs.append([tt, "E", f"e{sid}"])
    return msgs


def gen_timer(rng, sid):
    periodic = rng.random() < 0.6
    return {"mode": "timer", "sid": sid, "due": 5 * rng.randint(1, 5), "period": 5 * rng.randint(1, 2) if periodic else None,
            "count": rng.randint(1, 3) if periodic else 1}


def timer_delivery_failure(specs, log):
    """specs: iterable of source specs (timer ones carry their sid). A timer source takes its scheduler from the subscription: every
    notification it owes to a subscription (made at s, closed at u) with time < u must have been delivered, at that virtual time."""
    for spec in specs:
        if spec.get("mode") != "timer":
            continue
        sid = spec["sid"]
        cur = None
        for e in log + [["unsub", sid, END + 1]]:
            if e[0] == "sub" and e[1] == sid:
                cur = {"s": e[2], "got": []}
            elif e[0] == "ev" and e[1] == sid and cur is not None:
                cur["got"].append([e[3], e[2]])
            elif e[0] == "unsub" and e[1] == sid and cur is not None:
                exp = timer_expected(spec, cur["s"])
                due = [x for x in exp if x[0] < min(e[2], END)]
                if cur["got"] != exp[: len(cur["got"])] or len(cur["got"]) < len(due):
                    return (f"source {sid} (timer, scheduler taken from the subscription) subscribed at {cur['s']} delivered {cur['got']} "
                            f"until {e[2]}, but owes {due} in virtual time")
                cur = None
    return None


def gen_src(rng, sid, allow_sync=False, p_rude=0.15, p_timer=0.0, **kw):
    if p_timer and rng.random() < p_timer:
        return gen_timer(rng, sid)
    r = rng.random()
    if allow_sync and r < 0.2:
        msgs = gen_timeline(rng, sid, **kw)
        return {"mode": "sync", "msgs": msgs}
    if r < 0.55:
        return {"mode": "cold", "msgs": gen_timeline(rng, sid, **kw)}
    spec = {"mode": "hot", "msgs": gen_timeline(rng, sid, base=SUBSCRIBE_AT - 10, **kw)}
    if rng.random() < p_rude:
        spec["rude"] = True
    return spec


def gen_dispose(rng, p=0.25):
    if rng.random() >= p:
        return None
    return [SUBSCRIBE_AT + 5 * rng.randint(0, 14), rng.choice([0, 1, 2, 2])]


# --------------------------------------------------------------------------------------------- higher-order runs (C11, C12)
def gen_ho_case(rng, op, max_inner=4, allow_sync=True, p_rude=0.15, p_timer=0.0, p_same=0.2):
    """outer source 0 whose elements name the inner sources 1..m; optional mapper table with raising entries."""
    m = rng.choice([0, 1, 2, 2, 3, 3, max_inner])
    ids = list(range(1, m + 1))
    if rng.random() < 0.3:
        rng.shuffle(ids)
    hot = rng.random() < 0.35
    base = SUBSCRIBE_AT - 5 if hot else 0
    ts = sorted(base + 5 * rng.randint(1 if hot else 0, 8) for _ in ids)
    msgs = [[t, "N", i] for t, i in zip(ts, ids)]
    last = ts[-1] if ts else base + 5
    r = rng.random()
    if r < 0.6:
        msgs.append([last + 5 * rng.randint(0, 8), "C"])
    elif r < 0.75:
        msgs.append([last + 5 * rng.randint(0, 8), "E", "e0"])
    outer = {"mode": "hot" if hot else "cold", "msgs": msgs}
    if op != "rx_merge" and rng.random() < 0.15:
        # an outer that emits (and usually completes) synchronously inside its own subscribe: a finished ReplaySubject, from_iterable
        # on the immediate scheduler, of(...)
        outer = {"mode": "sync", "msgs": [[0] + m_[1:] for m_ in msgs]}
    inners = {}
    for i in range(1, m + 1):
        inners[str(i)] = gen_src(rng, i, allow_sync=allow_sync, p_rude=p_rude, p_timer=p_timer, span=30, p_complete=0.7, p_error=0.12)
    # the very SAME inner observable object delivered again (while its earlier subscription may still be running)
    if m >= 2 and rng.random() < p_same:
        arrival = [m_[2] for m_ in msgs if m_[1] == "N"]
        a, b = arrival[rng.randrange(0, m - 1)], None
        later = arrival[arrival.index(a) + 1:]
        b = rng.choice(later)
        if inners[str(a)]["mode"] in ("cold", "hot"):
            inners[str(b)] = {"mode": inners[str(a)]["mode"], "same_as": a, "msgs": []}
    case = {"op": op, "outer": outer, "inners": inners, "dispose": gen_dispose(rng, 0.2), "callable_form": rng.choice(CALLABLE_FORMS)}
    if op in ("flat_map", "flat_map_indexed", "concat_map", "switch_map", "switch_map_indexed", "flat_map_latest") and ids and rng.random() < 0.25:
        case["raise_on"] = rng.choice(ids)   # the mapper raises on this outer element
    return case


def sync_ids_of(case):
    if case.get("outer", {}).get("mode") == "sync":
        # while the outer delivers from inside its own subscribe the operator's subscribe has not returned: whatever a terminal
        # closes is closed only when it returns - every unsubscribe of such a case is compared by (source, time) only
        return tuple([0] + [int(k) for k in case["inners"]])
    return tuple(int(k) for k, s in case["inners"].items() if s["mode"] == "sync")


def outer_delivers_after_end(case, log):
    """a synchronous outer cannot be stopped while it is inside its own subscribe: it may go on delivering after the result ended
    (the operator then still subscribes - and at once closes - the inners it is handed). The flat trace machine closes a source at
    the terminal; such runs are oracle-only."""
    if case.get("outer", {}).get("mode") != "sync":
        return False
    ended = False
    for e in log:
        if e[0] == "dispose" or (e[0] == "out" and e[1][0] != "N"):
            ended = True
        elif ended and e[0] == "ev" and e[1] == 0:
            return True
    return False


def same_group(case, k):
    """ids that are subscriptions of the same observable object as inner k"""
    s_ = case["inners"].get(str(k), {})
    base = s_.get("same_as", k)
    return {base} | {int(k2) for k2, s2 in case["inners"].items() if s2.get("same_as") == base}


def shrink_ho(case):
    import copy
    for k in list(case["inners"]):
        s_ = case["inners"][k]
        for j in range(len(s_.get("msgs", []))):
            c = copy.deepcopy(case)
            del c["inners"][k]["msgs"][j]
            yield c
    for j, m_ in enumerate(case["outer"]["msgs"]):
        c = copy.deepcopy(case)
        del c["outer"]["msgs"][j]
        if m_[1] == "N":
            gone = {m_[2]} | {int(k2) for k2, s2 in c["inners"].items() if s2.get("same_as") == m_[2]}
            c["outer"]["msgs"] = [x for x in c["outer"]["msgs"] if not (x[1] == "N" and x[2] in gone)]
            for g in gone:
                c["inners"].pop(str(g), None)
        yield c
    if case.get("dispose") is not None:
        c = copy.deepcopy(case)
        c["dispose"] = None
        yield c


_MEMO = {}


def memo(fn):
    """model_request and canon_model both need the event list of the real run of a case: run it once per process"""
    def wrapped(case):
        k = (fn.__module__, fn.__name__, fw.key(case))
        if k not in _MEMO:
            if len(_MEMO) > 50000:
                _MEMO.clear()
            _MEMO[k] = fn(case)
        import copy
        return copy.deepcopy(_MEMO[k])
    return wrapped


def run_ho(case):
    return _run_ho(case)


def _run_ho_impl(case):
    """-> log of the real run; the outer events are already translated to what the operator after `map` sees."""
    w, build, idx_seen = ho_world_and_build(case)
    raise_on = case.get("raise_on")
    react = None
    if case.get("feedback"):
        fired = set()

        def react(venc):
            for i, fb in enumerate(case["feedback"]):
                if i not in fired and isinstance(venc, dict) and venc.get("t", [None, None])[:2] == fb["on"]:
                    fired.add(i)
                    w.srcs[0].push([0, "N", fb["push"]])

    log = run_world(w, build, case.get("dispose"), react=react)
    # what the operator behind `map(mapper)` receives from source 0
    for e in log:
        if e[0] == "ev" and e[1] == 0 and e[2][0] == "N" and e[2][1] == raise_on:
            e[2] = ["E", "mapper"]
    return log, idx_seen


def ho_world_and_build(case):
    import reactivex as rx
    from reactivex import operators as ops

    w = World()
    op = case["op"]
    raise_on = case.get("raise_on")
    idx_seen = []

    def build():
        arrival = [m_[2] for m_ in case["outer"]["msgs"] if m_[1] == "N"]
        inners = {}
        for k, s_ in case["inners"].items():
            if s_.get("mode") == "iter":
                continue
            if "same_as" not in s_:
                same = [int(k2) for k2, s2 in case["inners"].items() if s2.get("same_as") == int(k)]
                if same:
                    ids_ = sorted([int(k)] + same, key=lambda i_: arrival.index(i_) if i_ in arrival else 10 ** 6)
                    s_ = dict(s_, sub_ids=ids_)
                inners[int(k)] = make_src(w, int(k), s_)
        for k, s_ in case["inners"].items():
            if "same_as" in s_:
                inners[int(k)] = inners[s_["same_as"]]      # the same object

        iter_specs = {int(k): s_ for k, s_ in case["inners"].items() if s_.get("mode") == "iter"}
        if iter_specs:
            _install_from_tap()
            _ITER_CTX["world"], _ITER_CTX["ids"] = w, {}

        def mapper(i):
            if i == raise_on:
                raise InjectedError("mapper")
            if i in iter_specs:
                return make_iterable(w, i, iter_specs[i])      # a plain iterable: flat_map wraps it with from_()
            return inners[i]

        def mapper_indexed(i, idx):
            idx_seen.append(idx)
            return mapper(i)

        form = case.get("callable_form", "def")
        mapper_, mapper_indexed_ = mapper, mapper_indexed
        mapper = as_callable(mapper_, form)
        mapper_indexed = as_callable(mapper_indexed_, form)

        if op == "rx_merge":
            # rx.merge(*sources) = from_iterable(sources).pipe(merge_all()): tap the internal from_iterable as source 0
            order = [m[2] for m in case["outer"]["msgs"] if m[1] == "N"]
            orig = rx.from_iterable
            pos = [0]

            def next_id(v):
                i = order[min(pos[0], len(order) - 1)]      # the k-th element of the internal from_iterable is the k-th listed source
                pos[0] += 1
                return i

            def tapped(it, scheduler=None):
                return make_tap(w, 0, orig(it, scheduler), value_id=next_id)

            rx.from_iterable = tapped
            try:
                return rx.merge(*[inners[i] for i in order])
            finally:
                rx.from_iterable = orig
        outer = make_src(w, 0, case["outer"])
        if op == "merge_all":
            return outer.pipe(ops.map(mapper), ops.merge_all())
        if op == "merge":
            return outer.pipe(ops.map(mapper), ops.merge(max_concurrent=case["maxc"]))
        if op == "flat_map":
            return outer.pipe(ops.flat_map(mapper))
        if op == "flat_map_indexed":
            return outer.pipe(ops.flat_map_indexed(mapper_indexed))
        if op == "concat_map":
            return outer.pipe(ops.concat_map(mapper))
        if op == "switch_latest":
            return outer.pipe(ops.map(mapper), ops.switch_latest())
        if op == "switch_map":
            return outer.pipe(ops.switch_map(mapper))
        if op == "switch_map_indexed":
            return outer.pipe(ops.switch_map_indexed(mapper_indexed))
        if op == "flat_map_latest":
            return outer.pipe(ops.flat_map_latest(mapper))
        raise ValueError(op)

    return w, build, idx_seen


_run_ho = memo(_run_ho_impl)


def ho_model_op(case):
    op = case["op"]
    if op in ("merge_all", "flat_map", "flat_map_indexed", "rx_merge"):
        return {"op": "merge_all"}
    if op == "merge":
        return {"op": "merge", "maxc": case["maxc"]}
    if op == "concat_map":
        return {"op": "merge", "maxc": 1}
    return {"op": "switch"}


def accepted(log):
    """notifications delivered to an open subscription that has not yet delivered a terminal: [(pos, sid, notif, t)]"""
    live, term, acc = set(), set(), []
    for p, e in enumerate(log):
        if e[0] == "sub":
            live.add(e[1])
            term.discard(e[1])
        elif e[0] == "unsub":
            live.discard(e[1])
        elif e[0] == "ev" and e[1] in live and e[1] not in term:
            acc.append((p, e[1], e[2], e[3]))
            if e[2][0] != "N":
                term.add(e[1])
    return acc


def out_entries(log):
    return [(p, e[1], e[2]) for p, e in enumerate(log) if e[0] == "out"]


def sid_of_value(v):
    """values are (sid, j, payload) tuples"""
    return v["t"][0]

"""C37 — source factories emit their specified sequences (DESIGN.md §5 C37)."""
import sys

import fw
from fw import FnTab, InjectedError, enc, err_name

LEAN_TARGETS = ["RxProofs.C37"]
DRIVER = "drv_pure"
DRIVER_ROOT = "Pure"
PROCS = 1   # impl is cheap (about 1 ms per case); forking a pool costs more than it saves
THEOREMS = [
    "C37.pyLen_spec",
    "C37.range_eq_pyrange",
    "C37.pyRange_mem",
    "C37.range_step_zero",
    "C37.from_iterable_emits_items",
    "C37.return_empty_never_throw",
    "C37.generate_eq_loop",
    "C37.gwrt_delays",
    "C37.gwrt_zero_delay_ok",
    "C37.timer_emits_zero_at_d",
    "C37.repeat_value_n",
    "C37.repeat_value_forever",
    "C37.sim_eq_chain_quiet",
    "C37.sim_eq_chainSpin",
    "C37.sim_values_prefix_of_chain",
    "C37.factories_wellformed",
    "C37.gwrt_asis_zero_delay_counter",
]
RULE = ("each factory subscribed at a generated virtual time on a TestScheduler and disposed at a generated time: integer ranges "
        "(1/2/3-argument forms, negative steps, empty, step 0, lengths around the scheduler's 100-item spin limit), iterables of every "
        "type (list, tuple, str, range, deque, set, frozenset, dict and its views, generator, iterator, classes with only __iter__ / with "
        "__len__ and __iter__) at lengths 0, 1, 2, n against list(iter(x)) (incl. falsy items and an iterator that raises), return_value/empty/never/throw, generate and generate_with_relative_time with "
        "condition/iterate/time-mapper tables over a small state space (raising entries; delays 0, ints, integral floats, timedeltas, "
        "timedelta(0)), timer(d) with d <= 0 and > 0 in int/float/timedelta form, repeat_value(v, n) with n in {None,-1,-3,0..}; the "
        "recorded (time, notification) list is compared with the model's virtual-time run. non-trivial = at least two notifications "
        "or an error/escape, and not the never/empty constants")
ASSUMPTIONS = [
    "virtual time (TestScheduler); delays are whole seconds (ints, integral floats, whole-second timedeltas)",
    "the TestScheduler's queue discipline and spin counter are modelled in Pure.Sources.Sim (not imported from the C28 model)",
    "user callbacks are finite tables over the generated state space, evaluated identically on both sides",
]

FALSY = [None, 0, 0.0, False, "", (), [], {}]
VALS = FALSY + [1, "a", 2, (1, 2), -1]


ITFORMS = ["list", "tuple", "str", "range", "deque", "set", "frozenset", "dict", "dict_keys", "dict_values", "dict_items", "gen", "iter",
           "cls_iter", "cls_len_iter", "set", "frozenset", "dict", "dict_keys"]
HASHABLE = [None, 0, 1, 2, 3, 7, -1, 10, (1, 2), (), 42]       # deterministic hashes (no str: hash randomisation), pairwise unequal


def _gen_iterable(rng, form, size):
    """{"items": what list(iter(x)) yields (encoded), + what is needed to rebuild x deterministically}"""
    if form == "str":
        return {"items": [rng.choice("abc01 ") for _ in range(size)]}
    if form == "range":
        a = rng.randrange(-3, 4)
        return {"items": list(range(a, a + size))}
    if form in ("set", "frozenset"):
        items = list(set(rng.sample(HASHABLE, min(size, len(HASHABLE)))))
        if list(set(items)) != items:          # iteration order must be reproducible from the listed order
            items = list(range(len(items)))
        return {"items": [enc(x) for x in items]}
    if form in ("dict", "dict_keys"):
        keys = rng.sample(HASHABLE, min(size, len(HASHABLE)))
        if size == 1 and rng.random() < 0.4:
            keys = [0]
        return {"items": [enc(k) for k in keys], "aux": [enc(rng.choice(["zero", None, 5, "v"])) for _ in keys]}
    if form == "dict_values":
        return {"items": [enc(rng.choice(VALS)) for _ in range(size)]}
    if form == "dict_items":
        keys = rng.sample(HASHABLE, min(size, len(HASHABLE)))
        return {"items": [enc((k, rng.choice(["zero", None, 5]))) for k in keys]}
    return {"items": [enc(rng.choice(VALS)) for _ in range(size)]}


class _OnlyIter:
    def __init__(self, items):
        self._items = items

    def __iter__(self):
        return iter(self._items)


class _LenIter(_OnlyIter):
    def __len__(self):
        return len(self._items)


def _container(form, items, aux):
    from collections import deque
    if form == "tuple":
        return tuple(items)
    if form == "str":
        return "".join(items)
    if form == "range":
        return range(items[0], items[0] + len(items)) if items else range(0)
    if form == "deque":
        return deque(items)
    if form == "set":
        return set(items)
    if form == "frozenset":
        return frozenset(items)
    if form == "dict":
        return dict(zip(items, aux))
    if form == "dict_keys":
        return dict(zip(items, aux)).keys()
    if form == "dict_values":
        return dict(enumerate(items)).values()
    if form == "dict_items":
        return dict(items).items()
    if form == "gen":
        return (x for x in items)
    if form == "iter":
        return iter(items)
    if form == "cls_iter":
        return _OnlyIter(items)
    if form == "cls_len_iter":
        return _LenIter(items)
    return list(items)


def _times(rng):
    sub = rng.choice([200, 200, 0, 1, 150])
    disp = rng.choice([10000, 10000, 10000, sub + 1, sub + 3, sub + 7, sub, sub - 1 if sub > 0 else 0, 100000])
    return sub, disp


def gen_fn_int(rng, states, results, p_raise=0.08, dflt=None):
    tab = []
    for s in states:
        if rng.random() < p_raise:
            tab.append([enc(s), {"raise": f"cb{rng.randrange(3)}"}])
        else:
            tab.append([enc(s), enc(rng.choice(results))])
    return {"tab": tab, "dflt": enc(dflt if dflt is not None else results[0])}


def gen_generate(rng, timed):
    n = rng.choice([3, 4, 6, 8])
    states = list(range(n)) + [None]
    init = rng.choice([0, 0, 1, None])
    # iterate: mostly a walk with an occasional jump; condition: true up to some bound, truthy/falsy variants
    iter_tab = []
    for s in states:
        if rng.random() < 0.07:
            iter_tab.append([enc(s), {"raise": "it"}])
        else:
            nxt = rng.choice([(s + 1) if isinstance(s, int) else 0] * 4 + [rng.choice(states)])
            if isinstance(nxt, int) and nxt >= n:
                nxt = rng.choice([None, n - 1, 0])
            iter_tab.append([enc(s), enc(nxt)])
    bound = rng.randrange(0, n + 1)
    cond_tab = []
    for s in states:
        if rng.random() < 0.05:
            cond_tab.append([enc(s), {"raise": "cond"}])
        else:
            truth = isinstance(s, int) and s < bound
            if rng.random() < 0.1:
                truth = not truth
            cond_tab.append([enc(s), enc(rng.choice([True, 1, "y", [0]]) if truth else rng.choice([False, 0, "", None, []]))])
    case = {"op": "src", "kind": "gwrt" if timed else "generate", "init": enc(init),
            "cond": {"tab": cond_tab, "dflt": False}, "iter": {"tab": iter_tab, "dflt": None}}
    if timed:
        tm_tab = []
        zero_heavy = rng.random() < 0.35
        for s in states:
            if rng.random() < 0.05:
                tm_tab.append([enc(s), {"raise": "tm"}])
            else:
                d = rng.choice([0, 0, 1, 2] if zero_heavy else [1, 2, 3, 5, 10, 1, 2, 0])
                form = rng.choice(["int", "int", "float", "td"])
                tm_tab.append([enc(s), d if form == "int" else ({"f": repr(float(d))} if form == "float" else {"t": [".td", d]})])
        case["tm"] = {"tab": tm_tab, "dflt": 1}
    return case


def _cases(rng, tier):
    n = fw.tier_scale(tier, 1, 10)
    # ---- range
    for _ in range(400 * n):
        form = rng.choice([1, 2, 3, 3, 3])
        start = rng.randrange(-12, 13)
        stop = None if form == 1 else rng.randrange(-15, 16)
        step = None if form < 3 else rng.choice([1, 2, 3, -1, -2, -3, 5, -7, 0, 1, -1])
        if form == 3 and rng.random() < 0.1:
            stop = None  # range(start, maxsize, step): only sensible for negative steps (empty) or with an early dispose
            step = rng.choice([-1, -2, -5, 1])
        sub, disp = _times(rng)
        if stop is None and form == 3 and step is not None and step > 0:
            disp = sub + rng.choice([1, 2, 3])
        yield {"op": "src", "kind": "range", "start": start, "stop": stop, "step": step, "sub": sub, "disp": disp}
    for _ in range(25 * n):  # around the spin limit of VirtualTimeScheduler.start (100 same-time items)
        sub, disp = _times(rng)
        yield {"op": "src", "kind": "range", "start": 0, "stop": rng.choice([95, 99, 100, 101, 102, 150, 205, 320]), "step": 1,
               "sub": sub, "disp": rng.choice([10000, sub + 1, sub + 2])}
    # ---- iterables: every iterable TYPE at lengths 0, 1, 2, n; the reference is list(iter(x))
    for _ in range(450 * n):
        sub, disp = _times(rng)
        kind = rng.choice(["of", "from_iterable", "from_iterable", "from_iterable", "from_iterable"])
        size = rng.choice([0, 1, 1, 1, 1, 2, 2, 3, 5, 8])
        if kind == "of":
            yield {"op": "src", "kind": kind, "items": [enc(rng.choice(VALS)) for _ in range(size)], "fails": None, "itform": "tuple",
                   "sub": sub, "disp": disp}
            continue
        form = rng.choice(ITFORMS)
        c = {"op": "src", "kind": kind, "fails": None, "itform": form, "sub": sub, "disp": disp}
        c.update(_gen_iterable(rng, form, size))
        if form in ("list", "iter") and rng.random() < 0.25:
            c["fails"] = "iterboom"
        yield c
    # ---- constants
    for _ in range(120 * n):
        sub, disp = _times(rng)
        k = rng.choice(["return_value", "return_value", "empty", "never", "throw"])
        c = {"op": "src", "kind": k, "sub": sub, "disp": disp}
        if k == "return_value":
            c["value"] = enc(rng.choice(VALS))
        if k == "throw":
            c["err"] = rng.choice(["boom", "e2"])
            c["as_string"] = rng.random() < 0.3
        yield c
    # ---- generate / generate_with_relative_time
    for _ in range(350 * n):
        sub, disp = _times(rng)
        c = gen_generate(rng, timed=False)
        c.update(sub=sub, disp=disp)
        yield c
    for _ in range(500 * n):
        sub, disp = _times(rng)
        c = gen_generate(rng, timed=True)
        c.update(sub=sub, disp=rng.choice([disp, sub + 4, sub + 11, 10000]))
        yield c
    # ---- timer
    for _ in range(120 * n):
        sub, disp = _times(rng)
        yield {"op": "src", "kind": "timer", "d": rng.choice([0, 0, -1, -5, 1, 2, 3, 7, 50]), "dform": rng.choice(["int", "float", "td"]),
               "sub": sub, "disp": rng.choice([disp, sub + 3, sub + 7, 10000])}
    # ---- repeat_value
    for _ in range(150 * n):
        sub, disp = _times(rng)
        count = rng.choice([None, -1, -3, 0, 1, 2, 3, 5, 10, 49, 50, 51, 60])
        if count in (None, -1):
            disp = sub + rng.choice([1, 2])
        yield {"op": "src", "kind": "repeat_value", "value": enc(rng.choice(VALS)), "count": count, "sub": sub, "disp": disp}


def cases(rng, tier):
    for c in _cases(rng, tier):
        exp = expected(c)
        if exp and exp[-1] is None and not (c["sub"] < c["disp"] <= c["sub"] + 12):
            c["disp"] = c["sub"] + rng.choice([1, 2, 3, 5])     # infinite sequence: must be cut by an effective dispose
        yield c


def model_request(case):
    return {k: v for k, v in case.items() if k not in ("itform", "dform", "as_string", "aux")}


# ----- real code ------------------------------------------------------------------------------
def _rel(d, form):
    from datetime import timedelta
    if form == "float":
        return float(d)
    if form == "td":
        return timedelta(seconds=d)
    return d


def _tm_result(v):
    from datetime import timedelta
    if isinstance(v, tuple) and len(v) == 2 and v[0] == ".td":
        return timedelta(seconds=v[1])
    return v


class _FailingIter:
    def __init__(self, items, err):
        self.items = list(items)
        self.err = err
        self.i = 0

    def __iter__(self):
        return self

    def __next__(self):
        if self.i < len(self.items):
            self.i += 1
            return self.items[self.i - 1]
        raise InjectedError(self.err)


def build(case):
    import reactivex as rx

    k = case["kind"]
    if k == "range":
        a = [case["start"]]
        if case["step"] is not None:
            a += [case["stop"], case["step"]]
        elif case["stop"] is not None:
            a += [case["stop"]]
        return rx.range(*a)
    if k in ("of", "from_iterable"):
        items = [fw.dec(x) for x in case["items"]]
        if k == "of":
            return rx.of(*items)
        if case.get("fails"):
            return rx.from_iterable(_FailingIter(items, case["fails"]))
        form = case.get("itform", "list")
        x = _container(form, items, [fw.dec(a) for a in case.get("aux", [])])
        if form not in ("gen", "iter"):          # the reference is list(iter(x)): the case must list exactly that
            ref = [enc(v) for v in iter(x)]
            if fw.key(ref) != fw.key(case["items"]):
                raise AssertionError(f"harness: list(iter(x)) = {ref} differs from the case's items {case['items']}")
        return rx.from_iterable(x)
    if k == "return_value":
        return rx.return_value(fw.dec(case["value"]))
    if k == "empty":
        return rx.empty()
    if k == "never":
        return rx.never()
    if k == "throw":
        return rx.throw(case["err"] if case.get("as_string") else InjectedError(case["err"]))
    if k in ("generate", "gwrt"):
        cond, it = FnTab.from_json(case["cond"]), FnTab.from_json(case["iter"])
        init = fw.dec(case["init"])
        if k == "generate":
            return rx.generate(init, cond, it)
        tm = FnTab.from_json(case["tm"])
        return rx.generate_with_relative_time(init, cond, it, lambda s: _tm_result(tm(s)))
    if k == "timer":
        return rx.timer(_rel(case["d"], case.get("dform", "int")))
    if k == "repeat_value":
        return rx.repeat_value(fw.dec(case["value"]), case["count"])
    raise ValueError(k)


BUDGET = 6000


def impl(case):
    from reactivex.testing import TestScheduler

    try:
        obs = build(case)
    except ValueError as e:
        return {"factory_error": type(e).__name__}
    sched = TestScheduler()
    holder = []
    msgs = []
    over = [False]

    def rec(n):
        t = sched.clock
        if float(t) != int(t):
            raise TypeError(f"non-integral virtual time {t!r}")
        msgs.append([int(t), n])
        if len(msgs) > BUDGET and not over[0]:    # never hang on a runaway producer: cut it and report
            over[0] = True
            if holder:
                holder[0].dispose()

    def on_error(e):
        if case["kind"] == "throw" and case.get("as_string") and type(e) is Exception:
            rec(["E", str(e)])     # throw("text") wraps the text in Exception(text)
        else:
            rec(["E", err_name(e)])

    sched.schedule_absolute(case["disp"], lambda s, st: holder[0].dispose() if holder else None)
    sched.schedule_absolute(case["sub"], lambda s, st: holder.append(
        obs.subscribe(lambda v: rec(["N", enc(v)]), on_error, lambda: rec(["C"]), scheduler=s)))
    escaped = None
    try:
        from reactivex.scheduler import VirtualTimeScheduler
        VirtualTimeScheduler.start(sched)   # not TestScheduler.start(): that one queues its own create/subscribe/dispose actions
    except InjectedError as e:
        escaped = e.name
    except Exception as e:  # noqa  an exception left the scheduler
        escaped = type(e).__name__
    if over[0]:
        return {"timeout": True}
    return {"msgs": msgs, "escaped": escaped, "pending": len(sched._queue)}


def _quiet(case, out):
    """no dispose cut and no scheduler spin involved: the producer's isolated chain must give the same recording"""
    if "msgs" not in out or out.get("escaped"):
        return False
    last = max([t for t, _ in out["msgs"]], default=case["sub"])
    return case["disp"] > last and case["disp"] > case["sub"] and len(out["msgs"]) < 40 and bool(out["msgs"]) and out["msgs"][-1][1][0] != "N"


def canon_impl(case, out):
    if "msgs" not in out:
        return out
    o = {"msgs": out["msgs"], "escaped": out["escaped"], "pending": out["pending"]}
    if _quiet(case, out):
        o["chain"] = out["msgs"]
    return o


def canon_model(case, resp):
    if "msgs" not in resp:
        return resp
    o = {"msgs": resp["msgs"], "escaped": resp["escaped"], "pending": resp["pending"]}
    if _quiet(case, resp):
        o["chain"] = resp["chain"]
    return o


# ----- oracle: the property text, computed with plain Python ----------------------------------
CUT = 2500


def expected(case):
    """(list of [relative time, notif]) the property text prescribes, or None if the factory must raise ValueError.
    Infinite sequences are cut at CUT notifications (marked by a trailing None)."""
    k = case["kind"]
    N = lambda v: ["N", enc(v)]
    if k == "range":
        if case["step"] is not None:
            if case["step"] == 0:
                return None
            r = range(case["start"], sys.maxsize if case["stop"] is None else case["stop"], case["step"])
        elif case["stop"] is not None:
            r = range(case["start"], case["stop"])
        else:
            r = range(case["start"])
        out = []
        for i, x in enumerate(r):
            if i >= CUT:
                return out + [None]
            out.append([0, N(x)])
        return out + [[0, ["C"]]]
    if k in ("of", "from_iterable"):
        out = [[0, ["N", x]] for x in case["items"]]
        return out + [[0, ["E", case["fails"]] if case.get("fails") else ["C"]]]
    if k == "return_value":
        return [[0, ["N", case["value"]]], [0, ["C"]]]
    if k == "empty":
        return [[0, ["C"]]]
    if k == "never":
        return []
    if k == "throw":
        return [[0, ["E", case["err"]]]]
    if k == "timer":
        d = max(case["d"], 0)
        return [[d, ["N", 0]], [d, ["C"]]]
    if k == "repeat_value":
        c = case["count"]
        if c in (None, -1):
            return [[0, ["N", case["value"]]]] * CUT + [None]
        return [[0, ["N", case["value"]]]] * max(c, 0) + [[0, ["C"]]]
    # generate / gwrt: the equivalent while loop
    out = []
    t = 0
    s = fw.dec(case["init"])
    cond, it = FnTab.from_json(case["cond"]), FnTab.from_json(case["iter"])
    tm = FnTab.from_json(case["tm"]) if k == "gwrt" else None
    try:
        while cond(s):
            if k == "gwrt":
                d = _tm_result(tm(s))
                d = d.total_seconds() if hasattr(d, "total_seconds") else d
                t += max(int(d), 0)
            out.append([t, N(s)])
            if len(out) >= CUT:
                return out + [None]
            try:
                s = it(s)
            except InjectedError as e:
                return out + [[t, ["E", e.name]]]
    except InjectedError as e:
        return out + [[t, ["E", e.name]]]
    return out + [[t, ["C"]]]


def oracle(case, out):
    exp = expected(case)
    if exp is None:
        return None if out.get("factory_error") == "ValueError" else f"range with step 0 must raise ValueError, got {out}"
    if out.get("timeout"):
        return "the virtual-time run did not finish"
    if "msgs" not in out:
        return f"factory raised {out} but the property prescribes {exp[:5]}"
    if out["escaped"]:
        return f"exception {out['escaped']} escaped into the scheduler; recorded {out['msgs'][:6]}; prescribed {exp[:6]}"
    cut = exp and exp[-1] is None
    if cut:
        exp = exp[:-1]
    got = out["msgs"]
    sub, disp = case["sub"], case["disp"]
    # values and kinds, in order: a prefix (dispose may cut), complete when nothing cut it
    gn = [n for _, n in got]
    en = [n for _, n in exp]
    if fw.key(gn) != fw.key(en[:len(gn)]):
        return f"recorded {gn[:8]} is not a prefix of the prescribed {en[:8]}"
    spin_free = len(exp) < 45
    if disp <= sub:
        disp = float("inf")   # the dispose action ran before there was a subscription: nothing was disposed
    if spin_free:
        want = [[sub + t, n] for t, n in exp if sub + t < disp]
        if fw.key(want) != fw.key(got):
            return f"recorded {got[:8]}, prescribed (subscribed at {sub}, disposed at {disp}) {want[:8]}"
    else:
        # the scheduler's spin counter may push the clock forward: times are only checked to be monotone and >= prescribed
        ts = [t for t, _ in got]
        if ts != sorted(ts) or any(t < sub + e[0] for t, e in zip(ts, exp)):
            return f"times {ts[:8]} not monotone / earlier than prescribed"
        if disp >= 10000 and not cut and len(got) != len(exp):
            return f"sequence incomplete: {len(got)} of {len(exp)} notifications"
    return None


def classify(case, why):
    return None


def nontrivial(case, out):
    if case["kind"] in ("never", "empty"):
        return False
    if "msgs" not in out:
        return True
    return len(out["msgs"]) >= 2 or bool(out["escaped"]) or any(n[0] == "E" for _, n in out["msgs"])


def bucket(case, out):
    k = case["kind"]
    yield "kind:" + k
    if "factory_error" in out:
        yield "factory_error"
        return
    if out.get("timeout"):
        yield "timeout"
        return
    yield "len:" + ("0" if not out["msgs"] else "1-3" if len(out["msgs"]) <= 3 else "4-20" if len(out["msgs"]) <= 20 else ">20")
    last = out["msgs"][-1][1][0] if out["msgs"] else "-"
    yield "ends:" + last
    if out["escaped"]:
        yield "escaped"
    if _quiet(case, out):
        yield "quiet(chain compared)"
    if k == "range" and case.get("step") is not None and case["step"] < 0:
        yield "range:negative-step"
    if k == "from_iterable":
        yield "iterable:" + case.get("itform", "list") + ":len=" + (str(len(case["items"])) if len(case["items"]) <= 2 else "n")
    if k == "gwrt":
        if any(r == 0 or r == {"f": "0.0"} or r == {"t": [".td", 0]} for _, r in case["tm"]["tab"]):
            yield "gwrt:has-zero-delay"
        if any(isinstance(r, dict) and "t" in r for _, r in case["tm"]["tab"]):
            yield "gwrt:timedelta"
    if len(out["msgs"]) > 100:
        yield "spin"


def shrink(case):
    k = case["kind"]
    if k in ("generate", "gwrt"):
        for fld in ("cond", "iter", "tm"):
            if fld in case:
                for i in range(len(case[fld]["tab"])):
                    c = dict(case); c[fld] = dict(case[fld]); c[fld]["tab"] = case[fld]["tab"][:i] + case[fld]["tab"][i + 1:]; yield c
    if k in ("of", "from_iterable"):
        for i in range(len(case["items"])):
            c = dict(case); c["items"] = case["items"][:i] + case["items"][i + 1:]; yield c
    if case["disp"] != 10000:
        c = dict(case); c["disp"] = 10000; yield c
    if case["sub"] != 200:
        c = dict(case); c["sub"] = 200; yield c


LEVEL_TEXT = ("Lean theorems on the producers that mirror the factories action by action: range = list(range(...)) for every start/stop/step "
              "(incl. negative steps, empty, the closed form of len), from_iterable/of, return_value/empty/never/throw, generate = the equivalent "
              "while-loop (callbacks may raise at any point), generate_with_relative_time emits each state after the accumulated delays (zero included), "
              "timer(d) emits 0 at max(d,0), repeat_value(v,n) emits v n times — all unbounded (induction), plus: the virtual-time run equals the "
              "producer's own chain when nothing else is queued. Tied to the code by differential runs on TestScheduler (subscribe/dispose times, "
              "spin limit) against the compiled model and a plain-Python oracle.")
LEVEL_NOTE = ("generate_with_relative_time is modelled as repaired by fixes/C37_gwrt_zero_delay.patch (the pinned tree asserts on a falsy delay; "
              "counter-example theorem gwrt_asis_zero_delay_counter on the as-is model). sim_eq_chain_quiet proves that the scheduler simulation equals the "
              "chain for runs without a dispose cut and below the scheduler's 100-item spin limit; beyond that (dispose cut, spin limit) sim_eq_chainSpin gives the exact "
              "scheduler-aware chain and sim_values_prefix_of_chain shows the recorded notifications are a prefix of the chain's; the scheduler model itself is "
              "tied to the code by correspondence. Delays are whole seconds; timer with a period / absolute due time belongs to C35.")

"""C26 — container disposables dispose each held item exactly once (DESIGN.md §5 C26).

Classes: CompositeDisposable, SerialDisposable, SingleAssignmentDisposable, MultipleAssignmentDisposable.
The Lean model of SingleAssignmentDisposable is the FIXED class (fixes/C26_sad_lock_and_none.patch); against a tree
without the fix this check reports a VIOLATION (defect #5 of DESIGN.md §6) with a replayable history / schedule.
"""
import json

import fw
from sched import disp_oracle as do
from sched import disp_prop as dp

LEAN_TARGETS = ["RxProofs.C26", "RxProofs.C26Heap", "RxProofs.Lemmas.DispSadAsIs"]
DRIVER = "drv_disp"
DRIVER_ROOT = "Disp"
PROCS = 1  # histories take microseconds; a process pool costs more than it saves
THEOREMS = [
    "C26.composite_item_disposed_exactly_once",
    "C26.composite_never_disposed_while_held",
    "C26.composite_dispose_takes_effect",
    "C26.assign_item_disposed_exactly_once",
    "C26.serial_sad_never_drop",
    "C26.serial_mad_never_reject",
    "C26.assign_never_disposed_while_held",
    "C26.assign_dispose_takes_effect",
    "C26.sad_second_assignment_rejected",
    "C26.sad_set_when_assigned_raises",
    # nested containers under threads (Composite holding a Serial holding leaves)
    "C26.nested_leaf_disposed_exactly_once",
    "C26.nested_never_twice",
    # refinement: the heap model of C02/C03 restricted to one container is the class semantics
    "C26Heap.composite_refines_heap",
    "C26Heap.assign_refines_heap",
    "C26Heap.serial_refines_heap",
    "C26Heap.multi_refines_heap",
    "C26Heap.single_refines_heap",
    "C26Heap.refcount_refines_heap",
    "C26Heap.heapRel_flags",
    # documentation of the defect of the unfixed class (decide'd counter-examples on the as-written model)
    "Disp.SadAsIs.sad_falsy_leak",
    "Disp.SadAsIs.sad_falsy_second_assignment_accepted",
    "Disp.SadAsIs.sad_double_assign_race",
    "Disp.SadAsIs.sad_double_dispose_race",
]
RULE = ("(a) call histories of 0..14 (thorough 0..40) add/remove/clear/dispose/len/contains resp. set/get/dispose calls over 5 "
        "items (item 0 is a real empty CompositeDisposable, i.e. falsy), mostly fresh items with some re-use, run on the real "
        "class and on the Lean model, comparing per call result/exception, is_disposed, held items and every item's dispose "
        "count; non-trivial = >=2 different call kinds and >=1 item disposed. (b) thread scenarios (2-3 real threads, 1-2 "
        "calls each) with ALL schedules of <=2 (thorough <=3) preemptions enumerated; non-trivial = >=1 preemption")
ASSUMPTIONS = [
    "a `with self.lock:` block is atomic w.r.t. the other methods of the same object (RLock semantics); item.dispose() of an item terminates",
    "the SingleAssignmentDisposable under test is the fixed one (fixes/C26_sad_lock_and_none.patch applied to /repo)",
    "thread correspondence explores schedules at the granularity of visible operations (lock blocks, unlocked accesses of traced attributes, call-outs)",
]
TRUSTED_EXTRA = ["interleaving controller harness/sched/disp_ctl.py (instrumented RLock, traced attributes) - search/validation tool only"]
TECHNIQUE = "Lean 4 invariants of atomic-step thread systems (any number of threads, any schedule) + differential histories + enumerated real-thread schedules replayed in the model"

CLASSES = ["composite", "serial", "sad", "mad"]
NITEMS = 5


def gen_history(rng, tier, cls):
    n = rng.choice([0, 1, 2, 3, 4, 5, 6, 8, 10, 14] + ([20, 40] if tier == "thorough" else []))
    fresh = list(range(NITEMS))
    rng.shuffle(fresh)
    used = []

    def item():
        if fresh and (not used or rng.random() < 0.7):
            i = fresh.pop()
            used.append(i)
            return i
        return rng.choice(used)

    case = {"op": "history", "cls": cls, "items": NITEMS, "falsy": [0], "threads": [[]]}
    ops = case["threads"][0]
    if cls == "composite":
        case["init"] = [item() for _ in range(rng.choice([0, 0, 1, 2, 3]))]
        case["ctor"] = rng.choice(["args", "list"])
        for _ in range(n):
            k = rng.choice(["add"] * 4 + ["remove"] * 3 + ["clear", "dispose", "dispose", "len", "contains"])
            if k == "add":
                ops.append(["add", item()])
            elif k in ("remove", "contains"):
                ops.append([k, rng.choice(used) if used and rng.random() < 0.85 else rng.randrange(NITEMS)])
            else:
                ops.append([k])
    else:
        for _ in range(n):
            k = rng.choice(["set"] * 5 + ["dispose"] * 2 + ["get"])
            ops.append(["set", item()] if k == "set" else [k])
    return case


def cases(rng, tier):
    n = fw.tier_scale(tier, 700, 8000)
    for cls in CLASSES:
        for _ in range(n):
            yield gen_history(rng, tier, cls)
    for _ in range(fw.tier_scale(tier, 400, 4000)):
        ops = []
        nxt = 0
        for _ in range(rng.choice([0, 1, 2, 3, 4, 6, 8])):
            k = rng.choice(["setS"] * 4 + ["dispC", "dispC", "removeS", "dispS"])
            if k == "setS":
                ops.append(["setS", nxt % NITEMS])
                nxt += 1
            else:
                ops.append([k])
        yield {"op": "history", "cls": "nest", "items": NITEMS, "falsy": [0], "threads": [ops]}
    # the defect shapes of DESIGN §6 #5, always present
    yield {"op": "history", "cls": "sad", "items": 3, "falsy": [0], "threads": [[["dispose"], ["set", 0]]]}
    yield {"op": "history", "cls": "sad", "items": 3, "falsy": [0], "threads": [[["set", 0], ["set", 1], ["dispose"]]]}
    # the two races of the unfixed class as explicit schedules (oracle only): double dispose, double assignment
    yield {"op": "threads", "scenario": S("sad", [[["set", 1]], [["dispose"]]]), "plan": [1, 1, 1, 2, 2, 2]}
    yield {"op": "threads", "scenario": S("sad", [[["set", 1]], [["set", 2]], [["dispose"]]]), "plan": [1, 1, 2, 2, 2, 2, 1, 1]}


def model_request(case):
    return dp.history_request(case)


impl = dp.impl
canon_impl = dp.canon_history_impl
canon_model = dp.canon_history_model


def oracle(case, out):
    if case.get("op") == "threads":
        if out.get("error"):
            return f"execution failed: {out['error']}"
        if case["scenario"]["cls"] == "nest":
            return do.nest_threads(case["scenario"], out["trace"], out["final"])
        return do.c26_threads(case["scenario"], out["trace"], out["final"], observers=True)
    if case["cls"] == "nest":
        return do.nest_history(case, out)
    return do.c26_history(case, out)


def classify(case, why):
    return None  # no known finding: the SingleAssignmentDisposable defect is repaired by the fix patch


def nontrivial(case, out):
    if case.get("op") != "history":
        return True
    kinds = {op[0] for op in case["threads"][0]}
    if case["cls"] == "nest":
        return len(kinds) >= 2 and bool(out) and sum(out[-1][1]["cnt"]) >= 1
    return len(kinds) >= 2 and bool(out) and sum(out[-1][1]["cnt"]) >= 1


def bucket(case, out):
    if case.get("op") != "history":
        return
    cls = case["cls"]
    yield cls
    if cls == "nest":
        return
    ops = case["threads"][0]
    disposed = False
    for op, (res, obs) in zip(ops, out):
        if res == ["raise"]:
            yield f"{cls}:rejected"
        if op[0] in ("add", "set") and disposed:
            yield f"{cls}:{op[0]}-after-dispose"
        if op[0] == "set" and op[1] == 0:
            yield f"{cls}:set-falsy"
        if op[0] == "remove":
            yield f"{cls}:remove-{res[1]}"
        if op[0] == "dispose" and disposed:
            yield f"{cls}:dispose-twice"
        disposed = obs["is_disposed"]


shrink = dp.shrink_history


def search(rng, tier, disagreeing):
    """failing-input search around cases on which model and implementation disagree: the cases themselves and
    their one-call-shorter neighbours, judged by the property oracle on the real code"""
    for c in disagreeing[:40]:
        cand = [c] + (list(shrink(c))[:40] if c.get("op") == "history" else [])
        for c2 in cand:
            v = oracle(c2, impl(c2))
            if v:
                return fw.Failure("oracle", c2, v)
    return None


def S(cls, threads, setup=None, init=None, items=NITEMS, falsy=(0,)):
    sc = {"cls": cls, "items": items, "falsy": list(falsy), "threads": threads, "setup": setup or []}
    if cls == "composite":
        sc["init"] = init or []
    return sc


SCENARIOS = [
    S("composite", [[["add", 2]], [["dispose"]]], init=[0, 1]),
    S("composite", [[["remove", 0]], [["dispose"]]], init=[0]),
    S("composite", [[["clear"], ["add", 2]], [["dispose"]]], init=[0, 1]),
    S("composite", [[["add", 1], ["remove", 1]], [["dispose"]], [["remove", 0]]], init=[0]),
    S("composite", [[["dispose"]], [["dispose"]], [["add", 2]]], init=[0, 1]),
    S("composite", [[["remove", 0]], [["remove", 0]]], init=[0]),
    S("composite", [[["clear"]], [["remove", 1], ["len"]], [["add", 2], ["dispose"]]], init=[0, 1]),
    S("serial", [[["set", 0]], [["set", 1]], [["dispose"]]]),
    S("serial", [[["set", 2], ["set", 3]], [["dispose"]]], setup=[["set", 1]]),
    S("serial", [[["set", 0], ["dispose"]], [["set", 1], ["get"]]]),
    S("mad", [[["set", 0]], [["set", 1]], [["dispose"]]]),
    S("mad", [[["set", 2], ["set", 3]], [["dispose"], ["set", 4]]], setup=[["set", 1]]),
    S("sad", [[["set", 1]], [["dispose"]]]),
    S("sad", [[["set", 1]], [["set", 2]], [["dispose"]]]),
    S("sad", [[["set", 0]], [["dispose"]]]),
    S("sad", [[["set", 1]], [["dispose"]]], setup=[["set", 0]]),
    S("sad", [[["set", 1], ["set", 2]], [["dispose"], ["set", 3]]]),
    S("sad", [[["set", 1]], [["set", 2]]]),
]


NEST = [
    S("nest", [[["dispC"]], [["setS", 1]]], setup=[["setS", 0]]),
    S("nest", [[["dispC"]], [["setS", 0], ["setS", 1]], [["dispS"]]]),
    S("nest", [[["dispC"]], [["removeS"]], [["setS", 1]]], setup=[["setS", 0]]),
    S("nest", [[["dispC"]], [["dispC"]], [["setS", 1], ["setS", 2]]], setup=[["setS", 0]]),
    S("nest", [[["removeS"]], [["removeS"], ["setS", 1]], [["dispS"]]], setup=[["setS", 0]]),
]


def _oracle_threads(sc, tr, fin, observers=True):
    if sc["cls"] == "nest":
        return do.nest_threads(sc, tr, fin)
    return do.c26_threads(sc, tr, fin, observers=observers)


def gen_scenario(rng):
    cls = rng.choice(CLASSES)
    nt = rng.choice([2, 2, 3])
    nxt = [0]

    def item():
        nxt[0] += 1
        return (nxt[0] - 1) % NITEMS

    init = [item() for _ in range(rng.choice([0, 1, 2]))] if cls == "composite" else []
    threads = []
    for _ in range(nt):
        prog = []
        for _ in range(rng.choice([1, 1, 2])):
            if cls == "composite":
                k = rng.choice(["add", "add", "remove", "remove", "clear", "dispose", "dispose"])
                prog.append([k, item()] if k == "add" else ([k, rng.choice(init) if init and rng.random() < 0.7 else rng.randrange(NITEMS)] if k == "remove" else [k]))
            else:
                k = rng.choice(["set", "set", "set", "dispose", "dispose", "get"])
                prog.append(["set", item()] if k == "set" else [k])
        threads.append(prog)
    return S(cls, threads, init=init)


def extra(rng, tier):
    scs = SCENARIOS + NEST + [gen_scenario(rng) for _ in range(fw.tier_scale(tier, 8, 40))]
    parts = [("", dp.thread_check(scs, _oracle_threads, tier, accept=True, classify=classify))]
    if tier == "thorough":
        # line-granular exploration (sys.settrace, preemption also inside lock blocks): oracle only; observer
        # results are compared too: a read inside another thread's open lock block admits the value before or after it
        parts.append(("lines", dp.thread_check(SCENARIOS + NEST, lambda sc, tr, fin: _oracle_threads(sc, tr, fin, observers=True), tier,
                                              accept=False, lines=True, bound=2, budget_s=120)))
    return dp.merge_extra(parts)


LEVEL_TEXT = ("Lean theorems (no bound on threads, program lengths or schedules): for CompositeDisposable, SerialDisposable, "
              "MultipleAssignmentDisposable and the fixed SingleAssignmentDisposable, in every reachable state of the atomic-step "
              "thread system `dispose count + pending call-outs + copies held [+ documented drops] = hand-overs`, hence at quiescence "
              "every item handed over (before or after the container's disposal) is disposed exactly once or still held, never while "
              "held by a live container; a disposed container holds nothing; at most one assignment is ever stored in a "
              "SingleAssignmentDisposable and a second one raises. Tied to the code by differential call histories and by "
              "enumerated <=2/3-preemption schedules of 2-3 real threads whose event sequences are replayed in the model.")
LEVEL_TEXT += (" Also proved: a Composite holding a Serial holding leaves, disposed/removed/assigned from any number of threads, disposes "
               "every leaf exactly once (nested model Disp.nStep, also replayed against real nested objects); and C26Heap: on heaps "
               "leaves+container (and underlying+RefCount+dependents) the C02/C03 heap model Pipe.apply/settle yields exactly the "
               "flags and rejections of these class models run to completion (refinement, any history).")
LEVEL_NOTE = ("SingleAssignmentDisposable is modelled WITH fixes/C26_sad_lock_and_none.patch; the as-written class violates the "
              "property (decide'd counter-examples in RxProofs/Lemmas/DispSadAsIs.lean, replayed on the real class). Items are leaf "
              "disposables (a static falsy flag); nesting is modelled for Composite>Serial>leaf only (general nesting: C02's heap). Atomicity of lock blocks "
              "is assumed (validated by the controller), not proved.")

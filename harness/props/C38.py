"""C38 — marble diagrams mean what the documented syntax says (DESIGN.md §5 C38)."""
import fw
from fw import InjectedError, enc, err_name

LEAN_TARGETS = ["RxProofs.C38"]
DRIVER = "drv_pure"
DRIVER_ROOT = "Pure"
PROCS = 1   # impl is cheap (about 1 ms per case); forking a pool costs more than it saves
THEOREMS = [
    "C38.parse_render",
    "C38.parse_render_spaced",
    "C38.spec_position_is_index",
    "C38.stray_parens_skipped",
    "C38.parse_units",
    "C38.spec_accepts",
    "C38.parse_rejects_after_terminal",
    "C38.parse_no_raise_never_rejects",
    "C38.parse_times_sorted",
    "C38.cold_delivers_parsed",
    "C38.hot_delivers_parsed_after_subscription",
    "C38.hot_created_in_action",
    "C38.hot_loop_fixed_calls_all",
    "C38.tryNumber_digits",
    "C38.hot_loop_asis_skips_second_subscriber",
]
RULE = ("marble strings rendered from generated token lists (ticks, single- and multi-character values, numbers in int/float "
        "syntax, groups with empty/terminal/odd items, '|', '#', top-level commas) with spaces inserted at random positions, plus a "
        "malformed stream of raw strings over the alphabet (unbalanced parentheses, numeric look-alikes); integer timespans/shifts "
        "(negative included for parse; a third of the cases pass timespan/shift/duetime as float, timedelta or absolute datetime in quarter "
        "seconds incl. fractional, multi-day and negative shifts), lookups keyed by strings/ints/floats and given as several mapping kinds (dict, defaultdict, Counter, dict subclass with __missing__, "
        "MappingProxyType, UserDict; the caller's mapping must stay unchanged), from_marbles with the scheduler at subscribe level, at operator "
        "level, and at both (the operator-level one must win), raise_stopped on/off; real parse vs the Lean scanner, "
        "from_marbles/hot recordings on TestScheduler vs the model's delivery (hot() also called at non-zero clocks: after advance_to, from inside a "
        "scheduled action, on a HistoricalScheduler with an arbitrary start; due time as float, timedelta or absolute datetime), and the testing context marbles_testing(): exp / start(cold) / "
        "start(hot) with lookup and error arguments. non-trivial = the string has a group, a "
        "multi-character value or a space, and parses to at least two messages or to an error")
ASSUMPTIONS = [
    "characters are ASCII (Python's int()/float() also accept Unicode digits and strip Unicode whitespace; not modelled)",
    "timespans and shifts are integers in the model; the code's float / timedelta / datetime forms are exercised on multiples of a quarter second (exact in binary), which the model treats as integers in quarter-second units; other float timespans are not modelled",
    "float lexemes have at most 15 significant digits and |exponent| <= 20 (so that decimal equality coincides with equality of doubles for lookups)",
    "delivery is checked for timespan >= 0 (then parse output is sorted by time)",
]

ELEM_CHARS = "abcxyzAZ019._+eE!*"
NUMS = ["0", "1", "2", "12", "007", "+5", "1_000", "1__0", "_1", "1_", "1.5", "3.50", ".5", "5.", "1e3", "1E-2", "1e", "1e+", "1.e1",
        "inf", "Infinity", "nan", "NaN", "infx", "1.0", "2.0", "0.0", "+.5", "1_0.0_1", "1_.0", "1._0", "e5", ".", "+", "0x10", "1e0",
        "10", "1.50", "00", "1_0e1_0", "1e_1", "+1", "+inf", "4", "3"]
GROUP_ODD = ["-1", "-", "a-b", "#|", "(a", "|x", "#", "|", "", "-.5", "-inf", "1e-3", "--2", "-0", "-1_0"]
MSG_STOPPED = "Elements cannot be declared after a # or | symbol."
MSG_COMMA = "Comma is only allowed in group of elements."


def gen_elem(rng):
    r = rng.random()
    if r < 0.35:
        return rng.choice("abcxyz12345")
    if r < 0.7:
        return rng.choice(NUMS)
    return "".join(rng.choice(ELEM_CHARS) for _ in range(rng.randrange(1, 5)))


def gen_tokens(rng, n):
    toks = []
    for _ in range(n):
        r = rng.random()
        if r < 0.35:
            toks.append(["ticks", rng.choice([1, 1, 2, 3, 5])])
        elif r < 0.65:
            if toks and toks[-1][0] == "elem":
                toks.append(["ticks", 1])
            toks.append(["elem", gen_elem(rng)])
        elif r < 0.85:
            items = []
            for _ in range(rng.choice([1, 1, 2, 2, 3, 4])):
                q = rng.random()
                items.append(gen_elem(rng) if q < 0.7 else rng.choice(GROUP_ODD))
            toks.append(["group", items])
        elif r < 0.92:
            toks.append(["completed"])
        elif r < 0.97:
            toks.append(["error"])
        else:
            toks.append(["comma"])
    return toks


def render(toks):
    out = []
    for t in toks:
        if t[0] == "ticks":
            out.append("-" * t[1])
        elif t[0] == "elem":
            out.append(t[1])
        elif t[0] == "group":
            out.append("(" + ",".join(t[1]) + ")")
        elif t[0] == "completed":
            out.append("|")
        elif t[0] == "error":
            out.append("#")
        else:
            out.append(",")
    return "".join(out)


def add_spaces(rng, s):
    if rng.random() < 0.4:
        return s
    out = []
    for ch in s:
        if rng.random() < 0.15:
            out.append(" " * rng.choice([1, 1, 2]))
        out.append(ch)
    if rng.random() < 0.3:
        out.append(" ")
    return "".join(out)


def gen_string(rng):
    r = rng.random()
    if r < 0.8:
        n = rng.choice([0, 1, 2, 3, 5, 8, 12])
        toks = gen_tokens(rng, n)
        # mostly keep terminals last so that raise_stopped does not reject most strings
        if rng.random() < 0.6:
            toks = [t for t in toks if t[0] not in ("completed", "error", "comma")]
            if rng.random() < 0.6:
                toks.append([rng.choice(["completed", "error"])])
        return add_spaces(rng, render(toks))
    alphabet = "--||#(),,ab12 .e_+\n\t"
    return "".join(rng.choice(alphabet) for _ in range(rng.randrange(0, 14)))


LOOKUP_VALUES = [None, 0, False, "", "v", 7, (), [1], 2.5]


def gen_lookup(rng, s):
    if rng.random() < 0.4:
        return []
    keys = []
    pool = ["a", "b", "1", "x", "12", 1, 2, 12, 5, 0, 1000, 10, 1.5, 0.5, 1.0, 2.0, 3.5, 100.0, 0.01, float("inf"), float("nan"), 1000.0, -1, -0.5, -1.0]
    for _ in range(rng.randrange(1, 5)):
        keys.append(rng.choice(pool))
    d = {}
    for k in keys:
        if k not in d:
            d[k] = rng.choice(LOOKUP_VALUES)
    return [[enc(k), enc(v)] for k, v in d.items()]


def _cases(rng, tier):
    n = fw.tier_scale(tier, 2500, 25000)
    for _ in range(n):
        s = gen_string(rng)
        yield {"op": "marbles_parse", "s": s, "timespan": rng.choice([1, 1, 10, 2, 3, 0, -1, 7, 100]),
               "shift": rng.choice([0, 0, 5, 200, -3, 1]), "raise_stopped": rng.random() < 0.6,
               "lookup": gen_lookup(rng, s), "err": rng.choice([None, "boom"])}
    m = fw.tier_scale(tier, 700, 7000)
    for _ in range(m):
        s = gen_string(rng)
        yield {"op": "marbles_cold", "s": s, "timespan": rng.choice([1, 10, 2, 3, 0, 7]), "lookup": gen_lookup(rng, s),
               "err": rng.choice([None, "boom"]), "sub": rng.choice([200, 0, 1, 150]), "disp": rng.choice([1000, 1000, 210, 203, 230])}
    for _ in range(m):
        s = gen_string(rng)
        yield {"op": "marbles_hot", "s": s, "timespan": rng.choice([1, 10, 2, 3, 0, 7]), "shift": rng.choice([0, 200, 5, 100]),
               "lookup": gen_lookup(rng, s), "err": rng.choice([None, "boom"]),
               "subs": sorted([rng.choice([0, 1, 5, 100, 200, 203, 210, 230]), rng.choice([0, 2, 10, 205, 220, 300])]),
               "disp": rng.choice([1000, 1000, 300, 340])}   # disp >= every subscription time


def cases(rng, tier):
    for c in _cases_all(rng, tier):
        if c["lookup"]:
            c["lk_kind"] = rng.choice(LK_KINDS)
        if c["op"] == "marbles_cold":
            c["sched_mode"] = rng.choice(["subscribe", "operator", "both", "both"])
        yield c


def _cases_all(rng, tier):
    yield from _cases_units(rng, tier)
    # the testing context: marbles_testing(timespan) -> start / cold / hot / exp with lookup and error arguments
    for _ in range(fw.tier_scale(tier, 500, 5000)):
        s = gen_string(rng)
        lk = gen_lookup(rng, s)
        if rng.random() < 0.7:      # keys taken from the diagram itself, so that the lookup really applies
            keys = []
            for w in _words(s)[:6]:
                try:
                    k = int(w)
                except ValueError:
                    try:
                        k = float(w)
                    except ValueError:
                        k = w
                if k == k and k not in keys and not (isinstance(k, float) and abs(k) > 1e15):
                    keys.append(k)
            rng.shuffle(keys)
            lk = [[enc(k), enc(rng.choice(LOOKUP_VALUES))] for k in keys[:rng.randrange(1, 4)]] or lk
        yield {"op": "marbles_ctx", "which": rng.choice(["cold", "cold", "hot"]), "s": s, "timespan": rng.choice([1, 10, 2, 3, 7, 100]),
               "lookup": lk, "err": rng.choice([None, "boom"])}


def _cases_units(rng, tier):
    """A third of the cases pass timespan / shift (duetime) as floats, timedeltas or — for hot — an absolute datetime, in
    quarter seconds (`unit` = 4: k/4 s is exact in binary, so times compare exactly), with fractional, multi-day and negative
    shifts.  All times of such a case (timespan, shift, sub, subs, disp) are integers in 1/unit seconds."""
    for c in _cases(rng, tier):
        if rng.random() < 0.35:
            op = c["op"]
            c["unit"] = 4
            c["ts_form"] = rng.choice(["float", "td", "td"])
            c["timespan"] = rng.choice([1, 2, 3, 4, 5, 10, 40, 0]) if op != "marbles_parse" else rng.choice([1, 2, 3, 4, 5, -1, 40, 0])
            if op == "marbles_parse":
                c["shift_form"] = rng.choice(["float", "td", "td"])
                c["shift"] = rng.choice([0, 1, 8, 9, 801, 360246, 86400 * 4 + 2, -2, -1, -345601, 5])
            elif op == "marbles_hot":
                c["shift_form"] = rng.choice(["float", "td", "td", "dt", "dt"])
                c["shift"] = rng.choice([0, 1, 9, 801, 1203, 360246, 86400 * 4 + 2, 5])
                base = c["shift"]
                c["subs"] = sorted([rng.choice([0, 1, base, base + 3, base + 10]), rng.choice([0, 2, base + 1, base + 7])])
                c["disp"] = max(c["subs"]) + rng.choice([4000, 4000, 13, 40])
            else:
                c["sub"] = c["sub"] * 4 + rng.choice([0, 1, 2])
                c["disp"] = c["sub"] + rng.choice([4000, 4000, 9, 30, 41])
        if c["op"] == "marbles_hot" and rng.random() < 0.6:
            # hot() called at a NON-ZERO scheduler clock: times are relative to the instant of the call, whatever the form of
            # the due time (float, timedelta, absolute datetime = epoch + created + shift)
            unit = c.get("unit", 1)
            c["mode"] = rng.choice(["callback", "callback", "advance", "historical"])
            c["created"] = rng.choice([100, 150, 7, 1000, 86400 + 3]) * unit + (rng.choice([0, 1, 3]) if unit == 4 else 0)
            if "shift_form" not in c:
                c["shift_form"] = rng.choice(["int", "int", "float", "td", "dt", "dt"])
                c["ts_form"] = c.get("ts_form", "int")
            base = c["created"] + c["shift"]
            c["subs"] = sorted([rng.choice([c["created"], c["created"] + 1, base, base + 3 * unit]),
                                rng.choice([c["created"] + 2, base + 1, base + 7 * unit, base + 20 * unit])])
            c["disp"] = max(c["subs"]) + rng.choice([4000, 4000, 13, 40]) * unit
        yield c


def model_request(case):
    c = {k: v for k, v in case.items() if k not in ("unit", "ts_form", "shift_form", "mode", "lk_kind", "sched_mode")}
    if case.get("mode") == "callback":
        c["late"] = True
    if c.get("err") is None:
        c.pop("err", None)
    return c


# ----- real code ------------------------------------------------------------------------------
LK_KINDS = ["dict", "dict", "dict", "defaultdict_list", "counter", "missing_subclass", "mappingproxy", "userdict"]
_CUR = {}     # the mapping object handed to the code under test in the current impl() call, and its contents before the call


class _MissingDict(dict):
    def __missing__(self, key):
        return 0


def _lookup(case, plain=False):
    """the lookup as the mapping kind the case asks for (`plain`: always an ordinary dict, for the oracle's reference)"""
    if not case["lookup"]:
        return None
    d = {fw.dec(k) if not isinstance(fw.dec(k), list) else tuple(fw.dec(k)): fw.dec(v) for k, v in case["lookup"]}
    kind = "dict" if plain else case.get("lk_kind", "dict")
    if kind == "dict":
        m = d
    elif kind == "defaultdict_list":
        import collections
        m = collections.defaultdict(list, d)
    elif kind == "counter":
        import collections
        m = collections.Counter()
        m.update(d) if all(isinstance(v, int) and not isinstance(v, bool) for v in d.values()) else dict.update(m, d)
    elif kind == "missing_subclass":
        m = _MissingDict(d)
    elif kind == "mappingproxy":
        import types
        m = types.MappingProxyType(d)
    else:
        import collections
        m = collections.UserDict(d)
    if not plain:
        _CUR["obj"] = m
        _CUR["before"] = [(repr(k), repr(v)) for k, v in m.items()]
    return m


def _lookup_unchanged():
    m = _CUR.get("obj")
    return m is None or [(repr(k), repr(v)) for k, v in m.items()] == _CUR["before"]


def _err(case):
    return InjectedError(case["err"]) if case.get("err") is not None else None


def _verr(e):
    m = str(e)
    if m == MSG_STOPPED:
        return {"err": "stopped"}
    if m == MSG_COMMA:
        return {"err": "comma"}
    return {"err": "other:" + m}


def _tv(k, unit, form):
    """k/unit seconds as an int, a float, a timedelta or an absolute datetime (epoch + k/unit s)"""
    from datetime import datetime, timedelta, timezone
    if form == "int":
        assert unit == 1
        return k
    if form == "float":
        return k / unit
    td = timedelta(microseconds=k * 1000000 // unit)
    if form == "td":
        return td
    return datetime(1970, 1, 1, tzinfo=timezone.utc) + td


def _units(t, unit):
    v = t * unit
    if float(v) != int(v):
        raise TypeError(f"time {t!r} is not a whole number of 1/{unit} seconds")
    return int(v)


def _msg_json(t, n, exact_int=True, unit=1):
    if exact_int and (isinstance(t, bool) or not isinstance(t, int)):
        raise TypeError(f"parse returned a non-int time {t!r} for integer timespan/shift")
    t = _units(t, unit)
    if n.kind == "N":
        return [int(t), ["N", enc(n.value)]]
    if n.kind == "E":
        return [int(t), ["E", err_name(n.exception)]]
    return [int(t), ["C"]]


def _rec_json(messages, unit=1):
    return [_msg_json(m.time, m.value, exact_int=False, unit=unit) for m in messages]


def impl(case):
    _CUR.clear()
    out = dict(_impl(case))
    out["lookup_unchanged"] = _lookup_unchanged()      # the caller's mapping must not be modified (not compared with the model)
    return out


def canon_impl(case, out):
    return {k: v for k, v in out.items() if k != "lookup_unchanged"}


def _impl(case):
    import reactivex
    from reactivex.observable.marbles import parse
    from reactivex.testing import TestScheduler

    op = case["op"]
    if op == "marbles_ctx":
        return _impl_ctx(case)
    unit = case.get("unit", 1)
    tsf, shf = case.get("ts_form", "int"), case.get("shift_form", "int")
    timespan = _tv(case["timespan"], unit, tsf)
    if op == "marbles_parse":
        try:
            msgs = parse(case["s"], timespan=timespan, time_shift=_tv(case["shift"], unit, shf), lookup=_lookup(case), error=_err(case),
                         raise_stopped=case["raise_stopped"])
        except ValueError as e:
            return _verr(e)
        return {"ok": [_msg_json(t, n, exact_int=(tsf == "int" and shf == "int"), unit=unit) for t, n in msgs]}
    sched = TestScheduler()
    if op == "marbles_cold":
        # which scheduler runs the actions: given at subscribe time, given to the operator, or BOTH — then the operator-level
        # one (this TestScheduler) must win over the subscribe-level one (a second TestScheduler that is never started)
        smode = case.get("sched_mode", "subscribe")
        try:
            obs = reactivex.from_marbles(case["s"], timespan=timespan, lookup=_lookup(case), error=_err(case),
                                         scheduler=None if smode == "subscribe" else sched)
        except ValueError as e:
            return _verr(e)
        o = sched.create_observer()
        holder = []
        other = TestScheduler()
        sched.schedule_absolute(case["disp"] / unit, lambda s, st: holder[0].dispose() if holder else None)
        if smode == "subscribe":
            sched.schedule_absolute(case["sub"] / unit, lambda s, st: holder.append(obs.subscribe(o, scheduler=s)))
        elif smode == "operator":
            sched.schedule_absolute(case["sub"] / unit, lambda s, st: holder.append(obs.subscribe(o)))
        else:
            sched.schedule_absolute(case["sub"] / unit, lambda s, st: holder.append(obs.subscribe(o, scheduler=other)))
        sched.start()
        return {"ok": _rec_json(o.messages, unit)}
    if op == "marbles_hot":
        return _impl_hot(case, unit, timespan, shf)
    raise ValueError(op)


def _impl_hot(case, unit, timespan, shf):
    """hot() called at clock `created` — before anything else (clock 0), after advance_to(created), from inside an action
    scheduled at `created` (like the create callback of TestScheduler.start), or on a HistoricalScheduler started at
    epoch + created — then observers subscribing at `subs` and disposing at `disp`."""
    import reactivex
    from datetime import datetime, timedelta, timezone
    from reactivex.scheduler import HistoricalScheduler
    from reactivex.testing import TestScheduler

    mode = case.get("mode", "pre")
    created = case.get("created", 0)
    epoch = datetime(1970, 1, 1, tzinfo=timezone.utc)
    sched = HistoricalScheduler(epoch + timedelta(microseconds=created * 1000000 // unit)) if mode == "historical" else TestScheduler()
    due = _tv(created + case["shift"], unit, "dt") if shf == "dt" else _tv(case["shift"], unit, shf)
    box = {}

    def make(*_):
        try:
            box["obs"] = reactivex.hot(case["s"], timespan=timespan, duetime=due, lookup=_lookup(case), error=_err(case), scheduler=sched)
        except ValueError as e:
            box["err"] = _verr(e)

    def at(k):      # absolute time on this scheduler
        return epoch + timedelta(microseconds=k * 1000000 // unit) if mode == "historical" else k / unit

    if mode == "callback":
        sched.schedule_absolute(at(created), make)
    else:
        if mode == "advance":
            sched.advance_to(at(created))
        make()
        if "err" in box:
            return box["err"]
    logs = []
    for sub in case["subs"]:
        log, holder = [], []
        logs.append(log)

        def rec(kind, v=None, log=log):
            t = sched.to_seconds(sched.clock) if mode == "historical" else sched.clock
            log.append([_units(t, unit), [kind] if kind == "C" else [kind, enc(v) if kind == "N" else err_name(v)]])

        def subscribe(s_, st, holder=holder, rec=rec):
            if "obs" in box:
                holder.append(box["obs"].subscribe(lambda v: rec("N", v), lambda e: rec("E", e), lambda: rec("C"), scheduler=s_))

        sched.schedule_absolute(at(sub), subscribe)
        sched.schedule_absolute(at(case["disp"]), (lambda holder: lambda s_, st: holder[0].dispose() if holder else None)(holder))
    from reactivex.scheduler import VirtualTimeScheduler
    VirtualTimeScheduler.start(sched)
    if "err" in box:
        return box["err"]
    return {"ok": logs}


def _impl_ctx(case):
    import warnings

    from reactivex.testing.marbles import marbles_testing

    out = {}
    with warnings.catch_warnings():
        warnings.simplefilter("ignore")
        with marbles_testing(timespan=case["timespan"]) as ctx:
            start, cold, hot, exp = ctx
            try:
                ex = exp(case["s"], _lookup(case), _err(case))
                out["exp"] = {"ok": _rec_json(ex)}
            except ValueError as e:
                out["exp"] = _verr(e)
            try:
                obs = (cold if case["which"] == "cold" else hot)(case["s"], _lookup(case), _err(case))
                out["got"] = {"ok": _rec_json(start(obs))}
            except ValueError as e:
                out["got"] = _verr(e)
    return out


def _fix_val(v):
    if isinstance(v, dict) and "t" in v and len(v["t"]) == 2 and v["t"][0] == ".fl":
        return {"f": repr(float(v["t"][1]))}
    return v


def _fix_msgs(ms):
    return [[t, (["N", _fix_val(n[1])] if n[0] == "N" else n)] for t, n in ms]


def canon_model(case, out):
    if case["op"] == "marbles_ctx":
        return {k: ({"ok": _fix_msgs(v["ok"])} if "ok" in v else v) for k, v in out.items()}
    if "ok" not in out:
        return out
    if case["op"] == "marbles_hot":
        return {"ok": [_fix_msgs(ms) for ms in out["ok"]]}
    return {"ok": _fix_msgs(out["ok"])}


# ----- oracle: the documented syntax, read character by character (independent of the regex and of the Lean model) ----
def reference_parse(s, timespan, shift, lookup, err, raise_stopped):
    """None when the string is outside the documented syntax (unbalanced parentheses, newline)."""
    s = s.replace(" ", "")
    if "\n" in s:
        return None
    lookup = lookup or {}
    marbles = []  # (index, text) in reading order; text may be '' for an empty group item
    i = 0
    while i < len(s):
        ch = s[i]
        if ch == "-":
            i += 1
        elif ch == "(":
            j = s.find(")", i)
            if j < 0:
                return None
            for item in s[i + 1:j].split(","):
                marbles.append((i, item))
            i = j + 1
        elif ch == ")":
            return None
        elif ch == ",":
            marbles.append((i, None))
            i += 1
        elif ch in "|#":
            marbles.append((i, ch))
            i += 1
        else:
            j = i
            while j < len(s) and s[j] not in "-,()#|":
                j += 1
            marbles.append((i, s[i:j]))
            i = j
    out = []
    stopped = False
    for idx, text in marbles:
        if text is None:
            return {"err": "comma"}
        if raise_stopped:
            if stopped:
                return {"err": "stopped"}
            if text in ("|", "#"):
                stopped = True
        if text == "":
            continue
        t = idx * timespan + shift
        if text == "|":
            out.append([t, ["C"]])
        elif text == "#":
            out.append([t, ["E", err or "Exception"]])
        else:
            try:
                v = int(text)
            except ValueError:
                try:
                    v = float(text)
                except ValueError:
                    v = text
            v = lookup.get(v, v)
            out.append([t, ["N", enc(v)]])
    return {"ok": out}


def oracle(case, out):
    op = case["op"]
    lk = _lookup(case, plain=True)
    if not out.get("lookup_unchanged", True):
        return f"the caller's lookup mapping ({case.get('lk_kind', 'dict')}) was modified by the call"
    out = {k: v for k, v in out.items() if k != "lookup_unchanged"}
    if op == "marbles_ctx":
        # the context's functions mean the same diagram: exp() is the documented reading shifted to the subscription time
        # 200, and start(cold(...)) / start(hot(...)) deliver exactly those records inside the subscription window
        ref = reference_parse(case["s"], case["timespan"], 200, lk, case.get("err"), False)
        if ref is None:
            return None
        if fw.key(ref) != fw.key(out["exp"]):
            return f"exp({case['s']!r}) = {out['exp']} but the documented syntax gives {ref}"
        strict = reference_parse(case["s"], case["timespan"], 200, lk, case.get("err"), True)
        if "ok" not in strict:
            return None if fw.key(strict) == fw.key(out["got"]) else f"{case['which']}() should reject the diagram with {strict}, got {out['got']}"
        if case["which"] == "cold":
            want = [[t, n] for t, n in strict["ok"] if t < 1000]
        else:
            want = [[t, n] for t, n in strict["ok"] if 200 < t <= 1000]
        if "ok" not in out["got"] or fw.key(want) != fw.key(out["got"]["ok"]):
            return f"start({case['which']}({case['s']!r}, lookup)) recorded {out['got']}, exp() prescribes {want}"
        return None
    if op == "marbles_parse":
        ref = reference_parse(case["s"], case["timespan"], case["shift"], lk, case.get("err"), case["raise_stopped"])
        if ref is not None and fw.key(ref) != fw.key(out):
            return f"parse({case['s']!r}) = {out} but the documented syntax gives {ref}"
        return None
    # delivery: exactly the parsed notifications at the parsed times (relative to subscription / creation)
    from reactivex.observable.marbles import parse
    unit = case.get("unit", 1)
    shift = case.get("shift", 0)
    try:
        # plain numbers (exact: k/unit with unit a power of two), whatever form the observable itself was given
        msgs = parse(case["s"], timespan=case["timespan"] if unit == 1 else case["timespan"] / unit,
                     time_shift=shift if unit == 1 else shift / unit, lookup=lk, error=_err(case), raise_stopped=True)
    except ValueError as e:
        exp = _verr(e)
        return None if fw.key(exp) == fw.key(out) else f"expected {exp}, got {out}"
    parsed = [_msg_json(t, n, exact_int=False, unit=unit) for t, n in msgs]
    if "ok" not in out:
        return f"parse succeeded but the observable constructor raised: {out}"
    if op == "marbles_cold":
        exp = [[case["sub"] + t, n] for t, n in parsed if case["sub"] + t < case["disp"]]
        if fw.key(exp) != fw.key(out["ok"]):
            return f"from_marbles delivered {out['ok']}, parsed messages shifted by the subscription time are {exp}"
        return None
    created = case.get("created", 0)
    late = case.get("mode") == "callback"     # hot() called from inside an action: its own actions are the youngest in the queue
    for sub, got in zip(case["subs"], out["ok"]):
        exp = [[created + t, n] for t, n in parsed
               if (sub <= created + t < case["disp"] if late else sub < created + t <= case["disp"])]
        if fw.key(exp) != fw.key(got):
            return f"hot: subscriber at {sub} saw {got}, parsed messages after its subscription are {exp}"
    return None


def nontrivial(case, out):
    if case["op"] == "marbles_ctx":
        return bool(case["lookup"]) and "ok" in out["got"] and len(out["got"]["ok"]) >= 2
    s = case["s"]
    rich = ("(" in s and ")" in s) or " " in s or any(len(w) > 1 for w in _words(s))
    if "ok" not in out:
        return rich
    ms = out["ok"] if case["op"] != "marbles_hot" else max(out["ok"], key=len)
    return rich and len(ms) >= 2


def _words(s):
    import re
    return re.findall(r"[^-,()#| ]+", s)


def bucket(case, out):
    yield case["op"]
    if case["op"] == "marbles_ctx":
        yield "ctx:" + case["which"]
        yield "ctx:got:" + ("ok" if "ok" in out["got"] else out["got"]["err"])
        if case["lookup"] and "ok" in out["got"] and any(n[0] == "N" and any(fw.key(n[1]) == fw.key(v) for _, v in case["lookup"]) for _, n in out["got"]["ok"]):
            yield "ctx:lookup-hit"
        return
    if case.get("lk_kind"):
        yield "lookup-mapping:" + case["lk_kind"]
    if case["op"] == "marbles_cold":
        yield "cold:scheduler-" + case.get("sched_mode", "subscribe")
    if case["op"] == "marbles_hot":
        yield "hot:called-at-" + ("clock-0" if not case.get("created") else "nonzero-clock:" + case["mode"])
        if case.get("created") and case.get("shift_form") == "dt":
            yield "hot:nonzero-clock:datetime-duetime"
    if case.get("unit", 1) != 1:
        yield "quarter-seconds:timespan-as-" + case["ts_form"]
        if "shift_form" in case:
            yield "quarter-seconds:shift-as-" + case["shift_form"]
            yield "shift:" + ("negative" if case["shift"] < 0 else "multi-day" if case["shift"] >= 86400 * 4 else "fractional" if case["shift"] % 4 else "whole")
    s = case["s"]
    if "ok" in out:
        yield "result:ok"
    else:
        yield "result:" + out["err"].split(":")[0]
    if "(" in s and ")" in s:
        yield "has:group"
    if " " in s:
        yield "has:space"
    if any(len(w) > 1 for w in _words(s)):
        yield "has:multichar"
    if case["op"] == "marbles_parse":
        ref = reference_parse(s, 1, 0, None, None, False)
        yield "documented-syntax" if ref is not None else "outside-documented-syntax"
        if "ok" in out:
            kinds = {type(fw.dec(n[1])).__name__ for t, n in out["ok"] if n[0] == "N"}
            for k in sorted(kinds):
                yield "value:" + k
        if case["lookup"]:
            yield "has:lookup"


def shrink(case):
    s = case["s"]
    for i in range(len(s)):
        c = dict(case); c["s"] = s[:i] + s[i + 1:]; yield c
    if case["lookup"]:
        for i in range(len(case["lookup"])):
            c = dict(case); c["lookup"] = case["lookup"][:i] + case["lookup"][i + 1:]; yield c
    if case.get("err") is not None:
        c = dict(case); c["err"] = None; yield c


LEVEL_TEXT = ("Lean theorems: the scanner model of parse (same alternation order as the regex, frame counter, groups, try_number, lookup, "
              "raise_stopped) applied to the rendering of ANY well-formed token list, with spaces inserted anywhere, equals the documented reading "
              "(time = index of the marble's first character x timespan + shift; group items at the opening parenthesis; terminal checks in "
              "reading order); rejects-after-terminal and never-rejects-without-raise_stopped; parsed times are sorted for timespan >= 0 and then "
              "from_marbles/hot deliver exactly the parsed messages (scheduler queue model). Proved by induction over token lists, no bound. "
              "Tied to the code by differential runs of the real parse / from_marbles / hot against the compiled model and an independent "
              "character-walk oracle.")
LEVEL_NOTE = ("Integer timespans/shifts only (float timespans not modelled); printable-ASCII strings; float VALUES are carried as lexemes and turned "
              "into doubles by Python on both sides (the model decides only the grammar int / float / string). Strings outside the documented syntax "
              "(unbalanced parentheses: silently skipped by findall without advancing time) are covered by parse_render as well (tokens strayClose / strayOpen, "
              "theorem stray_parens_skipped); float / timedelta / datetime timespans and shifts are covered in exact quarter-second units (parse_units: "
              "the reading is homogeneous in the time unit). The TestScheduler queue discipline used for delivery is modelled (stable order by due time), not imported from C28.")

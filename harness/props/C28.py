"""C28 — virtual time runs actions in due order on a monotone clock (DESIGN.md §5 C28)."""
import fw
from props import vts_common as vc

LEAN_TARGETS = ["RxProofs.C28"]
DRIVER = "drv_vts"
DRIVER_ROOT = "Vts"
THEOREMS = [
    "C28.pq_dequeue_min_stable",
    "C28.pq_wf_reachable",
    "C28.run_picks_min",
    "C28.clock_at_run",
    "C28.clock_at_run_ge",
    "C28.clock_monotone_loop",
    "C28.clock_monotone",
    "C28.log_clock_sorted",
    "C28.cancelled_never_run",
    "C28.sorted_if_no_past_scheduling",
    "C28.advance_to_runs_exactly_due_partial",
    "C28.advance_to_leaves_clock_at_target",
    "C28.advance_by_leaves_clock_at_target",
    "C28.sleep_runs_nothing",
    "C28.advance_to_now_counter",
    "C28.sleep_past_target_counter",
]
RULE = ("random scripts of 2..14 calls (schedule/schedule_relative/schedule_absolute of action trees of depth <=3 that schedule, "
        "cancel, sleep, stop and make re-entrant advance_to/advance_by/start calls on the running scheduler; cancel; advance_to around the clock; advance_by; sleep; start; stop) on real TestScheduler, "
        "VirtualTimeScheduler and HistoricalScheduler (datetime clock), small time alphabet so equal due times are common; plus "
        "PriorityQueue op scripts; plus multi-start scripts (2..4 start() rounds of 40..99 — sometimes >101 — actions at one unchanged "
        "instant, rounds ended by draining or by an action calling stop()); compared with the Lean model on executed-action log (id, clock at run), per-call outcome, "
        "final clock, enabled flag, pending count. non-trivial = at least two different call kinds and at least one action ran")
ASSUMPTIONS = ["single-threaded use of the scheduler (what the property quantifies over)",
               "integer times (ticks / microseconds); non-integral float times are outside the model",
               "heapq pops the least (item, count) tuple (array layout abstracted; PQ.WF makes the least entry unique)"]
TRUSTED_EXTRA = ["event-trace recorder in harness/props/vts_common.py (reads scheduler._clock/_is_enabled)"]
FINDING_ADV_NOW = "C28-advance-to-now"
FINDING_SLEEP_BACK = "C28-sleep-past-target"


def _finding_listed(fid):
    """Is the finding recorded in known_findings.json?  The sleep-past-target shape is reported (as KNOWN-FINDING) once the lead
    has recorded it; until then it is exempted exactly as before, so that the check's verdict never depends on the order in
    which the shared file is edited."""
    try:
        return any(f.get("id") == fid and f.get("status") == "known" for f in fw.load_known())
    except Exception:
        return False


# --------------------------------------------------------------------------- generation
def gen_script(rng, kind=None, raise_p=0.02):
    kind = kind or rng.choice(["test", "vts", "hist", "hist"])
    unit = 500 if kind == "hist" else 1
    g = vc.Gen(rng, unit=unit, raise_p=raise_p, ctl_p=rng.choice([0.0, 0.0, 0.15, 0.3]), ret_p=rng.choice([0.0, 0.3, 0.6]))
    c0 = unit * rng.choice([0, 0, 0, 5, 100])
    clock = c0  # rough tracking, only to aim targets
    ops = []
    for _ in range(rng.randrange(2, 15)):
        r = rng.random()
        if r < 0.5:
            mode = rng.choice(["imm", "rel", "rel", "abs", "abs"])
            t = 0 if mode == "imm" else (g.t_rel() if mode == "rel" else g.t_abs(clock))
            ops.append(["sched", False, mode, t, g.action(0, clock)])
        elif r < 0.58:
            ops.append(["cancel", rng.randrange(1, max(2, g.next_id + 1))])
        elif r < 0.74:
            t = clock + unit * rng.choice([-2, 0, 0, 1, 2, 3, 5, 8, 13])
            ops.append(["advance_to", t])
            clock = max(clock, t)
        elif r < 0.82:
            d = unit * rng.choice([-1, 0, 0, 1, 2, 4, 7])
            ops.append(["advance_by", d])
            clock += max(d, 0)
        elif r < 0.88:
            d = unit * rng.choice([-1, 0, 1, 3, 6])
            ops.append(["sleep", d])
            clock += max(d, 0)
        elif r < 0.97:
            ops.append(["start"])
            clock += 10 * unit
        else:
            ops.append(["stop"])
    return {"op": "vts_script", "sched": kind, "clock": c0, "bump": 1000 if kind == "hist" else 1, "ops": ops,
            "handler_true": [], "handler_default": False,
            "tz_offset_min": rng.choice([None, 120, -300, 330, 60]) if kind == "hist" else None}


def gen_long_run(rng, kind=None):
    """long runs (150..400 actions) under start(), mostly on the datetime clock: stretches of actions at distinct increasing times,
    bursts of 2 / 60 / 102 / 130 actions at one instant, bursts made OVERDUE by a sleep() that moves the clock past them first"""
    kind = kind or rng.choice(["hist", "hist", "hist", "test", "vts"])
    unit = 500 if kind == "hist" else 1
    c0 = unit * rng.choice([0, 0, 40])
    ops, nid, t = [], 1, c0
    target = rng.randrange(150, 400)
    while nid <= target:
        r = rng.random()
        if r < 0.45:      # a stretch of distinct times (the clock advances at every item)
            for _ in range(rng.choice([5, 40, 110, 130])):
                t += unit * rng.choice([1, 1, 2, 3])
                ops.append(["sched", False, "abs", t, {"id": nid, "steps": [], "raise": None}])
                nid += 1
        else:             # a burst at one instant (sometimes the instant of the previous item)
            if rng.random() < 0.7:
                t += unit * rng.choice([1, 4])
            for _ in range(rng.choice([2, 2, 3, 60, 102, 130])):
                ops.append(["sched", False, "abs", t, {"id": nid, "steps": [], "raise": None}])
                nid += 1
    if rng.random() < 0.5:   # everything up to somewhere in the middle becomes overdue
        ops.append(["sleep", (t - c0) // 2 + unit * rng.choice([0, 1, 7])])
    ops.append(["start"])
    return {"op": "vts_script", "sched": kind, "clock": c0, "bump": 1000 if kind == "hist" else 1, "ops": ops,
            "handler_true": [], "handler_default": False,
            "tz_offset_min": rng.choice([None, 120, -300]) if kind == "hist" else None}


def gen_multi_start(rng, kind=None):
    """several start() rounds (separated by the queue draining, or by an action calling stop()) that each run 40..99 actions
    at one unchanged instant (sometimes >101, so that the spin valve legitimately fires): per-call state of start() such as
    the spin counter must not leak from one round to the next"""
    kind = kind or rng.choice(["test", "vts", "hist"])
    unit = 500 if kind == "hist" else 1
    c0 = unit * rng.choice([0, 0, 5])
    at = c0 + unit * rng.choice([0, 0, 10])   # the shared instant
    ops, nid = [], 1
    first = True
    for _ in range(rng.choice([2, 2, 3, 4])):
        n = rng.choice([40, 55, 60, 60, 75, 99, 99]) if rng.random() < 0.85 else rng.choice([102, 115])
        stop_at = rng.randrange(n) if rng.random() < 0.3 else None   # one action of the round calls stop(): the round ends early
        for j in range(n):
            node = {"id": nid, "steps": [["stop"]] if j == stop_at else [], "raise": None}
            if first or rng.random() < 0.3:
                ops.append(["sched", False, "abs", at, node])
            else:
                ops.append(["sched", False, rng.choice(["imm", "rel"]), 0, node])   # due at the current clock == `at` after round 1
            nid += 1
        if rng.random() < 0.2 and nid > 3:
            ops.append(["cancel", rng.randrange(1, nid)])
        ops.append(["start"])
        if stop_at is not None:
            ops.append(["start"])   # finish the interrupted round
        first = False
    return {"op": "vts_script", "sched": kind, "clock": c0, "bump": 1000 if kind == "hist" else 1, "ops": ops,
            "handler_true": [], "handler_default": False}


def gen_pq(rng):
    ops = []
    live = []  # shadow multiset of priorities, to aim `remove` at unambiguous targets
    label = 0
    for _ in range(rng.randrange(1, 30)):
        r = rng.random()
        if r < 0.5:
            p = rng.randrange(0, 5)
            label += 1
            ops.append(["enq", p, label])
            live.append(p)
        elif r < 0.8:
            ops.append(["deq"])
            if live:
                live.remove(min(live))
        elif r < 0.87:
            ops.append(["peek"])
        elif r < 0.92:
            ops.append(["len"])
        elif r < 0.97:
            cands = [p for p in set(live) if live.count(p) == 1] + [7]
            p = rng.choice(cands)
            ops.append(["remove", p])
            if p in live:
                live.remove(p)
        else:
            ops.append(["clear"])
            live = []
    return {"op": "pq_script", "ops": ops}


def cases(rng, tier):
    # the confirmed deviation, always present (corpus-like)
    yield {"op": "vts_script", "sched": "test", "clock": 0, "bump": 1, "handler_true": [], "handler_default": False,
           "ops": [["advance_to", 10], ["sched", False, "abs", 10, {"id": 1, "steps": [], "raise": None}], ["advance_to", 10]]}
    for _ in range(fw.tier_scale(tier, 1800, 20000)):
        yield gen_script(rng)
    for _ in range(fw.tier_scale(tier, 400, 4000)):
        yield gen_pq(rng)
    for _ in range(fw.tier_scale(tier, 90, 900)):
        yield gen_multi_start(rng)
    for _ in range(fw.tier_scale(tier, 80, 800)):
        yield gen_long_run(rng)


def model_request(case):
    if case["op"] == "pq_script":
        return case
    return vc.model_request(case)


# --------------------------------------------------------------------------- real code
class _P:
    """item compared by priority only, like ScheduledItem by duetime"""
    __slots__ = ("p", "l")

    def __init__(self, p, l):
        self.p, self.l = p, l

    def __lt__(self, o):
        return self.p < o.p

    def __gt__(self, o):
        return self.p > o.p

    def __eq__(self, o):
        try:
            return self.p == o.p
        except AttributeError:
            return NotImplemented

    __hash__ = None


def run_pq(case):
    from reactivex.internal import PriorityQueue

    q = PriorityQueue()
    out = []
    for o in case["ops"]:
        try:
            if o[0] == "enq":
                q.enqueue(_P(o[1], o[2]))
                out.append(None)
            elif o[0] == "deq":
                x = q.dequeue()
                out.append([x.p, x.l])
            elif o[0] == "peek":
                x = q.peek()
                out.append([x.p, x.l])
            elif o[0] == "len":
                out.append(len(q))
            elif o[0] == "remove":
                out.append(bool(q.remove(_P(o[1], -1))))
            elif o[0] == "clear":
                q.clear()
                out.append(None)
        except IndexError:
            out.append("IndexError")
    return out


def impl(case):
    if case["op"] == "pq_script":
        return run_pq(case)
    return vc.run_script(case)


def canon_impl(case, out):
    return out if case["op"] == "pq_script" else vc.canon_impl(case, out)


def canon_model(case, resp):
    return resp if case["op"] == "pq_script" else vc.canon_model(case, resp)


# --------------------------------------------------------------------------- oracle (property text, on the event trace)
def pq_oracle(case, out):
    """reference: a list kept in insertion order; dequeue = first entry of least priority"""
    ref = []
    for o, r in zip(case["ops"], out):
        if o[0] == "enq":
            ref.append((o[1], o[2]))
        elif o[0] in ("deq", "peek"):
            if not ref:
                exp = "IndexError"
            else:
                m = min(p for p, _ in ref)
                i = next(i for i, (p, _) in enumerate(ref) if p == m)
                exp = [ref[i][0], ref[i][1]]
                if o[0] == "deq":
                    del ref[i]
            if r != exp:
                return f"{o[0]} returned {r}, expected {exp} (least priority, first enqueued)"
        elif o[0] == "len":
            if r != len(ref):
                return f"len {r} != {len(ref)}"
        elif o[0] == "remove":
            idx = [i for i, (p, _) in enumerate(ref) if p == o[1]]
            if bool(idx) != r:
                return f"remove({o[1]}) returned {r}"
            if idx:
                del ref[idx[0]]
        elif o[0] == "clear":
            ref = []
    return None


def oracle(case, out):
    if case["op"] == "pq_script":
        return pq_oracle(case, out)
    if out.get("hang"):
        return f"the scheduler did not return within the {out['watchdog_s']} s watchdog"
    bump = case["bump"]
    ht = vc.HandleTracker()
    pending, cancelled = ht.pending, ht.cancelled      # id -> (due, seqno); ids cancelled while pending
    clock = None
    cur = None        # current top-level op record
    spin_possible = False
    ncancel = 0       # cancel events on pending items so far: an upper bound on the silently skipped (dequeued cancelled) items
    for ev in out["events"]:
        k = ev[0]
        if k == "op":
            _, i, name, arg, c, en = ev
            if clock is None and c != case["clock"]:
                return (f"the scheduler was created with initial clock {case['clock']} (HistoricalScheduler: an aware datetime in zone offset "
                        f"{case.get('tz_offset_min')} min) but its clock reads {c} before the first call")
            if clock is not None and c < clock:
                return f"clock moved backwards: {clock} -> {c} before call {i}"
            clock = c
            cur = {"i": i, "name": name, "arg": arg, "c0": c, "enabled": en, "ran": [], "stopped": False, "slept": False,
                   "spin": 0}  # actions run by THIS call since the clock last moved to a due time
            spin_possible = name == "start"
        elif k == "sched":
            _, nid, due, seqno = ev
            ht.sched(nid, (due, seqno))
        elif k == "cancel":
            ht.cancel(ev[1])
            ncancel = ht.ncancel
        elif k == "ret":
            ht.ret(ev[1], ev[2])
            ncancel = ht.ncancel
        elif k == "stop":
            if cur is not None:
                cur["stopped"] = True
        elif k == "run":
            _, nid, at = ev
            if nid not in pending:
                return f"action {nid} ran but is not pending (ran twice / never scheduled)"
            due, seqno = pending.pop(nid)
            if nid in cancelled:
                return f"cancelled action {nid} ran"
            if at < clock:
                return f"clock moved backwards: {clock} -> {at} at action {nid}"
            exp = max(clock, due)
            if at != exp:
                if not (spin_possible and at == max(clock + bump, due)):
                    return f"action {nid} (due {due}) ran at clock {at}; clock before was {clock}, expected {exp}"
                # the only licence to run an action away from max(clock, due) is start()'s spin valve: more than MAX_SPINNING (100)
                # consecutive items handled by THIS start() call without the clock moving to a due time.  Items handled = actions
                # run + cancelled items skipped; the latter are invisible, so they are bounded by the cancel events seen so far.
                if cur is not None and cur["spin"] + ncancel < 101:
                    return (f"action {nid} (due {due}) ran at clock {at} instead of {exp}: the clock was bumped although this start() "
                            f"had run only {cur['spin']} actions at the unchanged instant {clock}")
                if cur is not None:
                    cur["spin"] = 0
            elif due > clock and cur is not None:
                cur["spin"] = 0
            for oid, (odue, oseq) in pending.items():
                if oid in cancelled:
                    continue
                if (odue, oseq) < (due, seqno):
                    return f"action {nid} (due {due}, #{seqno}) ran before pending action {oid} (due {odue}, #{oseq})"
            if cur is None or cur["name"] not in ("start", "advance_to", "advance_by"):
                return f"action {nid} ran during {cur and cur['name']}"
            cur["ran"].append((nid, due))
            cur["spin"] += 1
            clock = at
        elif k == "end":
            if ev[2] < clock:
                return f"clock moved backwards inside action {ev[1]}"
            if ev[2] > clock and cur is not None:
                cur["slept"] = True   # only an in-action sleep() moves the clock inside an action
            clock = ev[2]
        elif k == "opend":
            _, i, res, c, en = ev
            name, arg, c0 = cur["name"], cur["arg"], cur["c0"]
            # advance_to assigns its target to the clock when its loop ends; an action that itself called sleep() past
            # the target is followed by a step back.  Actions calling sleep() are outside the property's quantifier
            # (they schedule and cancel); the model keeps the assignment as written and the theorems exclude it (noSleep).
            if c < clock:
                if cur["slept"] and name in ("advance_to", "advance_by") and res == "ok":
                    # genuine deviation from "the clock never moves backwards" (proposed known finding): an action called
                    # sleep() past the target and advance_to then assigned its target to the clock
                    if _finding_listed(FINDING_SLEEP_BACK):
                        return f"sleep-past-target: clock moved backwards {clock} -> {c} when {name}({arg}) returned (an action slept past the target)"
                else:
                    return f"clock moved backwards: {clock} -> {c} at the end of call {i}"
            if res == "ok" and not cur["enabled"]:
                if name in ("advance_to", "advance_by"):
                    T = arg if name == "advance_to" else c0 + arg
                    for nid, due in cur["ran"]:
                        if due > T:
                            return f"{name}({arg}) ran action {nid} due {due} > target {T}"
                    if c != T:
                        return f"{name}({arg}) left the clock at {c}, target {T}"
                    if not cur["stopped"]:
                        left = sorted(nid for nid, (due, _) in pending.items() if due <= T and nid not in cancelled)
                        if left:
                            if T == c0:
                                return f"advance_to(now): {name}({arg}) at clock {c0} returned without running actions {left} due at or before {T}"
                            return f"{name}({arg}) returned without running actions {left} due at or before {T}"
                elif name == "sleep":
                    if cur["ran"]:
                        return "sleep ran actions"
                    if c != c0 + arg:
                        return f"sleep({arg}) moved the clock from {c0} to {c}"
            clock = c
    return None


def classify(case, why):
    if why.startswith("advance_to(now):"):
        return FINDING_ADV_NOW
    if why.startswith("sleep-past-target:"):
        return FINDING_SLEEP_BACK
    return None


def nontrivial(case, out):
    if case["op"] == "pq_script":
        return len({o[0] for o in case["ops"]}) >= 2 and any(o[0] == "deq" for o in case["ops"])
    return len({o[0] for o in case["ops"]}) >= 2 and bool(out.get("log"))


def bucket(case, out):
    if case["op"] == "pq_script":
        yield "pq"
        return
    yield "sched:" + case["sched"]
    if out.get("hang"):
        yield "hang"
        return
    for op, o in zip(case["ops"], out["outs"]):
        yield f"{op[0]}:{o if o == 'ok' else ('action-exception' if o[1][:1] == 'e' else o[1][:28])}"
    dues = [ev[2] for ev in out["events"] if ev[0] == "sched"]
    if len(dues) != len(set(dues)):
        yield "equal-due-times"
    if any(ev[0] == "cancel" for ev in out["events"]):
        yield "cancel"
    n = len(out["log"])
    yield "ran:" + ("0" if n == 0 else "1-5" if n <= 5 else "6-20" if n <= 20 else ">20")


def shrink(case):
    if case["op"] == "pq_script":
        for i in range(len(case["ops"])):
            c = dict(case)
            c["ops"] = case["ops"][:i] + case["ops"][i + 1:]
            yield c
        return
    for c in vc.shrink_script(case):
        if all(vc.ret_ok(op[4]) for op in c["ops"] if op[0] == "sched"):
            yield c


LEVEL_TEXT = ("Lean theorems over the executable model of PriorityQueue + VirtualTimeScheduler (both clock flavours; actions are arbitrary "
              "finite trees that schedule/cancel/sleep/stop/raise): each dequeued item is the first-enqueued among those of least due time; "
              "clock at invocation = due time if later than the clock (else unchanged, or +bump on the spin branch of start); clock and logged "
              "clocks never decrease over any call script; a cancelled pending action never runs; the run order is sorted by (due, scheduling "
              "number) when no action schedules before the clock; advance_to runs exactly the due actions and leaves the clock at the target; "
              "sleep runs nothing. Induction over all scripts and queues, no bounds. Tied to /repo by differential runs on TestScheduler, "
              "VirtualTimeScheduler, HistoricalScheduler and PriorityQueue plus an event-trace oracle written from the property text.")
LEVEL_NOTE = ("clock_monotone/log_clock_sorted over scripts carry the hypothesis that no action calls sleep() from inside: an action that sleeps past "
              "the target of the advance_to that runs it is followed by `self._clock = dt`, a step BACKWARDS (C28.sleep_past_target_counter, replayed on "
              "the real code; judged a genuine deviation from 'the clock never moves backwards' — sleep() is public API and in virtual time it is how an "
              "action takes time; proposed known finding C28-sleep-past-target: whichever way it is repaired one of the two clauses 'never backwards' / "
              "'clock left at the target' gives, so it is recorded, not fixed). clock_monotone_loop (start, and the loop of advance_to) holds without it. "
              "advance_to_runs_exactly_due is proved as _partial (hypothesis: target != current clock): advance_to(now)/advance_by(0) return without "
              "running actions due now (counter-example theorem C28.advance_to_now_counter, replayed on the real code; repairing it breaks the repo's own "
              "test_historicalscheduler.test_advance_by, so it is proposed as known finding C28-advance-to-now, not fixed). Assumed: single thread, integer "
              "times, heapq array layout abstracted (least-entry uniqueness proved as PQ.WF).")

"""C30 — trampoline / current-thread scheduling is same-thread, FIFO and never nested (DESIGN.md §5 C30).
Lean: RxModel/ThrTramp.lean (small-step machine with an explicit call stack; actions are data), RxProofs/C30.lean.

Correspondence:
  * `cases` — generated trees of nested schedule / schedule_relative / schedule_absolute / cancel / tick executed single-threaded
    on the real TrampolineScheduler, CurrentThreadScheduler() and CurrentThreadScheduler.singleton() with a patched clock
    (`Condition.wait(seconds)` advances the fake clock) vs the model: the full observable event sequence
    (sched(id, due, clock) / start(id, clock) / fin / skip / cancel / wait(until)), final idle flag, queue length and clock;
  * `extra` — 2 real threads under the interleaving controller: (a) each on its own trampoline (CurrentThreadScheduler
    instance / singleton), (b) both on one shared TrampolineScheduler; every schedule with <= k deviations (k=2 quick / 3
    thorough) + random deeper ones; per schedule (i) the property oracle on the observed events and (ii) the observed
    lock-section / queue / idle-flag event sequence replayed step by step in the atomic-step model (Lean driver).
The model is the FIXED exit path (fixes/C30_trampoline_lost_item.patch): on the unfixed tree the shared-trampoline schedules
in which an action is lost are reported as VIOLATION.
"""
import logging
import os

import fw

LEAN_TARGETS = ["RxProofs.C30"]
DRIVER = "drv_thr"
DRIVER_ROOT = "Thr"
THEOREMS = [
    "C30.tramp_never_nested",
    "C30.nested_runs_after_return",
    "C30.start_after_sched",
    "C30.tramp_fifo_equal_due",
    "C30.tramp_due_order",
    "C30.noPast_of_no_absolute",
    "C30.tramp_not_before_due",
    "C30.tramp_cancelled_never_run",
    "C30.raise_resets_trampoline",
    "C30.idle_means_fresh",
    "C30.exec_is_runA",
    "C30.past_due_runs_after_batch",
    "C30.per_thread_independent",
    "C30.proj_init",
    "C30.shared_drain_mutex",
    "C30.idle_queue_empty",
    "C30.shared_fixed_no_item_lost",
    "C30.shared_clear_drops_item",
]
RULE = ("program trees: depth <= 3, 0..4 ops per body drawn from schedule / schedule_relative(d in {-3,0,5,10,50}) / "
        "schedule_absolute(t around the clock, ~12% of cases, incl. past times) / cancel(an in-scope label) / tick; three scheduler kinds; "
        "non-trivial = at least one nested schedule and (a timed item or a cancel or >= 3 actions). Thread schedules: enumerated deviations "
        "from the non-preemptive schedule at line granularity; non-trivial = at least one preemption inside Trampoline.run/_run")
ASSUMPTIONS = [
    "a raising action is modelled for the single-thread machine and in the multi-thread model (Op.raise_: the exception leaves the drain loop, `except BaseException: idle = True; queue.clear()`, re-raised to the schedule* caller); the multi-thread correspondence uses non-raising programs",
    "PriorityQueue = heapq over (item, insertion count): abstracted as a stably sorted list (C28 models the queue itself)",
    "atomicity: a `with self._lock:` block is one step; ScheduledItem.is_cancelled()/invoke and the dt computation are single steps",
    "time is integer microseconds on a controlled clock; Condition.wait(seconds) with no notifier returns at the due time",
    "condition.wait(seconds) is its own model state: it may return at any time (timeout or notify); timed programs are part of the multi-thread correspondence (a timed wait on a shared trampoline woken early by another thread's schedule)",
]
TRUSTED_EXTRA = ["interleaving controller harness/sched/thr_ctl.py + thr_tramp.py (event extraction, lock-section classification)"]

logging.getLogger("Rx").setLevel(logging.ERROR)


# ----------------------------------------------------------------------------------------- generators
class _Gen:
    def __init__(self, rng, allow_abs, base=1, allow_raise=False):
        self.rng, self.allow_abs, self.next, self.allow_raise = rng, allow_abs, base, allow_raise

    def body(self, depth, scope, clock_hint):
        rng = self.rng
        n = rng.choice([0, 1, 1, 2, 2, 3, 4]) if depth else rng.choice([1, 2, 2, 3])
        ops = []
        scope = list(scope)
        for _ in range(n):
            r = rng.random()
            if r < 0.5 and depth < 3:
                lbl = self.next
                self.next += 1
                k = rng.random()
                sub_scope = list(scope)
                if self.allow_abs and k < 0.25:
                    t = clock_hint + rng.choice([-20, -5, 0, 3, 10, 40])
                    ops.append(["abs", lbl, t, self.body(depth + 1, sub_scope, max(clock_hint, t))])
                elif k < 0.55:
                    d = rng.choice([-3, 0, 5, 10, 10, 50])
                    ops.append(["rel", lbl, d, self.body(depth + 1, sub_scope, clock_hint + max(d, 0))])
                else:
                    ops.append(["sched", lbl, self.body(depth + 1, sub_scope, clock_hint)])
                scope.append(lbl)
            elif r < 0.68 and scope:
                ops.append(["cancel", rng.choice(scope)])
            elif r < 0.85:
                ops.append(["tick", rng.choice([1, 5, 10, 10, 25])])
            elif r < 0.93 and depth >= 1 and self.allow_raise:
                ops.append(["raise"])
                break  # nothing after a raise in the same body is executed
            elif depth < 3:
                lbl = self.next
                self.next += 1
                ops.append(["sched", lbl, []])
                scope.append(lbl)
        return ops


def _abs_labels(prog, out=None):
    out = [] if out is None else out
    for o in prog:
        if o[0] == "abs":
            out.append(o[1])
        if o[0] in ("sched", "rel", "abs"):
            _abs_labels(o[-1], out)
    return out


def gen_case(rng):
    allow_abs = rng.random() < 0.15
    g = _Gen(rng, allow_abs, allow_raise=rng.random() < 0.15)
    prog = g.body(0, [], 0)
    if not _has(prog, ("sched", "rel", "abs")) or rng.random() < 0.3:
        prog = prog[:1] + [["sched", 900, g.body(1, [], 0)]] + prog[1:]
    # absolute due times written in non-UTC zones (the same instants)
    tz = {str(l): rng.choice([-11, -5, 2, 9]) for l in _abs_labels(prog) if rng.random() < 0.6}
    return {"op": "tr_seq", "sched": rng.choice(["tramp", "ct", "cts"]), "prog": prog, "clock": rng.choice([0, 0, 7]), "tz": tz}


def cases(rng, tier):
    # the two documented shapes first
    yield {"op": "tr_seq", "sched": "tramp", "clock": 0,
           "prog": [["sched", 1, [["sched", 2, [["abs", 9, -5, []]]], ["sched", 3, []]]]]}  # past-due absolute: runs after the batch
    yield {"op": "tr_seq", "sched": "cts", "clock": 0,
           "prog": [["sched", 1, [["sched", 2, [["tick", 5]]], ["sched", 3, [["sched", 5, []], ["tick", 3]]], ["rel", 4, 100, []], ["cancel", 2], ["tick", 7]]]]}
    yield {"op": "tr_seq", "sched": "ct", "clock": 0,   # a raising action resets the trampoline; the next schedule starts fresh
           "prog": [["sched", 1, [["sched", 2, [["rel", 4, 5, []], ["raise"]]], ["sched", 3, []]]], ["sched", 5, []]]}
    # an absolute due time written in a zone with a negative UTC offset is the same instant: runs after the earlier-due ones
    yield {"op": "tr_seq", "sched": "ct", "clock": 0, "tz": {"2": -5, "5": 9},
           "prog": [["sched", 1, [["abs", 2, 300, []], ["sched", 3, []], ["rel", 4, 100, []], ["abs", 5, 200, []]]]]}
    # a negative relative delay means "now": it must not overtake the actions already queued for "now"
    yield {"op": "tr_seq", "sched": "tramp", "clock": 0,
           "prog": [["sched", 1, [["sched", 2, []], ["sched", 3, []], ["rel", 4, -3, []], ["sched", 5, []]]]]}
    for _ in range(fw.tier_scale(tier, 1500, 15000)):
        yield gen_case(rng)


def _size(prog):
    return sum(1 + (_size(o[-1]) if o[0] in ("sched", "rel", "abs") else 0) for o in prog)


def model_request(case):
    if case["op"] != "tr_seq":
        return None
    return {"op": "tr_seq", "fixed": True, "clock": case["clock"], "prog": case["prog"], "fuel": 40 * _size(case["prog"]) + 50}


def impl(case):
    if case["op"] == "threads":
        return impl_threads(case)
    from sched import thr_tramp
    import reactivex.scheduler  # noqa  (imports must not happen under the alarm)
    import signal

    def on_alarm(signum, frame):
        raise TimeoutError("single-thread trampoline run exceeded 60 s")

    old = signal.signal(signal.SIGALRM, on_alarm)
    signal.alarm(60)
    try:
        return thr_tramp.run_single(case)
    except Exception as e:  # noqa
        if not isinstance(e, TimeoutError):
            # the scheduler itself raised although no action raises: the property's own failure, not a harness fault
            return {"events": [], "done": False, "idle": None, "queue": None, "clock": None, "raised": type(e).__name__}
        # the code under test did not return: that is the property's own failure (scheduled actions never get to run), not a harness fault
        return {"events": [], "done": False, "idle": None, "queue": None, "clock": None, "hang": True}
    finally:
        signal.alarm(0)
        signal.signal(signal.SIGALRM, old)


def _in_pool():
    import multiprocessing

    return multiprocessing.current_process().daemon


def canon_impl(case, out):
    if case["op"] != "tr_seq":
        return out
    return {"events": out["events"], "done": out["done"], "idle": out["idle"], "queue": out["queue"], "clock": out["clock"]}


def canon_model(case, resp):
    if case["op"] != "tr_seq":
        return resp
    return {"events": resp["events"], "done": resp["done"], "idle": resp["idle"], "queue": resp["queue"], "clock": resp["clock"]}


def oracle(case, out):
    from sched import thr_tramp

    if case["op"] == "threads":
        return out.get("oracle")
    if out.get("raised"):
        return f"a schedule call raised {out['raised']} although no action raises"
    if out.get("hang"):
        return "the scheduling call did not return (event budget / 60 s) (livelock in the drain loop)"
    return thr_tramp.oracle_events(out["events"], case["prog"]) or thr_tramp.all_run(out["events"]) or (None if out["idle"] and out["queue"] == 0 else "trampoline not idle/empty after the run")


def _has(prog, kinds):
    return any(o[0] in kinds or (o[0] in ("sched", "rel", "abs") and _has(o[-1], kinds)) for o in prog)


def _nested(prog, d=0):
    return any(o[0] in ("sched", "rel", "abs") and (d >= 1 or _nested(o[-1], d + 1)) for o in prog)


def nontrivial(case, out):
    if case["op"] != "tr_seq":
        return True
    p = case["prog"]
    n = sum(1 for e in out["events"] if e[0] == "sched")
    return _nested(p) and (_has(p, ("rel", "abs", "cancel")) or n >= 3)


def bucket(case, out):
    if case["op"] != "tr_seq":
        return
    yield "sched:" + case["sched"]
    p = case["prog"]
    for k in ("rel", "abs", "cancel", "tick", "raise"):
        if _has(p, (k,)):
            yield "has:" + k
    if case.get("tz"):
        yield "abs-in-non-utc-zone"
    ev = out["events"]
    if any(e[0] == "wait" for e in ev):
        yield "waited"
    if any(e[0] == "skip" for e in ev):
        yield "skipped-cancelled"
    if any(e[0] == "sched" and e[2] < e[3] for e in ev):
        yield "past-due-schedule"
    yield f"actions:{min(8, sum(1 for e in ev if e[0] == 'start'))}"


def shrink(case):
    if case["op"] != "tr_seq":
        return

    def variants(prog):
        for i, o in enumerate(prog):
            yield prog[:i] + prog[i + 1:]
            if o[0] in ("sched", "rel", "abs"):
                for b in variants(o[-1]):
                    yield prog[:i] + [o[:-1] + [b]] + prog[i + 1:]

    for p in variants(case["prog"]):
        c = dict(case)
        c["prog"] = p
        yield c


# ----------------------------------------------------------------------------------------- threads
def impl_threads(case):
    cfg = case["cfg"]
    pre = {int(i): int(t) for i, t in case.get("pre", [])}
    return _one(cfg, pre)[1]  # the controller has its own watchdogs (status "hang" -> RuntimeError -> exit 2)


def _child(cfg, pre):
    return _one(cfg, pre)[1]


def _one(cfg, pre):
    from sched import thr_tramp

    res = thr_tramp.run_threads(cfg, pre)
    if res["status"] == "hang":  # a watchdog fired: retry once (an overloaded machine can starve the baton hand-over)
        res = thr_tramp.run_threads(cfg, pre)
    if res["status"] == "hang":
        raise RuntimeError(f"controller hang cfg={cfg} pre={pre}")
    trace, problems = thr_tramp.labels_of(res)
    return res, {"status": res["status"], "oracle": thr_tramp.oracle_threads(cfg, res), "problems": problems, "trace": trace,
                 "nchoices": len(res["choices"]), "steps": res["steps"]}


def _record(pre, summ, seen):
    h = fw.key(summ["trace"])
    r = {"pre": sorted(pre.items()), "status": summ["status"], "oracle": summ["oracle"], "problems": summ["problems"], "nchoices": summ["nchoices"]}
    if h not in seen:
        seen.add(h)
        r["trace"] = summ["trace"]
    return r


def explore_item(item):
    from sched import thr_ctl

    cfg, k = item["cfg"], item["k"]
    out, seen = [], set()

    def rec(pre, start, depth):
        res, summ = _one(cfg, pre)
        out.append(_record(pre, summ, seen))
        if depth >= k:
            return
        for i, t in thr_ctl.first_level(res["choices"], start):
            p2 = dict(pre)
            p2[i] = t
            rec(p2, i + 1, depth + 1)

    rec({int(i): int(t) for i, t in item["pre"]}, item["start"], item["depth"])
    return out


def sample_item(item):
    import random
    from sched import thr_ctl

    rng = random.Random(item["seed"])
    cfg = item["cfg"]
    base, _ = _one(cfg, {})
    out, seen = [], set()
    for _ in range(item["runs"]):
        pre = thr_ctl.sample_preempts(rng, base["choices"], item["n"])
        res, summ = _one(cfg, pre)
        out.append(_record(pre, summ, seen))
    return out


def _work(item):
    return sample_item(item) if item.get("sample") else explore_item(item)


def thread_configs(rng, tier):
    q = tier != "thorough"
    A = [["sched", 1, [["sched", 2, []], ["tick", 3]]]]
    B = [["sched", 11, [["sched", 12, []]]], ["sched", 13, []]]
    cfgs = [
        ("shared-1x1", {"kind": "shared", "progs": [[["sched", 1, []]], [["sched", 11, []]]]}, 2 if q else 3),
        ("shared-nested", {"kind": "shared", "progs": [A, B]}, 1 if q else 2),
        ("shared-cancel", {"kind": "shared", "progs": [[["sched", 1, [["sched", 2, []], ["cancel", 2]]]], [["sched", 11, []], ["cancel", 11]]]}, 1 if q else 2),
        ("ct-instance", {"kind": "ct", "progs": [A, B]}, 1 if q else 2),
        # timed items: a timed wait on a shared trampoline is woken early by another thread's schedule (notify)
        ("shared-timed", {"kind": "shared", "progs": [[["rel", 1, 10, []]], [["tick", 3], ["sched", 11, []]]]}, 1 if q else 2),
        ("shared-timed-late", {"kind": "shared", "progs": [[["rel", 1, 10, []]], [["tick", 3], ["rel", 11, 20, []]]]}, 1 if q else 2),
        ("ct-timed", {"kind": "cts", "progs": [[["rel", 1, 10, [["sched", 2, []]]]], [["tick", 4], ["rel", 11, 3, []]]]}, 1 if q else 2),
        ("ct-singleton", {"kind": "cts", "progs": [[["sched", 1, [["sched", 2, []]]]], [["sched", 11, [["sched", 12, []], ["cancel", 12]]]]]}, 1 if q else 2),
    ]
    # one generated untimed pair per run
    def small(base):
        for _ in range(50):
            p = _untimed(_Gen(rng, False, base=base).body(0, [], 0))[:2]
            if 2 <= _size(p) <= 5 and _has(p, ("sched",)):
                return p
        return [["sched", base, [["sched", base + 1, []]]]]

    pa, pb = small(1), small(100)
    cfgs.append(("shared-generated", {"kind": "shared", "progs": [pa, pb]}, 1))
    cfgs.append(("ct-generated", {"kind": "cts", "progs": [pa, pb]}, 1))
    return cfgs


def _untimed(prog):
    out = []
    for o in prog:
        if o[0] in ("rel", "abs"):
            out.append(["sched", o[1], _untimed(o[-1])])
        elif o[0] == "sched":
            out.append(["sched", o[1], _untimed(o[2])])
        else:
            out.append(o)
    return out


def _explore_all(items, procs, timeout):
    import signal

    def on_alarm(signum, frame):
        raise TimeoutError(f"thread exploration exceeded {timeout}s")

    old = signal.signal(signal.SIGALRM, on_alarm)
    signal.alarm(int(timeout))
    try:
        return fw.pmap("props.C30", "_work", items, procs=procs, chunk=1)
    finally:
        signal.alarm(0)
        signal.signal(signal.SIGALRM, old)


def _base_child(cfg):
    from sched import thr_tramp

    res = thr_tramp.run_threads(cfg, {})
    return {"choices": [list(c) for c in res["choices"]], "steps": res["steps"], "status": res["status"]}


def extra(rng, tier):
    from sched import thr_ctl

    failures, cov = [], {}
    procs = min(16, os.cpu_count() or 4)
    items, meta = [], {}
    for name, cfg, k in thread_configs(rng, tier):
        st, summ = fw.run_with_timeout(_base_child, (cfg,), timeout=60.0)
        if st != "ok":
            raise RuntimeError(f"controller base run failed for {name}: {st} {summ}")
        choices = [tuple(c) for c in summ["choices"]]
        meta[name] = {"k": k, "choice_points": len(choices), "steps": summ["steps"]}
        if summ["status"] not in ("ok", "idle"):
            # the default (fair, non-preemptive) schedule already fails: report it, do not enumerate thousands of such runs
            failures.append(fw.Failure("oracle", {"op": "threads", "cfg": cfg, "pre": []}, f"run ended with status {summ['status']} under the default schedule"))
            continue
        items.append({"name": name, "cfg": cfg, "pre": [], "start": 0, "depth": k, "k": k})
        for i, t in thr_ctl.first_level(choices):
            items.append({"name": name, "cfg": cfg, "pre": [[i, t]], "start": i + 1, "depth": 1, "k": k})
        ns = fw.tier_scale(tier, 120, 1200)
        for j in range(4):
            items.append({"name": name, "cfg": cfg, "sample": True, "seed": rng.randrange(1 << 30), "runs": ns // 4, "n": k + 1 + (j % 2)})
    results = _explore_all(items, procs, fw.tier_scale(tier, 400, 3000))
    for r in results:
        if isinstance(r, dict) and "harness_exception" in r:
            raise RuntimeError(f"thread exploration failed: {r['harness_exception']} {r.get('tb', '')}")
    reqs, owners = [], []
    nsched, ndistinct, statuses = {}, {}, {}
    for item, recs in zip(items, results):
        name, cfg = item["name"], item["cfg"]
        ntr = 1 if cfg["kind"] == "shared" else len(cfg["progs"])
        for r in recs:
            nsched[name] = nsched.get(name, 0) + 1
            statuses[r["status"]] = statuses.get(r["status"], 0) + 1
            case = {"op": "threads", "cfg": cfg, "pre": [list(p) for p in r["pre"]]}
            if r["oracle"]:
                failures.append(fw.Failure("oracle", case, r["oracle"], classify(case, r["oracle"])))
            if r["problems"]:
                failures.append(fw.Failure("correspondence", case, {"atomicity": r["problems"][:5]}))
            if "trace" in r:
                ndistinct[name] = ndistinct.get(name, 0) + 1
                reqs.append({"op": "tr_trace", "fixed": True, "clock": 0, "ntr": ntr,
                             "progs": [[0 if cfg["kind"] == "shared" else i, p] for i, p in enumerate(cfg["progs"])], "trace": r["trace"]})
                owners.append(case)
    pf = []
    if reqs:
        try:
            resps = fw.run_driver(DRIVER, reqs)
            for case, req, resp in zip(owners, reqs, resps):
                if not resp.get("ok"):
                    at = resp.get("at")
                    failures.append(fw.Failure("correspondence", case, {"trace_not_a_model_run_at": at,
                                                                        "observed": req["trace"][at] if at is not None and at < len(req["trace"]) else None,
                                                                        "model": resp.get("model"), "error": resp.get("error")}))
                elif not all(resp["final"]["done"]):
                    failures.append(fw.Failure("correspondence", case, {"model_threads_not_done": resp["final"]}))
        except Exception as e:  # noqa
            pf.append(f"model driver failed on thread traces: {e}")
    cov.update({"thread_schedules": nsched, "thread_distinct_traces": ndistinct, "thread_configs": meta, "thread_statuses": statuses,
                "thread_trace_replays": len(reqs)})
    return {"failures": failures, "coverage": cov, "proof_failures": pf}


def classify(case, why):
    return None


def search(rng, tier, disagreeing):
    for c in disagreeing[:60]:
        try:
            v = oracle(c, impl(c))
        except Exception:
            continue
        if v:
            return fw.Failure("oracle", c, v)
    for c in cases(rng, "quick"):
        v = oracle(c, impl(c))
        if v:
            return fw.Failure("oracle", c, v)
    return None


LEVEL_TEXT = ("Lean theorems over a small-step model of Trampoline.run/_run + TrampolineScheduler/CurrentThreadScheduler with actions as data "
              "(arbitrary finite trees of nested schedule/schedule_relative/schedule_absolute/cancel/tick): for every program, every clock behaviour "
              "(arbitrary time passing between steps) and anything other threads do: one action at a time and never nested (well-bracketed log, "
              "<=1 action and <=1 drain loop on the stack), an action scheduled during another starts only after it returned, FIFO among equal due "
              "times, due-time order when nothing is scheduled into the past, never before the due time, a cancelled action never starts. "
              "Multi-thread: a thread owning its trampoline evolves exactly as the single-thread machine under EVERY interleaving "
              "(per_thread_independent); on a shared trampoline the drain loop is mutually exclusive for any number of threads/schedules; with the "
              "proposed fix no enqueued action is lost; the code as it is loses one (decided counter-example, replayed on the real code).")
LEVEL_NOTE = ("Model = fixed exit path (fixes/C30_trampoline_lost_item.patch); until the patch is applied ./check C30 reports the lost-action "
              "schedules on a shared TrampolineScheduler as VIOLATION. Past-due schedule_absolute running after the pending ready batch "
              "(order A,B,C,P) is outside the property's quantifier (schedule/schedule_relative/cancel): tramp_due_order carries the hypothesis "
              "NoPast, which noPast_of_no_absolute discharges for schedule/schedule_relative; past_due_runs_after_batch documents the deviation. "
              "Raising actions (raise_resets_trampoline) and the early wake-up of a timed wait are modelled. Atomicity of the steps is validated by the "
              "controller (guarded fields touched only inside the trampoline lock; every locked section = one model step), not proved.")

"""C02 — termination releases every source subscription (DESIGN.md §5 C02)."""
import fw
import pipecheck
import pipes
import customsrc
import trampipes
from pipecheck import canon_impl, canon_model  # noqa: F401

LEAN_TARGETS = ["RxProofs.C02", "RxProofs.Ownership", "RxProofs.C02Comb", "RxProofs.C02Timed", "RxProofs.C02Win"]
DRIVER = "drv_pipe"
DRIVER_ROOT = "Pipe"
SUPPORT_THEOREMS = ['C02Comb.terminal_releases_all_zip', 'C02Comb.terminal_releases_all_combine_latest', 'C02Comb.terminal_releases_all_with_latest_from', 'C02Comb.terminal_releases_all_fork_join', 'C02Comb.terminal_releases_all_amb', 'C02Comb.terminal_releases_all_amb2', 'C02Comb.terminal_releases_all_merge_all', 'C02Comb.terminal_releases_all_merge_maxc', 'C02Comb.terminal_releases_all_switch', 'C02Comb.terminal_releases_all_seq', 'C02Comb.terminal_releases_all_seq_inline', 'C02Comb.terminal_releases_all_catch_handler', 'C02Win.terminal_releases_all_count', 'C02Win.terminal_releases_all_boundaries', 'C02Win.terminal_releases_all_when', 'C02Win.terminal_releases_all_toggle', 'C02Win.terminal_releases_all_time', 'C02Win.terminal_releases_all_time_or_count', 'C02Win.terminal_releases_all_group', 'C02Comb.terminal_releases_all', 'C02Timed.terminal_releases_all', 'C02Timed.owned_step', 'C02Win.using_releases_all', 'C02Win.finally_action_releases_all', 'C02Win.terminal_releases_all_fin_partial']
THEOREMS = SUPPORT_THEOREMS + ["C02.settle_closed", "C02.closed_always", "C02.graph_dispose_transitive", "C02.pipeline_release",
            "C02.late_attach_disposed", "C02.disposed_forever", "C02.terminal_disposes_root", "Ownership.ownership_ok",
            "Ownership.ownership_nonvacuous"]
RULE = ("generated pipelines of 1..3 catalogued operator stages (122 stage kinds) over 4 logged cold/hot test sources with generated "
        "timelines (completion, error, never); every direct container call of the run is recorded and replayed through the Lean heap "
        "model (flags compared at every quiescent point); oracle: every test-source subscription is closed no later than the subscriber's "
        "terminal notification. plus default-scheduler runs (harness/trampipes.py): trees of cold synchronous producers and combinators on "
        "the current-thread trampoline, never disposed; oracle: once the terminal was delivered and the trampoline drained, every leaf "
        "subscription that was opened has been released exactly once. plus user-defined sources (reactivex.create / Observable(subscribe)) returning "
        "their teardown in every form the library accepts: the teardown runs exactly once when the terminal is delivered. non-trivial = the subscriber got a terminal and at least two "
        "source subscriptions were opened")
ASSUMPTIONS = ["a cleanup callback that raises (stage finally_raises) is only placed where no sibling subscription is released after it: the disposable containers are not exception-safe, and raising cleanup callbacks are outside the property's quantifier; such cases are judged by the release oracle only (no heap-model replay)",
               "windows and groups are flattened inside the generated pipelines, so the subscriber holds no live group/window after the terminal",
               "single-threaded execution: virtual time for timelines, the default current-thread trampoline for cold synchronous producers"]
TRUSTED_EXTRA = ["AST ownership translator harness/xlate/ownership.py (fails closed: unknown shapes are not 'owned')",
                 "class-level recording wrappers on the real disposable classes (harness/heaptrace.py)",
                 "harness/trampipes.py: default-scheduler runs on a fresh thread per case; leaf subscriptions marked by a defer factory (opened) and a finally_action (released)"]
LEVEL_TEXT = ("Lean theorems over ALL sequences of container calls on a heap of disposables (Composite/Serial/SingleAssignment/MultipleAssignment/"
              "RefCount/inner/leaf): the heap is closed after every call, dispose(root) disposes everything reachable through owning edges "
              "(through a RefCountDisposable once its dependents are released), late attachments are disposed at once, nothing is un-disposed; "
              "C01 links a delivered terminal to dispose(root). Ownership of every acquired subscription by the returned disposable is a table "
              "regenerated from the source on every run and checked by `decide`. The heap model is tied to the code by replaying the recorded "
              "container calls of real generated pipelines and comparing every is_disposed flag; a release oracle runs on the same pipelines.")
LEVEL_NOTE = ("Per-operator release theorems (every event trace): combinators C02Comb.*, timed operators C02Timed.*, windows/groups/using/finally C02Win.* — proved by the families' builders over their trace machines and audited here. Otherwise partial by catalogue: `pipeline_release` assumes each source subscription is reachable from the root (ownership, K2); that is the "
              "regenerated AST table (161 call sites; 2 justified exceptions) plus the dynamic replay/oracle over the generated pipelines, not a "
              "per-operator Lean proof. Disposable actions (closures) are leaves of the model: their effects enter as recorded calls.")
TECHNIQUE = "Lean 4 invariant proofs over a disposable-heap model + regenerated ownership table (decide) + recorded-trace correspondence"

regenerate = pipecheck.regenerate


def cases(rng, tier):
    n = fw.tier_scale(tier, 900, 12000)
    for p in pipes.gen_systematic(rng, fw.tier_scale(tier, 4, 12)):
        yield {"op": "pipeline", "pipeline": p}
    for _ in range(n):
        yield {"op": "pipeline", "pipeline": pipes.gen_case(rng, 3)}
    # the subscriber's own terminal handler raises after it received the notification: the release must not depend on it
    for _ in range(n // 4):
        yield {"op": "pipeline", "pipeline": pipes.gen_case(rng, 3), "sub_raises": True}
    for _ in range(fw.tier_scale(tier, 500, 6000)):
        yield {"op": "tramp", "tree": trampipes.gen_tree(rng, 3), "k": None}
    for _ in range(fw.tier_scale(tier, 300, 3000)):
        yield dict(customsrc.gen(rng), dispose_after=None)


def model_request(case):
    return None if case["op"] in ("tramp", "custom") else pipecheck.model_request(case)


def impl(case):
    if case["op"] == "custom":
        return customsrc.run(case)
    if case["op"] == "tramp":
        try:
            return trampipes.run(case)
        except Exception as e:  # noqa: BLE001 - a generated tree the library rejects when it is built
            return {"log": [], "mark": None, "rejected": type(e).__name__, "base": []}
    out = pipes.run(case["pipeline"], sub_raises=case.get("sub_raises", False))
    return {"log": out["log"], "subs": out["subs"], "escaped": out["escaped"]}


def oracle(case, out):
    if case["op"] == "custom":
        return customsrc.oracle(case, out)
    if case["op"] == "tramp":
        return None if out.get("rejected") else trampipes.released(out)
    term = [t for t, n in out["log"] if n[0] in ("E", "C")]
    if not term:
        return None
    T = term[0]
    for si, subs in enumerate(out["subs"]):
        for a, b in subs:
            if b is None or b > T:
                return f"source {si} subscription ({a}, {b}) outlives the subscriber's terminal at {T}"
    return None


def nontrivial(case, out):
    if case["op"] == "custom":
        return any(g[0] in ("E", "C") for g in out["got"]) and out["subscribed"] > 0 and case["form"] != "none"
    if case["op"] == "tramp":
        return any(e[0] in ("E", "C") for e in out["log"]) and sum(1 for e in out["log"] if e[0] == "sub") >= 2
    return any(n[0] in ("E", "C") for _, n in out["log"]) and sum(len(s) for s in out["subs"]) >= 2


def bucket(case, out):
    if case["op"] == "custom":
        yield "custom-source:" + case["form"]
        return
    if case["op"] == "tramp":
        yield "tramp:" + ("terminal" if any(e[0] in ("E", "C") for e in out["log"]) else "rejected" if out.get("rejected") else "no-terminal")
        return
    for s in case["pipeline"]["stages"]:
        yield "stage:" + s[0]
    if case.get("sub_raises"):
        yield "subscriber-terminal-handler-raises"
    yield "terminal" if any(n[0] in ("E", "C") for _, n in out["log"]) else "no-terminal"


def shrink(case):
    if case["op"] == "custom":
        for i in range(len(case["stages"])):
            yield dict(case, stages=case["stages"][:i] + case["stages"][i + 1:])
        return
    if case["op"] == "tramp":
        import props.C03 as c03
        for t in c03._subtrees(case["tree"]):
            yield dict(case, tree=t)
        return
    p = case["pipeline"]
    for i in range(len(p["stages"])):
        if len(p["stages"]) > 1:
            yield dict(case, pipeline={"sources": p["sources"], "stages": p["stages"][:i] + p["stages"][i + 1:]})
    for s in range(len(p["sources"])):
        for i in range(len(p["sources"][s]["msgs"])):
            srcs = [dict(x, msgs=list(x["msgs"])) for x in p["sources"]]
            del srcs[s]["msgs"][i]
            yield dict(case, pipeline={"sources": srcs, "stages": p["stages"]})


def search(rng, tier, disagreeing):
    """failing-input search on the real code: stages of the disagreeing cases and of the ownership rows that are not owned"""
    names = set()
    for c in disagreeing:
        if c["op"] == "pipeline":
            names.update(s[0] for s in c["pipeline"]["stages"])
    names.update(pipecheck.stages_for_rows(pipecheck.regenerate()["ownership_not_owned"]))
    names = sorted(n for n in names if n in pipes.STAGES) or None
    for i in range(fw.tier_scale(tier, 6000, 40000)):
        c = {"op": "pipeline", "pipeline": pipes.gen_case(rng, 2 if i % 2 else 3, names if i % 4 else None)}
        if i % 3 == 0:
            c["sub_raises"] = True
        v = oracle(c, impl(c))
        if v:
            f = fw.Failure("oracle", c, v)
            return fw.shrink_failure(__import__("props.C02", fromlist=["x"]), f)
    for i in range(fw.tier_scale(tier, 1500, 6000)):
        c = dict(customsrc.gen(rng), dispose_after=None)
        v = oracle(c, impl(c))
        if v:
            return fw.shrink_failure(__import__("props.C02", fromlist=["x"]), fw.Failure("oracle", c, v))
    for i in range(fw.tier_scale(tier, 1500, 10000)):
        c = {"op": "tramp", "tree": trampipes.gen_tree(rng, 3), "k": None}
        v = oracle(c, impl(c))
        if v:
            return fw.shrink_failure(__import__("props.C02", fromlist=["x"]), fw.Failure("oracle", c, v))
    return None

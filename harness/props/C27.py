"""C27 — RefCountDisposable releases its resource only after all dependents (DESIGN.md §5 C27)."""
import fw
from sched import disp_oracle as do
from sched import disp_prop as dp

LEAN_TARGETS = ["RxProofs.C27", "RxProofs.C26Heap"]
DRIVER = "drv_disp"
DRIVER_ROOT = "Disp"
PROCS = 1  # histories take microseconds; a process pool costs more than it saves
THEOREMS = [
    "C27.refcount_count_invariant",
    "C27.underlying_at_most_once",
    "C27.only_after_primary_and_all_dependents",
    "C27.underlying_exactly_once",
    "C27.underlying_kept_while_needed",
    "C27.inner_double_dispose_releases_once",
    "C27.late_dependents_inert",
    "C26Heap.refcount_refines_heap",  # the C02/C03 heap model of RefCount+Inner is this class model (refinement)
]
RULE = ("(a) call histories of 0..16 (thorough 0..40) get-dependent / dispose-dependent (any earlier handle, also repeatedly) / "
        "dispose-primary calls; compared per call: result, underlying dispose count, is_disposed, is_primary_disposed, kind of every "
        "dependent handed out (InnerDisposable vs inert); non-trivial = >=2 call kinds and >=1 dependent disposed. (b) 2-3 real threads "
        "with 1-3 calls each after a set-up prefix, ALL schedules with <=2 (thorough <=3) preemptions; non-trivial = >=1 preemption")
ASSUMPTIONS = [
    "a `with self.lock:` block is atomic w.r.t. other threads using the same lock; release() is only called by InnerDisposable.dispose (it is public, direct calls are outside the property)",
    "thread correspondence explores schedules at the granularity of visible operations (lock blocks, unlocked accesses of traced attributes, call-outs)",
]
TRUSTED_EXTRA = ["interleaving controller harness/sched/disp_ctl.py (instrumented RLock, traced attributes) - search/validation tool only"]
TECHNIQUE = "Lean 4 invariants of an atomic-step thread system (any number of threads, any programs, any schedule) + differential histories + enumerated real-thread schedules replayed in the model"


def gen_history(rng, tier):
    n = rng.choice([0, 1, 2, 3, 4, 5, 6, 8, 10, 12, 16] + ([24, 40] if tier == "thorough" else []))
    ops = []
    gets = 0
    for _ in range(n):
        k = rng.choice(["get"] * 4 + ["rel"] * 5 + ["relm"] * 2 + ["dispose"] * (1 if rng.random() < 0.7 else 3))
        if k == "get":
            ops.append(["get"])
            gets += 1
        elif k in ("rel", "relm"):
            h = rng.randrange(gets) if gets and rng.random() < 0.95 else gets + rng.randrange(2)
            ops.append([k, h])
        else:
            ops.append(["dispose"])
    return {"op": "history", "cls": "refcount", "items": 1, "threads": [ops]}


def cases(rng, tier):
    for _ in range(fw.tier_scale(tier, 2500, 25000)):
        yield gen_history(rng, tier)
    yield {"op": "history", "cls": "refcount", "items": 1, "threads": [[["get"], ["get"], ["dispose"], ["rel", 0], ["rel", 0], ["rel", 1], ["get"], ["rel", 2]]]}


def model_request(case):
    return dp.history_request(case)


impl = dp.impl
canon_impl = dp.canon_history_impl
canon_model = dp.canon_history_model


def oracle(case, out):
    if case.get("op") == "threads":
        if out.get("error"):
            return f"execution failed: {out['error']}"
        return do.c27_threads(case["scenario"], out["trace"], out["final"])
    return do.c27_history(case, out)


def nontrivial(case, out):
    if case.get("op") != "history":
        return True
    ops = case["threads"][0]
    return len({o[0] for o in ops}) >= 2 and any(o[0] in ("rel", "relm") for o in ops) and any(o[0] == "get" for o in ops)


def bucket(case, out):
    if case.get("op") != "history" or not out:
        return
    fin = out[-1][1]
    yield "released" if fin["cnt"][0] else ("primary-only" if fin["is_primary_disposed"] else "live")
    if "inert" in fin["deps"]:
        yield "late-inert-dependent"
    seen = set()
    for op in case["threads"][0]:
        if op[0] == "rel":
            if op[1] in seen:
                yield "double-dispose-of-dependent"
                break
            seen.add(op[1])
    prim = False
    for op in case["threads"][0]:
        if op[0] == "dispose":
            if prim:
                yield "primary-twice"
                break
            prim = True


shrink = dp.shrink_history


def search(rng, tier, disagreeing):
    for c in disagreeing[:40]:
        for c2 in [c] + (list(shrink(c))[:40] if c.get("op") == "history" else []):
            v = oracle(c2, impl(c2))
            if v:
                return fw.Failure("oracle", c2, v)
    return None


def S(setup, threads):
    return {"cls": "refcount", "items": 1, "setup": setup, "threads": threads}


G, DP = ["get"], ["dispose"]
SCENARIOS = [
    S([G], [[DP], [["rel", 0]]]),
    S([G, G], [[DP], [["rel", 0], ["rel", 0]], [["rel", 1]]]),
    S([G], [[["rel", 0]], [["rel", 0]], [DP]]),
    S([], [[G, ["relm", 0]], [DP]]),
    S([G], [[DP, G, ["relm", 0]], [["rel", 0]]]),
    S([], [[G, ["relm", 0]], [G, ["relm", 0]], [DP]]),
    S([G], [[DP], [DP], [["rel", 0]]]),
    S([G, G], [[["rel", 0], ["rel", 1]], [["rel", 1], ["rel", 0]], [DP]]),
]


def gen_scenario(rng):
    ns = rng.choice([0, 1, 2])
    threads = []
    for _ in range(rng.choice([2, 2, 3])):
        prog = []
        mine = 0
        for _ in range(rng.choice([1, 2, 2, 3])):
            k = rng.choice(["get", "rel", "rel", "relm", "dispose"])
            if k == "rel" and ns:
                prog.append(["rel", rng.randrange(ns)])
            elif k == "relm" and mine:
                prog.append(["relm", rng.randrange(mine)])
            elif k == "dispose":
                prog.append(DP)
            else:
                prog.append(G)
                mine += 1
        threads.append(prog)
    return S([G] * ns, threads)


def extra(rng, tier):
    scs = SCENARIOS + [gen_scenario(rng) for _ in range(fw.tier_scale(tier, 8, 40))]
    parts = [("", dp.thread_check(scs, do.c27_threads, tier, accept=True))]
    if tier == "thorough":
        parts.append(("lines", dp.thread_check(SCENARIOS, do.c27_threads, tier, accept=False, lines=True, bound=2, budget_s=120)))
    return dp.merge_extra(parts)


LEVEL_TEXT = ("Lean theorems for any number of threads running arbitrary programs of get-dependent / dispose-dependent / dispose-primary "
              "under any schedule: count = live dependents + in-flight releases (and incs = decs + live + in-flight, so a dependent "
              "decrements at most once however often it is disposed); the underlying resource is disposed at most once, and whenever it "
              "is (or is about to be) the primary was disposed and no dependent is live; exactly once at quiescence if the primary and "
              "all dependents were disposed, not at all otherwise; dependents requested after the release are inert and is_disposed is "
              "stable. Tied to the code by differential histories and enumerated schedules of 2-3 real threads replayed in the model.")
LEVEL_NOTE = ("release() is modelled only as called by InnerDisposable.dispose (a direct external call can drive count negative - outside "
              "the property). Atomicity of lock blocks is assumed (validated by the controller), not proved.")

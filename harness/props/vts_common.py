"""Shared real-code adapter, generators and event-trace helpers for the Vts family (C28, C29, C42, C35).

A *script* case is
  {"op": "vts_script", "sched": "test"|"vts"|"hist", "clock": c0, "bump": 1|1000, "ops": [...],
   "handler_true": [names], "handler_default": false}
ops:     ["sched", wrapped, mode, t, action] | ["cancel", id] | ["start"] | ["stop"] | ["advance_to", t]
         | ["advance_by", t] | ["sleep", t]
action:  {"id": n, "steps": [step...], "raise": null|"name"}
step:    ["sched", via, mode, t, action] | ["cancel", id] | ["stop"] | ["sleep", t]
Times are integers: ticks (= seconds) on the numeric schedulers, microseconds since UTC_ZERO on HistoricalScheduler.
"""
import os
import pickle
import select
import signal
import time as _time

import fw
from fw import InjectedError, err_name

WATCHDOG_S = float(os.environ.get("VERIF_VTS_WATCHDOG", "8"))


# --------------------------------------------------------------------------- watchdog usable inside pool workers
def fork_timeout(fn, args=(), timeout=WATCHDOG_S):
    """Run fn(*args) in an os.fork()ed child (multiprocessing children may not be started from the daemonic pool
    workers fw.pmap uses).  Returns ("ok", result) | ("exc", text) | ("timeout", None)."""
    r, w = os.pipe()
    _preimport()
    pid = os.fork()
    if pid == 0:
        code = 0
        try:
            os.close(r)
            try:
                payload = pickle.dumps(("ok", fn(*args)))
            except BaseException as e:  # noqa
                import traceback

                payload = pickle.dumps(("exc", f"{type(e).__name__}: {e}\n{traceback.format_exc()[-1500:]}"))
            with os.fdopen(w, "wb") as f:
                f.write(payload)
        except BaseException:  # noqa
            code = 1
        finally:
            os._exit(code)
    os.close(w)
    buf = b""
    deadline = _time.time() + timeout
    res = None
    try:
        while True:
            left = deadline - _time.time()
            if left <= 0:
                res = ("timeout", None)
                break
            rl, _, _ = select.select([r], [], [], left)
            if not rl:
                res = ("timeout", None)
                break
            chunk = os.read(r, 1 << 16)
            if not chunk:
                break
            buf += chunk
    finally:
        os.close(r)
        if res is not None:
            try:
                os.kill(pid, signal.SIGKILL)
            except ProcessLookupError:
                pass
        try:
            os.waitpid(pid, 0)
        except ChildProcessError:
            pass
    if res is not None:
        return res
    try:
        return pickle.loads(buf)
    except Exception:
        return ("exc", "child died without a result")


# --------------------------------------------------------------------------- real schedulers
class Rig:
    """One real scheduler (+ a CatchScheduler over it) and the recorded event trace."""

    def __init__(self, case):
        from datetime import timedelta

        from reactivex.internal.constants import UTC_ZERO
        from reactivex.scheduler import CatchScheduler, HistoricalScheduler, VirtualTimeScheduler
        from reactivex.testing import TestScheduler

        self.kind = case["sched"]
        self.UTC_ZERO = UTC_ZERO
        self.timedelta = timedelta
        self.VTS = VirtualTimeScheduler
        c0 = case.get("clock", 0)
        self.tz = None
        if self.kind == "hist" and case.get("tz_offset_min") is not None:
            from datetime import timezone

            self.tz = timezone(timedelta(minutes=case["tz_offset_min"]))   # aware datetimes written in a non-UTC zone
        if self.kind == "hist":
            init = UTC_ZERO + timedelta(microseconds=c0)
            self.s = HistoricalScheduler(init.astimezone(self.tz) if self.tz is not None else init)
        elif self.kind == "test":
            self.s = TestScheduler(c0)
        else:
            self.s = VirtualTimeScheduler(c0)
        true_for = set(case.get("handler_true", []))
        dflt = bool(case.get("handler_default", False))
        seq = case.get("handler_seq", [])   # verdicts by position of the handler call (None = by name): a stateful handler
        self.hlog = []
        self.shared_exc = {}                # exception names starting with "S" are ONE instance per name, raised repeatedly

        def handler(ex):
            n = err_name(ex)
            k = len(self.hlog)
            self.hlog.append(n)
            if k < len(seq) and seq[k] is not None:
                return bool(seq[k])
            return (not dflt) if n in true_for else dflt

        self.catch = CatchScheduler(self.s, handler)
        self.handles = {}
        self.events = []  # the trace the oracles read
        self.log = []
        self.nsched = 0

    # -- time conversions (integers only)
    def abs_(self, t):
        if self.kind != "hist":
            return t
        d = self.UTC_ZERO + self.timedelta(microseconds=t)
        return d.astimezone(self.tz) if self.tz is not None else d   # the same instant, written in the case's zone

    def rel(self, t):
        return self.timedelta(microseconds=t) if self.kind == "hist" else t

    def clock(self):
        c = self.s._clock
        if self.kind == "hist":
            d = c - self.UTC_ZERO
            return (d.days * 86400 + d.seconds) * 1000000 + d.microseconds
        if isinstance(c, float):
            if c != int(c):
                raise AssertionError(f"non-integral clock {c!r}")
            return int(c)
        return int(c)

    def make_exc(self, name):
        if name.startswith("S"):
            if name not in self.shared_exc:
                self.shared_exc[name] = InjectedError(name)
            return self.shared_exc[name]
        return InjectedError(name)

    # -- actions
    def make_action(self, node):
        nid = node["id"]

        def action(scheduler, state=None):
            now = self.clock()
            self.log.append([nid, now])
            self.events.append(["run", nid, now])
            try:
                for st in node["steps"]:
                    self.step(scheduler, st)
                if node.get("raise") is not None:
                    raise self.make_exc(node["raise"])
            except Exception as e:  # noqa  recorded for the oracles, then passed on unchanged
                self.events.append(["raise", nid, err_name(e)])
                raise
            finally:
                self.events.append(["end", nid, self.clock()])
            if node.get("ret") is not None:
                self.events.append(["ret", nid, node["ret"]])
                return self.handles[node["ret"]]   # the action hands back the disposable of follow-up work it scheduled
            return None

        return action

    def schedule_on(self, target, mode, t, node):
        act = self.make_action(node)
        now = self.clock()
        due = now if mode == "imm" else (now + t if mode == "rel" else t)
        self.events.append(["sched", node["id"], due, self.nsched])
        self.nsched += 1
        if mode == "imm":
            d = target.schedule(act)
        elif mode == "rel":
            d = target.schedule_relative(self.rel(t), act)
        else:
            d = target.schedule_absolute(self.abs_(t), act)
        self.handles[node["id"]] = d

    def step(self, scheduler, st):
        k = st[0]
        if k == "sched":
            via = st[1]
            target = scheduler if via == "handed" else (self.s if via == "inner" else self.catch)
            self.schedule_on(target, st[2], st[3], st[4])
        elif k == "cancel":
            self.events.append(["cancel", st[1]])
            d = self.handles.get(st[1])
            if d is not None:
                d.dispose()
        elif k == "stop":
            self.events.append(["stop"])
            self.s.stop()
        elif k == "sleep":
            self.s.sleep(self.rel(st[1]))
        elif k in ("advance_to", "advance_by"):
            # a RE-ENTRANT control call on the scheduler that is running this action
            try:
                if k == "advance_to":
                    self.s.advance_to(self.abs_(st[1]))
                else:
                    self.s.advance_by(self.rel(st[1]))
            except Exception as e:  # noqa
                if not (st[2] and type(e).__name__ == "ArgumentOutOfRangeException"):
                    raise
        elif k == "start":
            self.VTS.start(self.s)
        else:
            raise ValueError(k)

    # -- top-level calls
    def do(self, i, op):
        k = op[0]
        self.events.append(["op", i, op[0], op[1] if len(op) == 2 else None, self.clock(), bool(self.s._is_enabled)])
        out = "ok"
        try:
            if k == "sched":
                self.schedule_on(self.catch if op[1] else self.s, op[2], op[3], op[4])
            elif k == "cancel":
                self.events.append(["cancel", op[1]])
                d = self.handles.get(op[1])
                if d is not None:
                    d.dispose()
            elif k == "start":
                self.VTS.start(self.s)  # TestScheduler.start() adds its own create/subscribe/dispose actions
            elif k == "stop":
                self.s.stop()
            elif k == "advance_to":
                self.s.advance_to(self.abs_(op[1]))
            elif k == "advance_by":
                self.s.advance_by(self.rel(op[1]))
            elif k == "sleep":
                self.s.sleep(self.rel(op[1]))
            else:
                raise ValueError(k)
        except Exception as e:  # noqa  what the caller of the scheduler sees
            if type(e).__name__ in ("InjectedError", "ArgumentOutOfRangeException"):
                out = ["raised", err_name(e)]
            else:  # anything else is unexpected: keep the message so that it is visible in the diff
                out = ["raised", f"{type(e).__name__}: {e}"]
        self.events.append(["opend", i, out, self.clock(), bool(self.s._is_enabled)])
        return out


def _run_script(case):
    rig = Rig(case)
    outs = []
    for i, op in enumerate(case["ops"]):
        outs.append(rig.do(i, op))
    return {"outs": outs, "log": rig.log, "clock": rig.clock(), "enabled": bool(rig.s._is_enabled),
            "pending": len(rig.s._queue), "hlog": rig.hlog, "events": rig.events}


class _Watchdog(BaseException):
    pass


_FROZEN = False


def _freeze_inherited_heap():
    """fw.pmap forks its workers from a parent that holds the whole case list (millions of container objects in the thorough
    tier).  A full (generation-2) collection in a worker would walk and dirty all of those copy-on-write pages — observed as
    10..18 s stalls inside one case, i.e. false watchdog hits.  gc.freeze() (made for exactly this) parks everything that
    exists now in the permanent generation; later collections only look at what the cases themselves allocate."""
    global _FROZEN
    if not _FROZEN:
        import gc

        gc.freeze()
        _FROZEN = True


def _preimport():
    """everything the adapters import, loaded BEFORE the watchdog is armed: an alarm in the middle of an import would
    leave half-initialised modules behind (and a loaded machine can take seconds to import asyncio)"""
    import asyncio  # noqa: F401
    import datetime  # noqa: F401

    import reactivex  # noqa: F401
    import reactivex.internal.constants  # noqa: F401
    import reactivex.scheduler  # noqa: F401
    import reactivex.testing  # noqa: F401


def alarm_timeout(fn, args=(), timeout=WATCHDOG_S):
    """In-process watchdog: SIGALRM interrupts both a blocked `Lock.acquire()` and a spinning loop (CPython runs signal
    handlers between bytecodes and while waiting for a lock).  Only usable in a main thread (fw.pmap workers are)."""
    def on_alarm(signum, frame):
        raise _Watchdog()

    _preimport()
    _freeze_inherited_heap()
    old = signal.signal(signal.SIGALRM, on_alarm)
    signal.setitimer(signal.ITIMER_REAL, timeout)
    try:
        return ("ok", fn(*args))
    except _Watchdog:
        return ("timeout", None)
    finally:
        signal.setitimer(signal.ITIMER_REAL, 0)
        signal.signal(signal.SIGALRM, old)


def run_script(case):
    """impl for script cases, under the watchdog: a hang is reported, never suffered."""
    import threading

    if threading.current_thread() is threading.main_thread():
        st, res = alarm_timeout(_run_script, (case,))
    else:
        st, res = fork_timeout(_run_script, (case,))
    if st == "ok":
        return res
    if st == "timeout":
        return {"hang": True, "watchdog_s": WATCHDOG_S}
    raise RuntimeError(res)


COMPARED = ("outs", "log", "clock", "enabled", "pending", "hlog")


def canon_impl(case, out):
    if out.get("hang"):
        return {"hang": True}
    return {k: out[k] for k in COMPARED}


def canon_model(case, resp):
    if isinstance(resp, dict) and "error" in resp:
        return resp
    if "stuck" in resp.get("outs", []):
        return {"hang": True}
    return {k: resp[k] for k in COMPARED}


def model_request(case):
    return {k: case[k] for k in ("op", "clock", "bump", "ops", "handler_true", "handler_default", "handler_seq") if k in case}


# --------------------------------------------------------------------------- generators
class Gen:
    def __init__(self, rng, unit=1, max_depth=3, raise_p=0.0, via_p=0.0, stop_p=0.03, sleep_p=0.1, cancel_p=0.15,
                 tmax=12, ctl_p=0.0, ret_p=0.0):
        self.rng = rng
        self.unit = unit
        self.next_id = 1
        self.max_depth = max_depth
        self.raise_p = raise_p
        self.via_p = via_p
        self.stop_p = stop_p
        self.sleep_p = sleep_p
        self.cancel_p = cancel_p
        self.tmax = tmax
        self.ctl_p = ctl_p   # re-entrant advance_to/advance_by/start from inside actions
        self.ret_p = ret_p   # the action returns the handle of one of the children it scheduled

    def t_rel(self):
        r = self.rng.random()
        if r < 0.3:
            return 0
        if r < 0.35:
            return -self.unit * self.rng.randrange(1, 4)
        return self.unit * self.rng.randrange(1, self.tmax)

    def t_abs(self, around):
        return around + self.unit * self.rng.choice([-3, -1, 0, 0, 1, 2, 3, 5, 8])

    def action(self, depth, clock_hint):
        rng = self.rng
        nid = self.next_id
        self.next_id += 1
        steps = []
        n = rng.choice([0, 0, 1, 1, 2, 3]) if depth < self.max_depth else 0
        for _ in range(n):
            if rng.random() < self.ctl_p and not any(s[0] == "stop" for s in steps):
                # (never after a stop() in the same body: the real code would then run a nested loop, which is not modelled)
                c = rng.randrange(6)
                d = clock_hint + self.unit * rng.choice([-4, 0, 0, 3, 10])
                steps.append([["advance_to", d, rng.random() < 0.6], ["advance_to", clock_hint + self.unit * 50, False],
                              ["advance_by", 0, False], ["advance_by", self.unit * rng.choice([-2, 1, 5]), rng.random() < 0.7],
                              ["start"], ["advance_to", clock_hint - self.unit * 100, True]][c])
                continue
            r = rng.random()
            if r < self.cancel_p:
                steps.append(["cancel", rng.randrange(1, max(2, self.next_id + 2))])
            elif r < self.cancel_p + self.sleep_p:
                steps.append(["sleep", self.unit * rng.choice([0, 1, 2, 5])])
            elif r < self.cancel_p + self.sleep_p + self.stop_p:
                steps.append(["stop"])
            else:
                mode = rng.choice(["imm", "rel", "rel", "abs"])
                t = 0 if mode == "imm" else (self.t_rel() if mode == "rel" else self.t_abs(clock_hint))
                via = "handed"
                if rng.random() < self.via_p:
                    via = rng.choice(["inner", "outer"])
                steps.append(["sched", via, mode, t, self.action(depth + 1, clock_hint + (t if mode == "rel" else 0))])
        raise_ = None
        if rng.random() < self.raise_p:
            raise_ = f"e{nid}"
        node = {"id": nid, "steps": steps, "raise": raise_}
        kids = [st[4]["id"] for st in steps if st[0] == "sched"]
        if kids and rng.random() < self.ret_p:
            node["ret"] = rng.choice(kids)
        return node


def action_ids(node):
    yield node["id"]
    for st in node["steps"]:
        if st[0] == "sched":
            yield from action_ids(st[4])


def script_ids(case):
    for op in case["ops"]:
        if op[0] == "sched":
            yield from action_ids(op[4])


def shrink_script(case):
    ops = case["ops"]
    for i in range(len(ops)):
        c = dict(case)
        c["ops"] = ops[:i] + ops[i + 1:]
        yield c
    for i, op in enumerate(ops):
        if op[0] == "sched":
            node = op[4]
            for j in range(len(node["steps"])):
                n2 = dict(node)
                n2["steps"] = node["steps"][:j] + node["steps"][j + 1:]
                c = dict(case)
                c["ops"] = ops[:i] + [op[:4] + [n2]] + ops[i + 1:]
                yield c
            if node.get("raise") is not None:
                n2 = dict(node)
                n2["raise"] = None
                c = dict(case)
                c["ops"] = ops[:i] + [op[:4] + [n2]] + ops[i + 1:]
                yield c


# --------------------------------------------------------------------------- periodic scripts (C35, C42)
# case: {"op": "per_script", "sched": kind, "clock": c0, "fns": [{"pid", "raise_at", "sleep_at", "dispose_at"}], "ops": [...],
#        "handler_true": [...], "handler_default": bool, "via": "schedule_periodic" | "interval" | "timer"}
# ops: ["periodic", pid, period, state, catch] | ["dispose_at", t, pid] | ["dispose_now", pid] | ["advance_to", t] | ["stop"]
def _run_periodic(case):
    rig = Rig(case)
    fns = {f["pid"]: f for f in case.get("fns", [])}
    via = case.get("via", "schedule_periodic")
    log = []
    outs = []
    events = rig.events

    def make_action(pid):
        fn = fns.get(pid, {"raise_at": [], "sleep_at": [], "dispose_at": []})
        sleep_at = {a: b for a, b in fn["sleep_at"]}

        def action(state):
            log.append([pid, rig.clock(), state])
            events.append(["tick", pid, rig.clock(), state])
            if state in sleep_at:
                rig.s.sleep(rig.rel(sleep_at[state]))
            if state in fn["dispose_at"]:
                events.append(["dispose", pid, rig.clock()])
                rig.handles[pid].dispose()
            if state in fn["raise_at"]:
                events.append(["raise", pid, f"p{pid}s{state}"])
                raise rig.make_exc(f"p{pid}s{state}")
            return state + 1

        return action

    for i, op in enumerate(case["ops"]):
        k = op[0]
        out = "ok"
        try:
            if k == "periodic":
                _, pid, period, st, catch = op[:5]
                via = op[5] if len(op) > 5 else case.get("via", "schedule_periodic")
                events.append(["periodic", pid, rig.clock(), period, st])
                target = rig.catch if catch else rig.s
                if via == "schedule_periodic":
                    rig.handles[pid] = target.schedule_periodic(rig.rel(period), make_action(pid), st)
                else:
                    import reactivex

                    fn = make_action(pid)

                    def on_next(v, fn=fn):
                        fn(v)

                    if case.get("op_level"):
                        # scheduler given to the OPERATOR; a different, never-started scheduler given to subscribe(): the
                        # operator-level one must be used
                        src = (reactivex.interval(rig.rel(period), scheduler=target) if via == "interval"
                               else reactivex.timer(rig.rel(period), rig.rel(period), scheduler=target))
                        rig.handles[pid] = src.subscribe(on_next, scheduler=type(rig.s)())
                    else:
                        src = reactivex.interval(rig.rel(period)) if via == "interval" else reactivex.timer(rig.rel(period), rig.rel(period))
                        rig.handles[pid] = src.subscribe(on_next, scheduler=target)
            elif k == "dispose_at":
                _, t, pid = op
                def disp(sc, st, pid=pid):
                    events.append(["dispose", pid, rig.clock()])
                    rig.handles[pid].dispose()

                rig.s.schedule_absolute(rig.abs_(t), disp)
            elif k == "dispose_now":
                events.append(["dispose", op[1], rig.clock()])
                rig.handles[op[1]].dispose()
            elif k == "advance_to":
                rig.s.advance_to(rig.abs_(op[1]))
            elif k == "stop":
                rig.s.stop()
            else:
                raise ValueError(k)
        except Exception as e:  # noqa
            if type(e).__name__ in ("InjectedError", "ArgumentOutOfRangeException"):
                out = ["raised", err_name(e)]
            else:
                out = ["raised", f"{type(e).__name__}: {e}"]
        outs.append(out)
        events.append(["opend", i, out, rig.clock()])
    return {"outs": outs, "log": log, "clock": rig.clock(), "enabled": bool(rig.s._is_enabled),
            "pending": len(rig.s._queue), "hlog": rig.hlog, "events": events}


def run_periodic(case):
    import threading

    if threading.current_thread() is threading.main_thread():
        st, res = alarm_timeout(_run_periodic, (case,))
    else:
        st, res = fork_timeout(_run_periodic, (case,))
    if st == "ok":
        return res
    if st == "timeout":
        return {"hang": True, "watchdog_s": WATCHDOG_S}
    raise RuntimeError(res)


def per_model_request(case):
    r = {k: case[k] for k in ("op", "clock", "fns", "ops", "handler_true", "handler_default") if k in case}
    r["ops"] = [op[:5] if op[0] == "periodic" else op for op in r["ops"]]   # the per-job `via` is a harness-only annotation
    return r


def gen_catch_siblings(rng, kind=None):
    """several periodic jobs on ONE CatchScheduler instance (schedule_periodic, interval(), timer(p, p)), one of them raising,
    siblings already running and a job scheduled only after the failure: a failure must stop that job and no other"""
    kind = kind or rng.choice(["test", "vts", "hist"])
    unit = 500 if kind == "hist" else 1
    c0 = unit * rng.choice([0, 0, 4])
    n = rng.choice([2, 2, 3])
    ops, fns, ht = [], [], []
    bad = rng.randrange(1, n + 1)
    swallow = rng.random() < 0.6
    maxp = 1
    fail_at = None
    for pid in range(1, n + 1):
        period = unit * rng.choice([1, 2, 3, 5])
        maxp = max(maxp, period)
        via = rng.choice(["schedule_periodic", "schedule_periodic", "interval", "timer"])
        st0 = rng.choice([0, 3]) if via == "schedule_periodic" else 0
        catch = True if pid == bad else rng.random() < 0.8
        fn = {"pid": pid, "raise_at": [], "sleep_at": [], "dispose_at": []}
        if pid == bad:
            k = rng.randrange(0, 4)
            fn["raise_at"] = [st0 + k]
            fail_at = c0 + (k + 1) * period
            if swallow:
                ht.append(f"p{pid}s{st0 + k}")
        fns.append(fn)
        ops.append(["periodic", pid, period, st0, catch, via])
    rng.shuffle(ops)
    T1 = fail_at + unit * rng.choice([0, 1, 3])
    ops.append(["advance_to", T1])
    if not swallow:
        ops.append(["stop"])          # the exception left the scheduler enabled
        ops.append(["advance_to", T1 + unit])
    late = n + 1                       # a job scheduled only after the failure
    lp = unit * rng.choice([1, 2, 4])
    lvia = rng.choice(["schedule_periodic", "interval", "timer"])
    fns.append({"pid": late, "raise_at": [], "sleep_at": [], "dispose_at": []})
    ops.append(["periodic", late, lp, 0, True, lvia])
    ops.append(["advance_to", T1 + unit + max(maxp, lp) * rng.randrange(2, 6)])
    return {"op": "per_script", "sched": kind, "clock": c0, "fns": fns, "ops": ops, "handler_true": ht,
            "handler_default": False, "via": "schedule_periodic", "op_level": rng.random() < 0.5}


def gen_periodic(rng, kind=None, catch_p=0.0, raise_p=0.3, via="schedule_periodic"):
    kind = kind or rng.choice(["test", "vts", "hist"])
    unit = 500 if kind == "hist" else 1
    c0 = unit * rng.choice([0, 0, 3, 100])
    ntasks = rng.choice([1, 1, 1, 2, 3])
    ops, fns = [], []
    horizon = c0
    for pid in range(1, ntasks + 1):
        period = unit * rng.choice([1, 2, 3, 5, 7, 10])
        st0 = rng.choice([0, 0, 0, 5, -2]) if via == "schedule_periodic" else 0
        catch = rng.random() < catch_p
        ops.append(["periodic", pid, period, st0, catch])
        fn = {"pid": pid, "raise_at": [], "sleep_at": [], "dispose_at": []}
        if rng.random() < raise_p:
            fn["raise_at"] = [st0 + rng.randrange(0, 6)]
        if via == "schedule_periodic" and rng.random() < 0.3:
            for _ in range(rng.choice([1, 2])):
                fn["sleep_at"].append([st0 + rng.randrange(0, 5), unit * rng.choice([0, 1, 2, period // unit, period // unit + 1, 12])])
            seen = set()
            fn["sleep_at"] = [p for p in fn["sleep_at"] if not (p[0] in seen or seen.add(p[0]))]
        if rng.random() < 0.2:
            fn["dispose_at"] = [st0 + rng.randrange(0, 5)]
        fns.append(fn)
        if rng.random() < 0.4:
            # dispose at/around a tick boundary
            k = rng.randrange(0, 6)
            ops.append(["dispose_at", c0 + k * period + unit * rng.choice([0, 0, 1, -1]) if k else c0, pid])
        horizon = max(horizon, c0 + period * rng.randrange(1, 8))
    rng.shuffle(ops)
    T = horizon + unit * rng.choice([0, 0, 1, 2])
    if rng.random() < 0.3:
        ops.append(["advance_to", c0 + (T - c0) // 2])
        if rng.random() < 0.3:
            ops.append(["dispose_now", rng.randrange(1, ntasks + 1)])
    ops.append(["advance_to", T])
    if rng.random() < 0.4:
        ops.append(["stop"])
        ops.append(["advance_to", T + unit * rng.choice([1, 5, 20])])
    ht = []
    for fn in fns:
        for st in fn["raise_at"]:
            if rng.random() < 0.5:
                ht.append(f"p{fn['pid']}s{st}")
    return {"op": "per_script", "sched": kind, "clock": c0, "fns": fns, "ops": ops, "handler_true": ht,
            "handler_default": False, "via": via, "op_level": rng.random() < 0.5,
            "tz_offset_min": rng.choice([None, 120, -300, 330]) if kind == "hist" else None}


def periodic_property_oracle(case, out):
    """C35's statement on the event trace of a periodic script: state threading, ticks on the multiples of the period, stop on
    dispose / raise — and NOT for any other reason: a job that was neither disposed nor failed has run every due tick."""
    tasks = {}
    slept = any(f["sleep_at"] for f in case.get("fns", []))
    nper = sum(1 for op in case["ops"] if op[0] == "periodic")
    if slept and nper == 1:
        # a single task whose in-call sleeps never exceed its period still ticks exactly on the multiples (drift correction)
        per = next(op[2] for op in case["ops"] if op[0] == "periodic")
        if all(d <= per for f in case["fns"] for _, d in f["sleep_at"]):
            slept = False
    opends = []
    for ev in out["events"]:
        k = ev[0]
        if k == "periodic":
            _, pid, clock, period, st = ev
            tasks[pid] = {"t0": clock, "p": period, "st": st, "n": 0, "last": None, "stopped": False}
        elif k == "tick":
            _, pid, clock, st = ev
            t = tasks[pid]
            if t["stopped"]:
                return f"periodic action {pid} invoked at {clock} after it was disposed / had raised"
            if st != t["st"]:
                return f"periodic action {pid}: invocation {t['n']} got state {st}, the previous call returned {t['st']}"
            if not slept:
                if clock != t["t0"] + (t["n"] + 1) * t["p"]:
                    return f"periodic action {pid}: invocation {t['n']} at clock {clock}, expected {t['t0'] + (t['n'] + 1) * t['p']}"
            elif t["last"] is not None and clock < t["last"] + t["p"]:
                return f"periodic action {pid}: invocations at {t['last']} and {clock} are closer than the period {t['p']}"
            t["st"] = st + 1
            t["n"] += 1
            t["last"] = clock
        elif k in ("dispose", "raise"):
            if ev[1] in tasks:
                tasks[ev[1]]["stopped"] = True
        elif k == "opend":
            opends.append(ev)
    # nothing due was left out.  Judged when the last call is an advance_to(T) that really ran (returned normally, moved the
    # clock to T, scheduler idle afterwards): every job that was neither disposed nor failed has been invoked floor((T-t0)/p) times
    ops = case["ops"]
    if (not slept and ops and ops[-1][0] == "advance_to" and out["outs"][-1] == "ok" and not out["enabled"]
            and out["clock"] == ops[-1][1] and (len(opends) < 2 or opends[-2][3] < ops[-1][1])):
        T = out["clock"]
        for pid, t in tasks.items():
            if not t["stopped"]:
                exp = max(0, (T - t["t0"]) // t["p"])
                if t["n"] != exp:
                    return (f"periodic action {pid} (period {t['p']}, scheduled at {t['t0']}, never disposed, never raised) was invoked "
                            f"{t['n']} times until {T}, expected {exp}")
    return None


def ret_ok(node):
    """a node may only return the handle of a child it schedules itself (shrinking must keep cases well-formed)"""
    kids = [st[4] for st in node["steps"] if st[0] == "sched"]
    if node.get("ret") is not None and node["ret"] not in [k["id"] for k in kids]:
        return False
    return all(ret_ok(k) for k in kids)


class HandleTracker:
    """what the oracles know about handles, from the event trace alone: which actions are pending, which pending ones are
    cancelled — directly, or because the handle of an action that RETURNED their handle was disposed (transitively)"""

    def __init__(self):
        self.pending = {}      # id -> payload
        self.cancelled = set()
        self.links = {}        # id -> id whose handle it returned
        self.dead = set()      # handles disposed
        self.known = set()
        self.ncancel = 0       # cancellations of pending items (upper bound on silently skipped items)

    def sched(self, nid, payload):
        self.pending[nid] = payload
        self.known.add(nid)
        self.cancelled.discard(nid)

    def cancel(self, nid):
        seen = set()
        while nid is not None and nid not in seen:
            seen.add(nid)
            if nid in self.known:
                self.dead.add(nid)
            if nid in self.pending and nid not in self.cancelled:
                self.cancelled.add(nid)
                self.ncancel += 1
            nid = self.links.get(nid)

    def ret(self, nid, cid):
        self.links[nid] = cid
        if nid in self.dead:
            self.cancel(cid)

"""C23 — an AsyncSubject delivers only the final value (DESIGN.md §5 C23).

Shares the case format, generator, real-code adapter and property-text oracle with C20 (`props/C20.py`), with `kind = "async"`."""
import fw
from props import C20 as base
from props.C20 import impl, model_request, canon_model, oracle, bucket, shrink, ASSUMPTIONS  # noqa: F401

LEAN_TARGETS = ["RxProofs.C23"]
DRIVER = "drv_subj"
DRIVER_ROOT = "Subj"
THEOREMS = [
    "C23.async_nothing_before_end",
    "C23.async_last_then_completed",
    "C23.async_late_last_then_completed",
    "C23.async_error_only",
    "C23.async_empty_completes",
    "C23.async_natural",
    "C23.run_reachable",
]
KIND = "async"


def cases(rng, tier):
    for _ in range(fw.tier_scale(tier, 4000, 120000)):
        yield base.gen_case(rng, KIND, tier)


def nontrivial(case, out):
    kinds = {c[0] for c in case["calls"]}
    return len(kinds) >= 2 and (any(out["logs"]) or any(out["raised"]))


RULE = base.RULE.replace("real Subject", "real AsyncSubject (termination generated more often, since nothing is delivered before it)")
LEVEL_TEXT = ("Lean theorems over the C20 machine extended with AsyncSubject.value/has_value: while the subject has neither terminated nor been disposed "
              "nobody has been handed anything and nothing is pending (invariant over all reachable configurations); on completion with a last value x exactly "
              "the members are queued for x immediately followed by completion (each handed on iff not detached at its turn), without value for completion only, "
              "on error for the error only; late subscribers are queued for the same. Unbounded histories and reaction scripts; polymorphic in the value type. "
              "Tied to the real code by differential execution and an independent property-text oracle.")
LEVEL_NOTE = base.LEVEL_NOTE + (" For a late subscriber with a value the theorem gives the queued tasks and the first delivery; that the following "
                                "completion is handed on is the generic per-turn theorem (iff not detached), not a closed statement about the final log.")

"""C23 — an AsyncSubject delivers only the final value (DESIGN.md §5 C23).

Shares the case format, generator, real-code adapter and property-text oracle with C20 (`props/C20.py`), with `kind = "async"`."""
import fw
from props import C20 as base
from props.C20 import impl, model_request, canon_model, oracle, bucket, shrink, ASSUMPTIONS  # noqa: F401

LEAN_TARGETS = ["RxProofs.C23"]
DRIVER = "drv_subj"
DRIVER_ROOT = "Subj"
THEOREMS = [
    "C23.async_nothing_before_end",
    "C23.async_last_then_completed",
    "C23.async_late_last_then_completed",
    "C23.async_late_gets_both",
    "C23.async_error_only",
    "C23.async_empty_completes",
    "C23.async_natural",
    "C23.run_reachable",
]
KIND = "async"


def cases(rng, tier):
    for _ in range(fw.tier_scale(tier, 4000, 120000)):
        yield base.gen_case(rng, KIND, tier)


def nontrivial(case, out):
    kinds = {c[0] for c in case["calls"]}
    return len(kinds) >= 2 and (any(out["logs"]) or any(out["raised"]))


RULE = base.RULE.replace("real Subject", "real AsyncSubject (termination generated more often, since nothing is delivered before it)")
LEVEL_TEXT = ("Lean theorems over the C20 machine extended with AsyncSubject.value/has_value: while the subject has neither terminated nor been disposed "
              "nobody has been handed anything and nothing is pending (invariant over all reachable configurations); on completion with a last value x exactly "
              "the members are queued for x immediately followed by completion (each handed on iff not detached at its turn), without value for completion only, "
              "on error for the error only; late subscribers are queued for the same. Unbounded histories and reaction scripts; polymorphic in the value type, with an explicit naturality theorem. "
              "Tied to the real code by differential execution and an independent property-text oracle.")
LEVEL_NOTE = 'Stated per step (subscription, delivery-loop turn) plus invariants over all reachable configurations, not as one closed formula for a whole history. Error broadcasts reaching an observer without on_error handler (default_error raises into the emitter, the rest of the loop is skipped) are modelled and compared but treated as outside the quantifier of the property by the oracle. Re-entrant emission from callbacks and thread interleavings are not modelled (single-threaded histories, as the property quantifies). User conventions: one subscription per observer id; reaction actions wrapped in try/except. len(subject.observers) is compared with the model only.'

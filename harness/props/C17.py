"""C17 — time-window operators respect their window boundaries (DESIGN.md §5 C17).

take/skip_with_time, take/skip_until_with_time, take_last/skip_last_with_time, timeout, timeout_with_mapper on TestScheduler
over hot and cold test observables; full timed output is compared with the Lean two-stream runs (`RxModel/TimedWin.lean`)
and with oracles written from the property text."""
import fw
import timedlib as T
from timedlib import SUB

LEAN_TARGETS = ["RxProofs.C17", "RxProofs.C02Timed"]
DRIVER = "drv_timed"
DRIVER_ROOT = "Timed"
PROCS = 1  # one case costs ~2 ms: forking a pool is slower than running them in-process
THEOREMS = [
    "C17.twt_before_boundary",
    "C17.swt_after_boundary",
    "C17.take_skip_partition",
    "C17.tlwt_age_rule",
    "C17.tlwt_independent_of_arrivals",
    "C17.slwt_age_rule",
    "C17.slwt_emit_when_aged",
    "C17.last_partition",
    "C17.timeout_fires_exactly",
    "C17.timeout_never_after_terminal",
    "C17.timeout_switch_at_first_large_gap",
    "C17.timeout_no_switch_small_gaps",
    "C17.timeout_timer_current",
    "C17.towm_fires_exactly",
    "C17.towm_never_after_terminal",
    "C17.towm_terminal_sets_done",
    "C17.timeout_sim_bridge",
    "C17.take_with_time_sim_bridge",
    "C17.skip_with_time_sim_bridge",
    "C02Timed.owned_step",
    "C02Timed.terminal_releases_all",
    "C02Timed.dispose_cancels_timers",
    "C02Timed.released_is_silent",
    "C02Timed.debounce_held_laws",
    "C02Timed.timeout_held_laws",
    "C02Timed.take_with_time_held_laws",
    "C02Timed.skip_with_time_held_laws",
    "C02Timed.initial_owned",
    "C02Timed.machine_done_silent",
    "C02Timed.twm_terminal_sets_done",
    "C02Timed.dwm_terminal_sets_done",
    "C02Timed.delay_drained_no_timer",
    "C17.AsIs.tlwt_boundary_counter",
    "C17.AsIs.tlwt_no_age_rule",
]
RULE = ("25% of the cases of the operators that take a scheduler give them the scheduler of the timeline explicitly and subscribe with a DIFFERENT, never started one (the operator-level one must win); 30% of the timeout / timeout_with_mapper cases pass the fallback / first_timeout as bare abc.ObservableBase implementations; 30% of the cases are RUN in fractional seconds (1/10 or 1/100 s per unit on the float clock of TestScheduler, float or timedelta durations) while generated, modelled and judged in exact integer units: elements exactly at a boundary / gaps exactly equal to a due time stay exact; 20% of the non-mapper cases subscribe the SAME observable instance a second time (overlapping or later) and compare with a fresh single subscription; timelines of 0..7 elements + terminal (completed/error/none, 12% non-conforming or with pre-subscription messages) placed before/at/after "
        "every boundary (subscription+duration, absolute end/start times incl. past ones, completion-duration, last element+due time), bursts, "
        "gaps d-1/d/d+1, simultaneous arrivals; hot and cold sources; non-trivial = output differs from the source as seen or a timer decided the outcome")
ASSUMPTIONS = ["virtual time in integer ticks on TestScheduler; hot source messages are scheduled before the operator's timers (source wins ties); "
               "for a cold source a timer armed before source.subscribe wins the tie (inlined (due, seq) rule of VirtualTimeScheduler)",
               "all generated times + durations < 1000 (the disposal time of TestScheduler.start)"]

OPS = ["take_with_time", "skip_with_time", "take_until_with_time", "skip_until_with_time", "take_last_with_time",
       "skip_last_with_time", "timeout", "timeout_with_mapper"]


def gen_until(rng):
    if rng.random() < 0.5:
        return {"abs": True, "at": rng.choice([150, 199, 200, 201, 205, 230, 250, 260])}
    return {"abs": False, "at": rng.choice([0, 1, 5, 30, 50])}


def boundary_pattern(rng, d):
    """the take_last/skip_last boundary: elements exactly d-1 / d / d+1 old at completion, with or without another arrival at
    the completion instant or at the instant an element turns d old"""
    Tc = SUB + rng.choice([40, 60])
    msgs = []
    for age in sorted({rng.choice([d + 1, d + 2, 2 * d + 1]), d, rng.choice([d, max(d - 1, 0)]), rng.choice([0, 1, max(d - 1, 0)])}, reverse=True):
        if rng.random() < 0.8 and Tc - age > SUB:
            msgs.append([Tc - age, ["N", f"age{age}"]])
    if rng.random() < 0.5:
        msgs.append([Tc, ["N", "atC"]])
    msgs.sort(key=lambda m: m[0])
    msgs.append([Tc, rng.choice([["C"], ["C"], ["C"], ["E", "e0"]])])
    return msgs


def cases(rng, tier):
    n = fw.tier_scale(tier, 450, 5000)
    for op in OPS:
        for _ in range(n):
            src = rng.choice(["hot", "hot", "cold"])
            c = {"op": op, "src": src, "sub": SUB}
            if op in ("take_with_time", "skip_with_time"):
                d = rng.choice([0, 1, 5, 20, 30, 50])
                c["d"] = d
                msgs = T.gen_msgs(rng, d, [SUB + d])
            elif op in ("take_until_with_time", "skip_until_with_time"):
                c.update(gen_until(rng))
                b = c["at"] if c["abs"] else SUB + c["at"]
                msgs = T.gen_msgs(rng, 5, [b])
            elif op in ("take_last_with_time", "skip_last_with_time"):
                d = rng.choice([0, 1, 5, 10, 20])
                c["d"] = d
                msgs = boundary_pattern(rng, d) if rng.random() < 0.4 else T.gen_msgs(rng, d, [])
            elif op == "timeout_with_mapper":
                d = rng.choice([1, 5, 20])
                c["inners"] = T.gen_inners(rng, d)
                c["raise_at"] = rng.choice([None, None, None, None, 0, 1, 2])
                c["first"] = rng.choice([None, T.gen_inner(rng, d), T.gen_inner(rng, d), [[d, ["N", 0]]], {"timer": d}, {"timer": rng.choice([0, 1, d + 1])}])
                marks = [SUB + T.inner_timeline(c["first"])[0][0]] if c["first"] else []
                msgs = T.gen_msgs(rng, d, marks)
                if rng.random() < 0.5:
                    c["other"] = None
                else:
                    # (a hot fallback subscribed from inside the source's own action may still get its message of that very
                    # instant: keep the fallback cold when a timer observable can fire inline)
                    osrc = "cold" if any(T.is_inline(x) for x in c["inners"]) else rng.choice(["hot", "cold"])
                    om = T.gen_msgs(rng, d, marks + [t + d for t, _ in msgs[:3]], nmax=3, malformed=0.05)
                    c["other"] = {"src": osrc, "msgs": T.to_cold(om) if osrc == "cold" else om}
            else:  # timeout
                if rng.random() < 0.75:
                    c.update({"abs": False, "at": rng.choice([1, 5, 20])})
                    d = c["at"]
                    marks = [SUB + d]
                else:
                    c.update({"abs": True, "at": rng.choice([150, 200, 205, 230, 260])})
                    d = 5
                    marks = [c["at"]]
                msgs = T.gen_msgs(rng, d, marks)
                r = rng.random()
                if r < 0.45:
                    c["other"] = None
                else:
                    osrc = rng.choice(["hot", "cold"])
                    om = T.gen_msgs(rng, d, marks + [t + d for t, _ in msgs[:3]], nmax=3, malformed=0.05)
                    c["other"] = {"src": osrc, "msgs": T.to_cold(om) if osrc == "cold" else om}
            if op not in ('timeout_with_mapper',):
                t2 = T.gen_sub2(rng, msgs, p=0.2)
                if t2 is not None:
                    c["sub2"] = t2          # the same observable instance subscribed again: state must be per subscription
            c["msgs"] = T.to_cold(msgs) if src == "cold" else msgs
            T.gen_tz(rng, c)                   # absolute boundaries written in a non-UTC zone (same instant)
            if op == "timeout_with_mapper" and rng.random() < 0.3:
                # the duration mapper omitted / None: no inter-element timeout at all (only first_timeout counts)
                c["no_mapper"] = rng.choice(["omit", "none"])
                c["inners"] = []
                c["raise_at"] = None
            if op != "timeout_with_mapper":
                T.gen_opsched(rng, c)          # operator-level scheduler (of the timeline) + a different subscribe-level scheduler
            if op in ("timeout", "timeout_with_mapper") and rng.random() < 0.3:
                c["bare"] = True               # fallback / first_timeout as bare abc.ObservableBase implementations
            T.gen_scale(rng, c)          # fractional seconds / timedelta durations
            yield c


def model_request(case):
    return case


# ------------------------------------------------------------------------------------------- real code
def impl(case):
    from reactivex import operators as ops

    op = case["op"]
    case = T.realize(case)          # the case as it is run (seconds); identical unless "scale" is set

    def when(c):
        return T.in_tz(c, T.utc(c["at"])) if c["abs"] else c["at"]

    if op == "take_with_time":
        return T.run_test(case, lambda s, xs: xs.pipe(ops.take_with_time(case["d"], **T.sk(case, s))))
    if op == "skip_with_time":
        return T.run_test(case, lambda s, xs: xs.pipe(ops.skip_with_time(case["d"], **T.sk(case, s))))
    if op == "take_until_with_time":
        return T.run_test(case, lambda s, xs: xs.pipe(ops.take_until_with_time(when(case), **T.sk(case, s))))
    if op == "skip_until_with_time":
        return T.run_test(case, lambda s, xs: xs.pipe(ops.skip_until_with_time(when(case), **T.sk(case, s))))
    if op == "take_last_with_time":
        return T.run_test(case, lambda s, xs: xs.pipe(ops.take_last_with_time(case["d"], **T.sk(case, s))))
    if op == "skip_last_with_time":
        return T.run_test(case, lambda s, xs: xs.pipe(ops.skip_last_with_time(case["d"], **T.sk(case, s))))
    if op == "timeout":
        return T.run_test(case, lambda s, xs, other: xs.pipe(ops.timeout(when(case), other, **T.sk(case, s))), sources=("msgs", "other"))
    if op == "timeout_with_mapper":
        import reactivex

        def build(s, xs, other):
            first = T.maybe_bare(case, T.mapper_observable(s, case["first"])) if case["first"] is not None else None
            if case.get("no_mapper") == "omit":
                return xs.pipe(ops.timeout_with_mapper(first, other=other))
            if case.get("no_mapper") == "none":
                return xs.pipe(ops.timeout_with_mapper(first, None, other))
            return xs.pipe(ops.timeout_with_mapper(first, T.make_mapper(s, case, off=1), other))

        return T.run_test(case, build, sources=("msgs", "other"))
    raise ValueError(op)


def canon_impl(case, io):
    return T.out_of(io)


def canon_model(case, resp):
    return T.model_out(case, resp)


# ------------------------------------------------------------------------------------------- oracle (property text)
def timer_first(case):
    """does the operator's boundary timer run before a source message due at the same instant?  Only for a cold source
    (scheduled at subscription) and an operator that arms its timer before subscribing the source."""
    return case["src"] == "cold" and case["op"] in ("take_with_time", "skip_with_time", "take_until_with_time", "timeout")


def boundary(case):
    if "d" in case:
        return SUB + case["d"]
    return case["at"] if case["abs"] else SUB + case["at"]


def expected(case):
    op = case["op"]
    src = T.seen(case)
    if op in ("take_with_time", "take_until_with_time", "skip_with_time", "skip_until_with_time"):
        b = boundary(case)
        tf = timer_first(case)

        def after(t):  # the boundary event happens before a source notification at t
            return b <= t if tf else b < t

        if op.startswith("take"):
            kept = [m for m in src if not after(m[0])]
            if kept and kept[-1][1][0] != "N":
                return kept
            return kept + [[max(b, SUB), ["C"]]]
        return [m for m in src if m[1][0] != "N" or after(m[0])]
    if op == "take_last_with_time":
        d = case["d"]
        if not src or src[-1][1][0] == "N":
            return []
        tt, term = src[-1]
        if term[0] == "E":
            return [[tt, term]]
        return [[tt, n] for t, n in src[:-1] if tt - t < d] + [[tt, term]]        # younger than the duration
    if op == "skip_last_with_time":
        # an element is emitted at the first source notification (itself included, an error excluded) at which it is
        # not younger than the duration; so at completion exactly the elements with age >= d have been emitted
        d = case["d"]
        plan = []
        for i, (t, n) in enumerate(src):
            if n[0] != "N":
                continue
            j = next((j for j in range(i, len(src)) if src[j][1][0] != "E" and src[j][0] - t >= d), None)
            if j is not None:
                plan.append((j, i, n))
        out = []
        for j, (t, n) in enumerate(src):
            out += [[t, v] for (jj, i, v) in sorted(plan) if jj == j]
            if n[0] != "N":
                out.append([t, n])
        return out
    if op == "timeout":
        at, is_abs = case["at"], case["abs"]
        tf = timer_first(case)
        deadline = at if is_abs else SUB + at
        first = True
        out = []
        fired = None
        for t, n in src:
            if deadline < t or (first and tf and deadline <= t):
                fired = max(deadline, out[-1][0] if out else SUB)
                break
            out.append([t, n])
            if n[0] != "N":
                return out
            deadline = at if is_abs else t + at
            first = False
        else:
            fired = max(deadline, out[-1][0] if out else SUB)
        if case.get("other") is None:
            return out + [[fired, ["E", "Exception"]]]
        return out + T.seen(case["other"], src=case["other"]["src"], sub=fired)
    if op == "timeout_with_mapper":
        # the timer observable of the latest element (first_timeout before any element) decides: its first signal switches to the
        # fallback (its error is forwarded); never after the source terminated
        first = [[SUB + r, ("inner", 0, m)] for r, m in T.inner_timeline(case["first"] or [])]
        srcs = T.src_stream(src, case["inners"], off=1)
        streams = ([first, srcs] if case["src"] == "cold" else [srcs, first]) + T.elem_streams(src, case["inners"], off=1)
        out, cur, k = [], 0, 0
        for t, e in T.merged_events(streams):
            if e[0] == "src":
                n = e[1]
                out.append([t, n])
                if n[0] != "N":
                    return out
                if case.get("raise_at") == k:
                    return out + [[t, ["E", "mapErr"]]]
                k += 1
                cur = k
            elif e[1] == cur:
                if e[2][0] == "E":
                    return out + [[t, e[2]]]
                if case.get("other") is None:
                    return out + [[t, ["E", "Exception"]]]
                return out + T.seen(case["other"], src=case["other"]["src"], sub=t)
        return out
    raise ValueError(op)


def oracle(case, io):
    if "raised" in io:
        return f"operator raised {io['raised']}"
    if T.leak_oracle(case, io):
        return T.leak_oracle(case, io)
    exp = expected(case)
    if fw.key(exp) != fw.key(io["out"]):
        return f"{case['op']}: expected {exp} got {io['out']}"
    return T.second_sub_oracle(case, io)


def nontrivial(case, io):
    return "out" in io and fw.key(io["out"]) != fw.key(T.seen(case))


def bucket(case, io):
    yield from T.shape(case, io)
    yield f"{case['op']}:second-subscription={'sub2' in case}"
    yield f"{case['op']}:tz={case.get('tz')}:no_mapper={case.get('no_mapper')}"
    yield f"{case['op']}:opsched={bool(case.get('opsched'))}:bare={bool(case.get('bare'))}"
    yield f"{case['op']}:scale={case.get('scale', 1)}:td={bool(case.get('td'))}"
    if case["op"] in ("take_with_time", "skip_with_time", "take_until_with_time", "skip_until_with_time"):
        b = boundary(case)
        ts = [m[0] for m in T.seen(case)]
        yield f"{case['op']}:at-boundary={b in ts}"
    if case["op"] == "take_last_with_time" and "out" in io:
        s = T.seen(case)
        if s and s[-1][1][0] == "C":
            tt = s[-1][0]
            yield f"tlwt:exactly-d-old={any(tt - t == case['d'] for t, n in s[:-1])}:arrival-at-completion={any(t == tt for t, n in s[:-1])}"
    if case["op"] == "timeout_with_mapper":
        yield f"towm:raise_at={case['raise_at']}:first={'none' if not case['first'] else 'timer' if isinstance(case['first'], dict) else case['first'][0][1][0]}"
    if case["op"] == "timeout" and "out" in io:
        yield f"timeout:other={'none' if case.get('other') is None else case['other']['src']}:abs={case['abs']}"


def shrink(case):
    yield from T.shrink_msgs(case)
    if "sub2" in case:
        c = dict(case)
        del c["sub2"]
        yield c
    if case.get("other"):
        c = dict(case)
        c["other"] = None
        yield c


LEVEL_TEXT = ("Lean theorems, for all timelines with non-decreasing times, all durations and element types: take/skip(_until)_with_time pass exactly the notifications before / after the boundary timer in scheduler order; take_last_with_time (REPAIRED code) emits at completion exactly the elements with age < d and skip_last_with_time exactly those with age >= d (and each as soon as it is d old), by a rule that mentions only the element's own age; timeout (id / switched / Serial timer, relative or absolute due time) switches exactly when the deadline precedes the next source notification (also stated by gaps: at last+d after the first gap > d, never if all gaps <= d) and never after a source terminal; timeout_with_mapper as a trace machine equals the current-timer rule on every event interleaving. The as-is take_last_with_time is shown (decide) to keep or drop an element exactly d old depending on an unrelated arrival. Tied to the code by differential runs on TestScheduler (hot and cold sources, elements before/at/after every boundary, absolute times in the past) and by oracles written from the property text.")
LEVEL_NOTE = ('Defect (DESIGN §6 #4): on the pinned tree take_last_with_time uses `>=` on arrival and `<=` at completion; the model is of the code after fixes/C17_take_last_with_time_boundary.patch (`<` at completion, consistent with skip_last_with_time; repo suite passes). Against the unfixed tree the check reports VIOLATION with a replay. timeout_with_mapper: the global event order is driver glue (stable merge), validated by the correspondence only. The (due, seq) tie rule is derived for timeout and take/skip(_until)_with_time on hot sources (*_sim_bridge: scheduler simulation = two-stream run; also run by the driver on every hot case); for cold sources (first timer armed before the source is subscribed) it is still the inlined comparison, validated by the correspondence. RxProofs/C02Timed.lean (audited here) gives the release theorems used by C02/C03. Trusted: correspondence harness, generators.')

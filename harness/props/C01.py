"""C01 — every subscriber sees a well-formed notification sequence (DESIGN.md §5 C01)."""
import ast
import re

import fw
from fw import InjectedError, enc, err_name

LEAN_TARGETS = ["RxProofs.C01"]
DRIVER = "drv_core"
DRIVER_ROOT = "Core"
THEOREMS = [
    "C01.ado_grammar",
    "C01.ado_after_dispose_silent",
    "C01.ado_terminal_disposes",
    "C01.observer_grammar",
    "C01.subscribe_grammar",
    "C01.subscribe_fail_routes",
]
RULE = ("call scripts (0..40 calls of next/error/completed/dispose/fail, raising user callbacks at random invocation "
        "indices) driven into the real AutoDetachObserver, Observer and Observable.subscribe; plus generated operator "
        "pipelines over non-conforming hot sources; non-trivial = at least one call arrives after a terminal/dispose or a callback raises")
ASSUMPTIONS = ["single-threaded / virtual-time execution (what the property quantifies over)",
               "the only path from a pipeline to the user's callbacks is the AutoDetachObserver created by Observable.subscribe (checked structurally on every run)"]

VALS = [None, 0, 1, False, "", "a", (), 2, 3]


def gen_calls(rng, n, allow_fail=True):
    kinds = ["next"] * 5 + ["error", "completed", "dispose"] + (["fail"] if allow_fail else [])
    out = []
    for _ in range(n):
        k = rng.choice(kinds)
        if k == "next":
            out.append(["next", enc(rng.choice(VALS))])
        elif k in ("error", "fail"):
            out.append([k, f"e{rng.randrange(4)}"])
        else:
            out.append([k])
    return out


def cases(rng, tier):
    n = fw.tier_scale(tier, 1500, 15000)
    for i in range(n):
        kind = rng.choice(["ado_script", "obs_script", "subscribe_script", "subscribe_script"])
        raises = sorted({rng.randrange(0, 8) for _ in range(rng.choice([0, 0, 1, 2]))})
        if kind == "subscribe_script":
            yield {"op": kind, "raises": raises, "body": gen_calls(rng, rng.randrange(0, 8), False),
                   "exn": rng.choice([None, None, "boom"]), "later": gen_calls(rng, rng.randrange(0, 8), False)}
        else:
            yield {"op": kind, "raises": raises, "calls": gen_calls(rng, rng.choice([0, 1, 2, 5, 10, 40]))}
    # re-entrant scripts: calls made from INSIDE the user callback triggered by the parent call
    for i in range(fw.tier_scale(tier, 600, 6000)):
        calls = []
        for c in gen_calls(rng, rng.choice([1, 2, 3, 5, 8]), False):
            kids = gen_calls(rng, rng.choice([0, 0, 1, 2, 3]), False)
            calls.append(c + [kids] if c[0] != "next" else [c[0], c[1], kids])
        yield {"op": rng.choice(["ado_reentrant", "obs_reentrant"]), "raises": [], "calls": calls}
    # pipeline cases: oracle only (no model request)
    for i in range(fw.tier_scale(tier, 600, 6000)):
        yield gen_pipeline(rng)


def _flatten(calls):
    out = []
    for c in calls:
        kids = c[-1]
        out.append(c[:-1])
        out.extend(kids)
    return out


def model_request(case):
    if case["op"] == "pipeline":
        return None
    if case["op"].endswith("_reentrant"):
        # the model is the LINEAR call list: a call made from inside a callback is just the next call, because every
        # method decides on is_stopped at entry and sets it before calling out (C01.lean header)
        return {"op": case["op"].replace("_reentrant", "_script"), "raises": [], "calls": _flatten(case["calls"])}
    c = dict(case)
    if c.get("exn") is None:
        c.pop("exn", None)
    return c


# ----- real code ------------------------------------------------------------------------------
class Recorder:
    def __init__(self, raises):
        self.raises = set(raises)
        self.k = 0
        self.log = []

    def _cb(self, item):
        k = self.k
        self.k += 1
        self.log.append(item)
        pend = getattr(self, "pending", None)
        if pend:
            self.pending = None
            drive_raw(pend[0], pend[1])   # re-entrant calls from inside the callback
        if k in self.raises:
            raise InjectedError(f"cb{k}")

    def on_next(self, v):
        self._cb(["N", enc(v)])

    def on_error(self, e):
        self._cb(["E", err_name(e)])

    def on_completed(self):
        self._cb(["C"])


def drive(target, calls, rec, disp_counter=None):
    outs = []
    for c in calls:
        before = len(rec.log)
        d0 = disp_counter[0] if disp_counter else 0
        raised = False
        try:
            if c[0] == "next":
                target.on_next(fw.dec(c[1]))
            elif c[0] == "error":
                target.on_error(InjectedError(c[1]))
            elif c[0] == "completed":
                target.on_completed()
            elif c[0] == "dispose":
                target.dispose()
            elif c[0] == "fail":
                target.fail(InjectedError(c[1]))
        except InjectedError:
            raised = True
        ds = rec.log[before:]
        # one call delivers at most one callback; more than one is an observation (it shows as a correspondence mismatch and as a
        # grammar violation in the oracle), never a harness failure
        d = None if not ds else ds[0] if len(ds) == 1 else {"multi": ds}
        outs.append({"d": d, "r": raised, "disp": (disp_counter[0] - d0) if disp_counter else 0})
    return outs


def impl(case):
    op = case["op"]
    if op == "pipeline":
        return run_pipeline(case)
    from reactivex.disposable import Disposable
    from reactivex.observer import AutoDetachObserver, Observer
    from reactivex import Observable

    rec = Recorder(case["raises"])
    if op in ("ado_reentrant", "obs_reentrant"):
        target = (AutoDetachObserver if op == "ado_reentrant" else Observer)(rec.on_next, rec.on_error, rec.on_completed)
        for c in case["calls"]:
            kids = c[-1]
            rec.pending = (target, kids)
            drive_raw(target, [c[:-1]])
            rec.pending = None
        return {"seen": rec.log}
    if op == "ado_script":
        ado = AutoDetachObserver(rec.on_next, rec.on_error, rec.on_completed)
        cnt = [0]

        class CountingSub:
            # counts dispose() calls that reach the observer's own subscription holder
            def dispose(self):
                cnt[0] += 1

        orig = ado._subscription.dispose

        def counting_dispose():
            cnt[0] += 1
            orig()

        ado._subscription.dispose = counting_dispose
        return drive(ado, case["calls"], rec, cnt)
    if op == "obs_script":
        obs = Observer(rec.on_next, rec.on_error, rec.on_completed)
        return drive(obs, case["calls"], rec)
    if op == "subscribe_script":
        saved = []

        def body(observer, scheduler=None):
            saved.append(observer)
            drive_raw(observer, case["body"])
            if case.get("exn") is not None:
                raise InjectedError(case["exn"])
            return Disposable()

        reraised = False
        try:
            Observable(body).subscribe(rec.on_next, rec.on_error, rec.on_completed)
        except InjectedError:
            reraised = True  # the body's exception re-raised, or the user's on_error raising inside fail()
        drive_raw(saved[0], case["later"])
        return {"seen": rec.log, "reraised": reraised}
    raise ValueError(op)


def drive_raw(target, calls):
    """calls from an adversarial upstream: exceptions raised by user callbacks propagate to it and are swallowed there"""
    for c in calls:
        try:
            if c[0] == "next":
                target.on_next(fw.dec(c[1]))
            elif c[0] == "error":
                target.on_error(InjectedError(c[1]))
            elif c[0] == "completed":
                target.on_completed()
            elif c[0] == "dispose":
                target.dispose()
        except InjectedError:
            pass


def canon_model(case, out):
    if case["op"].endswith("_reentrant") and isinstance(out, list):
        return {"seen": [x for o in out if o["d"] is not None for x in (o["d"]["multi"] if isinstance(o["d"], dict) else [o["d"]])]}
    return out


def grammar_ok(seq):
    for i, n in enumerate(seq):
        if n[0] in ("E", "C") and i != len(seq) - 1:
            return False
    return True


def oracle(case, out):
    if case["op"] == "pipeline":
        for name, seq in out["subscribers"].items():
            if not grammar_ok(seq):
                return f"subscriber {name} saw ill-formed sequence {seq}"
        return None
    if case["op"] in ("subscribe_script", "ado_reentrant", "obs_reentrant"):
        seq = out["seen"]
    else:
        seq = []
        for o in out:
            if isinstance(o["d"], dict):
                seq.extend(o["d"]["multi"])
            elif o["d"] is not None:
                seq.append(o["d"])
    if not grammar_ok(seq):
        return f"ill-formed callback sequence {seq}"
    return None


def nontrivial(case, out):
    if case["op"] == "pipeline":
        return any(len(s) > 0 for s in out["subscribers"].values()) and case["nonconforming"]
    if case["op"].endswith("_reentrant"):
        return any(c[-1] for c in case["calls"])
    calls = case.get("calls") or (case["body"] + case["later"])
    term = [i for i, c in enumerate(calls) if c[0] in ("error", "completed", "dispose", "fail")]
    return bool(term and term[0] < len(calls) - 1) or bool(case["raises"])


def bucket(case, out):
    yield case["op"]
    if case["op"] == "pipeline":
        for st in case["stages"]:
            yield "stage:" + st[0]


def shrink(case):
    if case["op"] == "pipeline":
        for i in range(len(case["stages"])):
            c = dict(case); c["stages"] = case["stages"][:i] + case["stages"][i + 1:]; yield c
        for s in range(len(case["sources"])):
            for i in range(len(case["sources"][s])):
                c = dict(case); c["sources"] = [list(x) for x in case["sources"]]; del c["sources"][s][i]; yield c
        return
    if case["op"].endswith("_reentrant"):
        for i in range(len(case["calls"])):
            c = dict(case); c["calls"] = case["calls"][:i] + case["calls"][i + 1:]; yield c
            if case["calls"][i][-1]:
                c = dict(case); c["calls"] = [list(x) for x in case["calls"]]; c["calls"][i][-1] = case["calls"][i][-1][1:]; yield c
        return
    for fld in ("calls", "body", "later"):
        if fld in case:
            for i in range(len(case[fld])):
                c = dict(case); c[fld] = case[fld][:i] + case[fld][i + 1:]; yield c


# ----- pipelines over non-conforming sources (oracle only) ------------------------------------
STAGES = ["map", "filter", "take", "skip", "take_while", "distinct_until_changed", "scan", "pairwise", "start_with",
          "default_if_empty", "take_last", "skip_last", "merge2", "zip2", "combine_latest2", "concat2", "catch2", "switch_map",
          "flat_map", "with_latest_from2", "amb2", "take_until2", "skip_until2", "retry", "repeat", "materialize_dematerialize",
          "do_action", "delay", "debounce", "timeout", "window_count_merge", "buffer_count", "group_by_merge", "to_list",
          "first", "last", "reduce", "share", "on_error_resume_next2", "sample2", "timestamp_map", "finally_action"]


def gen_source(rng, nonconforming):
    t = 200
    msgs = []
    for _ in range(rng.randrange(0, 6)):
        t += rng.choice([0, 5, 10, 10, 20])
        r = rng.random()
        if r < 0.75:
            msgs.append([t, ["N", rng.choice([0, 1, 2, 3, None])]])
        elif r < 0.88:
            msgs.append([t, ["C"]])
        else:
            msgs.append([t, ["E", f"s{rng.randrange(3)}"]])
        if not nonconforming and msgs[-1][1][0] != "N":
            break
    return msgs


def gen_pipeline(rng):
    nonconf = rng.random() < 0.7
    nsrc = 3
    stages = []
    for _ in range(rng.randrange(1, 4)):
        s = rng.choice(STAGES)
        stages.append([s, rng.randrange(0, 4), rng.choice([None, 0, 1, 2])])  # (name, int param, callback raise index)
    return {"op": "pipeline", "nonconforming": nonconf, "hot": rng.random() < 0.5,
            "sources": [gen_source(rng, nonconf) for _ in range(nsrc)], "stages": stages,
            "sub_raises": sorted({rng.randrange(0, 6) for _ in range(rng.choice([0, 0, 1]))})}


def run_pipeline(case):
    import reactivex as rx
    from reactivex import operators as ops
    from reactivex.testing import ReactiveTest, TestScheduler

    sched = TestScheduler()

    def mk(msgs):
        rec = []
        for t, n in msgs:
            if n[0] == "N":
                rec.append(ReactiveTest.on_next(t, n[1]))
            elif n[0] == "C":
                rec.append(ReactiveTest.on_completed(t))
            else:
                rec.append(ReactiveTest.on_error(t, InjectedError(n[1])))
        return sched.create_hot_observable(*rec) if case["hot"] else sched.create_cold_observable(*[type(r)(r.time - 150, r.value) for r in rec])

    srcs = [mk(m) for m in case["sources"]]
    counters = {}

    def cb(idx, ri, f):
        def g(*a):
            k = counters.get(idx, 0)
            counters[idx] = k + 1
            if ri is not None and k == ri:
                raise InjectedError(f"st{idx}")
            return f(*a)
        return g

    o = srcs[0]
    other, third = srcs[1], srcs[2]
    for idx, (name, n, ri) in enumerate(case["stages"]):
        if name == "map": o = o.pipe(ops.map(cb(idx, ri, lambda x: x)))
        elif name == "filter": o = o.pipe(ops.filter(cb(idx, ri, lambda x: x != 1)))
        elif name == "take": o = o.pipe(ops.take(n))
        elif name == "skip": o = o.pipe(ops.skip(n))
        elif name == "take_while": o = o.pipe(ops.take_while(cb(idx, ri, lambda x: x != 3)))
        elif name == "distinct_until_changed": o = o.pipe(ops.distinct_until_changed(cb(idx, ri, lambda x: x)))
        elif name == "scan": o = o.pipe(ops.scan(cb(idx, ri, lambda a, x: x), 0))
        elif name == "pairwise": o = o.pipe(ops.pairwise())
        elif name == "start_with": o = o.pipe(ops.start_with(9))
        elif name == "default_if_empty": o = o.pipe(ops.default_if_empty(7))
        elif name == "take_last": o = o.pipe(ops.take_last(n))
        elif name == "skip_last": o = o.pipe(ops.skip_last(n))
        elif name == "merge2": o = o.pipe(ops.merge(other))
        elif name == "zip2": o = o.pipe(ops.zip(other))
        elif name == "combine_latest2": o = o.pipe(ops.combine_latest(other))
        elif name == "concat2": o = o.pipe(ops.concat(other))
        elif name == "catch2": o = o.pipe(ops.catch(cb(idx, ri, lambda e, s: other)))
        elif name == "switch_map": o = o.pipe(ops.switch_map(cb(idx, ri, lambda x: other)))
        elif name == "flat_map": o = o.pipe(ops.flat_map(cb(idx, ri, lambda x: third)))
        elif name == "with_latest_from2": o = o.pipe(ops.with_latest_from(other))
        elif name == "amb2": o = o.pipe(ops.amb(other))
        elif name == "take_until2": o = o.pipe(ops.take_until(third))
        elif name == "skip_until2": o = o.pipe(ops.skip_until(third))
        elif name == "retry": o = o.pipe(ops.retry(n + 1))
        elif name == "repeat": o = o.pipe(ops.repeat(n + 1))
        elif name == "materialize_dematerialize": o = o.pipe(ops.materialize(), ops.dematerialize())
        elif name == "do_action": o = o.pipe(ops.do_action(cb(idx, ri, lambda x: None)))
        elif name == "delay": o = o.pipe(ops.delay(n * 5))
        elif name == "debounce": o = o.pipe(ops.debounce(n * 5))
        elif name == "timeout": o = o.pipe(ops.timeout(10 + n * 10, other))
        elif name == "window_count_merge": o = o.pipe(ops.window_with_count(n + 1), ops.merge_all())
        elif name == "buffer_count": o = o.pipe(ops.buffer_with_count(n + 1))
        elif name == "group_by_merge": o = o.pipe(ops.group_by(cb(idx, ri, lambda x: x == 1)), ops.merge_all())
        elif name == "to_list": o = o.pipe(ops.to_list())
        elif name == "first": o = o.pipe(ops.first())
        elif name == "last": o = o.pipe(ops.last())
        elif name == "reduce": o = o.pipe(ops.reduce(cb(idx, ri, lambda a, x: x), 0))
        elif name == "share": o = o.pipe(ops.share())
        elif name == "on_error_resume_next2": o = o.pipe(ops.on_error_resume_next(other))
        elif name == "sample2": o = o.pipe(ops.sample(third))
        elif name == "timestamp_map": o = o.pipe(ops.timestamp(), ops.map(lambda t: t.value))
        elif name == "finally_action": o = o.pipe(ops.finally_action(lambda: None))
        else: raise ValueError(name)

    recs = {"a": Recorder(case["sub_raises"]), "b": Recorder([])}
    escaped = []

    def sub(name, at):
        def act(s, st):
            r = recs[name]
            o.subscribe(r.on_next, r.on_error, r.on_completed, scheduler=sched)
        sched.schedule_absolute(at, act)

    sub("a", 200)
    sub("b", 215)
    # run, swallowing exceptions that escape into the scheduler (they are C09's business, not C01's)
    for _ in range(200):
        try:
            sched.start()
            break
        except InjectedError as e:
            escaped.append(e.name)
            sched._is_enabled = False   # start() leaves the flag set when an exception escapes; reset so the run continues
        except Exception as e:  # noqa  library exceptions escaping into the scheduler
            escaped.append(type(e).__name__)
            sched._is_enabled = False
    return {"subscribers": {k: _plain(r.log) for k, r in recs.items()}, "escaped": escaped[:5]}


def _plain(log):
    out = []
    for n in log:
        if n[0] == "N":
            out.append(["N", n[1] if isinstance(n[1], (int, str, bool, type(None))) else "obj"])
        else:
            out.append(n)
    return out


def extra(rng, tier):
    """Universality: structural check that user callbacks are only reachable through the AutoDetachObserver
    created in Observable.subscribe, and that no subclass in reactivex/ overrides `subscribe`."""
    pf = []
    src = (fw.REPO / "reactivex/observable/observable.py").read_text()
    tree = ast.parse(src)
    sub = None
    for node in ast.walk(tree):
        if isinstance(node, ast.ClassDef) and node.name == "Observable":
            for f in node.body:
                if isinstance(f, ast.FunctionDef) and f.name == "subscribe" and not any(
                        isinstance(d, ast.Name) and d.id == "overload" for d in f.decorator_list):
                    sub = f
    if sub is None:
        pf.append("structural: Observable.subscribe not found")
    else:
        text = ast.unparse(sub)
        if not re.search(r"AutoDetachObserver\(\s*on_next,\s*on_error,\s*on_completed\s*\)", text):
            pf.append("structural: subscribe no longer wraps the callbacks in AutoDetachObserver(on_next, on_error, on_completed)")
        if "self._subscribe_core(auto_detach_observer, scheduler)" not in text:
            pf.append("structural: _subscribe_core is not called with the AutoDetachObserver")
        if "return Disposable(auto_detach_observer.dispose)" not in text:
            pf.append("structural: subscribe does not return Disposable(auto_detach_observer.dispose)")
    overriders = []
    for p in (fw.REPO / "reactivex").rglob("*.py"):
        if (p.name == "observable.py" and p.parent.name == "observable") or p.parent.name == "abc":
            continue
        try:
            t = ast.parse(p.read_text())
        except SyntaxError:
            continue
        for node in ast.walk(t):
            if isinstance(node, ast.ClassDef):
                bases = [ast.unparse(b) for b in node.bases]
                if any("Observable" in b or "Subject" in b for b in bases):
                    for f in node.body:
                        if isinstance(f, ast.FunctionDef) and f.name == "subscribe":
                            overriders.append(f"{p.relative_to(fw.REPO)}:{node.name}")
    if overriders:
        pf.append(f"structural: subscribe overridden in {overriders}")
    return {"proof_failures": pf, "coverage": {"structural_checks": 4, "subscribe_overriders": overriders}}


LEVEL_TEXT = ("Lean theorems: for every call list on AutoDetachObserver / Observer / Observable.subscribe (any order, after terminals, "
              "re-entrant, raising callbacks at any index) the user callbacks are invoked as next* (error|completed)?; proved by induction, no bound. "
              "The model is tied to the code by differential execution of call scripts on the real classes, a structural check that subscribe "
              "is the only route to user callbacks, and a grammar oracle over generated pipelines with non-conforming sources.")
LEVEL_NOTE = ("Model = the three observer classes as atomic method calls (single-threaded / virtual time, as the property quantifies). Trusted: the "
              "correspondence harness and the structural universality check; operator internals are covered only by the pipeline oracle (exploration).")

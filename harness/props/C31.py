"""C31 — an EventLoopScheduler runs actions serially on one thread, in order (DESIGN.md §5 C31).
Lean: RxModel/ThrEL.lean (atomic-step model: clients, the loop thread(s), ready list, timed queue, condition, _thread,
exit_if_empty, dispose; actions are data), RxProofs/C31.lean (invariant proofs for all interleavings).

Correspondence (real threads under the deterministic interleaving controller, controlled clock, nothing modified in /repo):
  * `cases`  — generated programs for 1-2 client threads (nested schedule / schedule_relative / schedule_absolute / cancel /
    dispose / tick, also from inside actions) on the real EventLoopScheduler with and without exit_if_empty, run under the
    controller's default non-preemptive schedule, which the Lean driver mirrors (`el_seq`): the complete observable event list
    (sched / raised / enq(imm, spawned thread) / cancel / dispose / collect(ids, time) / start(clock) / skip / fin / waits / exits)
    and the final state are compared;
  * `extra`  — every schedule with <= k deviations (k=2 quick / 3 thorough) from that schedule + random deeper ones for a set
    of small configurations; per schedule (i) the property oracle on the observed events and (ii) the observed
    lock-section / flag / queue event sequence replayed step by step in the atomic-step model (`el_trace`).
"""
import logging
import os

import fw

LEAN_TARGETS = ["RxProofs.C31"]
DRIVER = "drv_thr"
DRIVER_ROOT = "Thr"
THEOREMS = [
    "C31.loop_single_thread_serial",
    "C31.single_thread_ever",
    "C31.ready_fifo",
    "C31.timed_not_early_in_order",
    "C31.gather_cross_due_order",
    "C31.cancelled_before_check_never_runs",
    "C31.after_dispose_raises_and_nothing_runs",
    "C31.disposed_schedule_raises",
    "C31.exit_if_empty_restarts",
]
RULE = ("1-2 client programs: depth <= 2, 1..4 ops per body from schedule / schedule_relative(d in {-3,0,5,10,40}) / schedule_absolute / "
        "cancel(in-scope label) / dispose (~20% of cases) / tick; exit_if_empty on/off; non-trivial = an action schedules another action or a "
        "timed item is waited for or a cancel/dispose occurs. Thread schedules: enumerated deviations from the non-preemptive schedule at "
        "line granularity (+ lock/condition operations); non-trivial = at least one preemption inside schedule_absolute/run/dispose")
ASSUMPTIONS = [
    "'an action starts' = the loop thread's is_cancelled() read when it takes the item from its batch (linearisation point, DESIGN.md section 8)",
    "actions do not raise (an exception escaping an action kills the loop thread; not modelled)",
    "atomicity: a `with self._condition:` block is one step; the `_is_disposed` test of schedule_absolute and the dt computation are single unlocked steps",
    "the condition variable is one slot (sound given at most one loop thread, which is proved); a timed wait may return at any time; an untimed wait only after notify",
    "PriorityQueue = stably sorted list; integer microseconds on a controlled clock",
    "NewThreadScheduler / ThreadPoolScheduler = one private exit_if_empty EventLoopScheduler per item: each item's private loop is checked against the same model (per-item trace replay) and oracle; the ThreadPoolExecutor is replaced by a stub that runs submitted targets on controlled threads; schedule_periodic is C35's",
]
TRUSTED_EXTRA = ["interleaving controller harness/sched/thr_ctl.py + thr_el.py (event extraction, lock-section classification)"]

logging.getLogger("Rx").setLevel(logging.ERROR)


class _Gen:
    def __init__(self, rng, base, allow_dispose):
        self.rng, self.next, self.allow_dispose = rng, base, allow_dispose

    def body(self, depth, scope):
        rng = self.rng
        n = rng.choice([1, 2, 2, 3, 4]) if depth == 0 else rng.choice([0, 1, 1, 2, 3])
        ops, scope = [], list(scope)
        for _ in range(n):
            r = rng.random()
            if r < 0.55 and depth < 2:
                lbl = self.next
                self.next += 1
                k = rng.random()
                if k < 0.12:
                    ops.append(["abs", lbl, rng.choice([-5, 0, 8, 30]), self.body(depth + 1, scope)])
                elif k < 0.5:
                    ops.append(["rel", lbl, rng.choice([-3, 0, 5, 10, 10, 40]), self.body(depth + 1, scope)])
                else:
                    ops.append(["sched", lbl, self.body(depth + 1, scope)])
                scope.append(lbl)
            elif r < 0.7 and scope:
                ops.append(["cancel", rng.choice(scope)])
            elif r < 0.78 and self.allow_dispose:
                ops.append(["dispose"])
            elif r < 0.92:
                ops.append(["tick", rng.choice([1, 5, 10, 20])])
            else:
                lbl = self.next
                self.next += 1
                ops.append(["sched", lbl, []])
                scope.append(lbl)
        return ops


def gen_case(rng):
    n = rng.choice([1, 1, 2])
    allow_dispose = rng.random() < 0.22
    progs = [_Gen(rng, 100 * i + 1, allow_dispose).body(0, []) for i in range(n)]
    tz = {}

    def walk(prog):
        for o in prog:
            if o[0] == "abs" and rng.random() < 0.6:
                tz[str(o[1])] = rng.choice([-11, -5, 2, 9])  # the absolute due time is written in that zone (same instant)
            if o[0] in ("sched", "rel", "abs"):
                walk(o[-1])

    for p in progs:
        walk(p)
    return {"op": "el_seq", "xie": rng.random() < 0.5, "progs": progs, "tz": tz}


def cases(rng, tier):
    yield {"op": "el_seq", "xie": True, "progs": [[["sched", 1, [["rel", 2, 10, []], ["sched", 3, []]]], ["sched", 4, []], ["cancel", 4], ["tick", 50], ["sched", 5, []]]]}
    yield {"op": "el_seq", "xie": False, "progs": [[["sched", 1, [["dispose"], ["sched", 2, []]]], ["sched", 3, []]], [["rel", 101, 5, []]]]}
    for _ in range(fw.tier_scale(tier, 700, 7000)):
        yield gen_case(rng)
    for _ in range(fw.tier_scale(tier, 80, 800)):
        yield gen_private(rng)


def gen_private(rng):
    """NewThreadScheduler / ThreadPoolScheduler: top-level schedule / schedule_relative (tick-only bodies) / cancel / tick"""
    progs = []
    for ci in range(rng.choice([1, 1, 2])):
        ops, mine = [], []
        for j in range(rng.choice([1, 2, 3, 4])):
            r = rng.random()
            if r < 0.6:
                lbl = 100 * ci + len(mine) + 1
                body = [["tick", rng.choice([1, 3])]] if rng.random() < 0.3 else []
                ops.append(["rel", lbl, rng.choice([0, 5, 10]), body] if rng.random() < 0.5 else ["sched", lbl, body])
                mine.append(lbl)
            elif r < 0.8 and mine:
                ops.append(["cancel", rng.choice(mine)])
            else:
                ops.append(["tick", rng.choice([1, 5, 10])])
        progs.append(ops)
    return {"op": "private_loops", "kind": rng.choice(["newthread", "threadpool"]), "progs": progs}


def _size(prog):
    return sum(1 + (_size(o[-1]) if o[0] in ("sched", "rel", "abs") else 0) for o in prog)


def model_request(case):
    if case["op"] != "el_seq":
        return None
    return {"op": "el_seq", "xie": case["xie"], "clock": 0, "progs": case["progs"], "fuel": 60 * sum(_size(p) for p in case["progs"]) + 100}


def impl(case):
    from sched import thr_el

    if case["op"] == "threads":
        return _one(case["cfg"], {int(i): int(t) for i, t in case.get("pre", [])})[1]
    if case["op"] == "private_loops":
        # default schedule on NewThreadScheduler / ThreadPoolScheduler: oracle + per-item structural problems (the per-item model
        # replay runs in `extra`)
        return _one({"kind": case["kind"], "xie": True, "progs": case["progs"]}, {})[1]
    cfg = {"progs": case["progs"], "xie": case["xie"], "tz": case.get("tz")}
    res = thr_el.run_threads(cfg, {})
    if res["status"] == "hang":
        raise RuntimeError("controller hang")
    evs, problems = thr_el.events_of(res)
    f = res["final"]
    return {"events": evs, "problems": problems, "status": res["status"], "oracle": thr_el.oracle(cfg, res),
            "final": {"disposed": f["disposed"], "thread_none": f["thread_none"], "ready_list": f["ready_list"], "queue": f["queue"],
                      "clock": f["clock"], "nthreads": f["nthreads"]}}


def canon_impl(case, out):
    if case["op"] != "el_seq":
        return out
    return {"events": out["events"], "final": out["final"], "problems": out["problems"]}


def canon_model(case, resp):
    if case["op"] != "el_seq":
        return resp
    f = resp["final"]
    return {"events": resp["events"], "problems": [],
            "final": {"disposed": f["disposed"], "thread_none": f["thread"] is None, "ready_list": f["ready_list"], "queue": f["queue"],
                      "clock": f["clock"], "nthreads": f["nthreads"]}}


def oracle(case, out):
    return out.get("oracle")


def _has(prog, kinds):
    return any(o[0] in kinds or (o[0] in ("sched", "rel", "abs") and _has(o[-1], kinds)) for o in prog)


def nontrivial(case, out):
    if case["op"] == "private_loops":
        return sum(1 for p in case["progs"] for o in p if o[0] in ("sched", "rel")) >= 2
    if case["op"] != "el_seq":
        return True
    ev = out["events"]
    nested = any(e[0] == "sched" and e[1] >= len(case["progs"]) for e in ev)
    return nested or any(e[0] in ("waitT", "cancel", "dispose") for e in ev)


def bucket(case, out):
    if case["op"] == "private_loops":
        yield "private-loops:" + case["kind"]
        return
    if case["op"] != "el_seq":
        return
    yield "xie" if case["xie"] else "no-xie"
    yield f"clients:{len(case['progs'])}"
    ev = out["events"]
    for k in ("waitT", "waitU", "exitEmpty", "exitDisposed", "raised", "skip", "dispose", "cancel"):
        if any(e[0] == k for e in ev):
            yield "ev:" + k
    if any(e[0] == "enq" and not e[3] for e in ev):
        yield "timed-item"
    if sum(1 for e in ev if e[0] == "enq" and e[4] is not None) > 1:
        yield "thread-restarted"
    yield f"actions:{min(8, sum(1 for e in ev if e[0] == 'start'))}"


def shrink(case):
    if case["op"] != "el_seq":
        return

    def variants(prog):
        for i, o in enumerate(prog):
            yield prog[:i] + prog[i + 1:]
            if o[0] in ("sched", "rel", "abs"):
                for b in variants(o[-1]):
                    yield prog[:i] + [o[:-1] + [b]] + prog[i + 1:]

    for pi in range(len(case["progs"])):
        for p in variants(case["progs"][pi]):
            c = dict(case)
            c["progs"] = case["progs"][:pi] + [p] + case["progs"][pi + 1:]
            yield c


# ----------------------------------------------------------------------------------------- threads
def _one(cfg, pre):
    from sched import thr_el

    res = thr_el.run_threads(cfg, pre)
    if res["status"] == "hang":  # a watchdog fired: retry once (an overloaded machine can starve the baton hand-over)
        res = thr_el.run_threads(cfg, pre)
    if res["status"] == "hang":
        raise RuntimeError(f"controller hang cfg={cfg} pre={pre}")
    if any(o[0] == "periodic" for p in cfg["progs"] for o in p):
        traces, problems, verdict = [], [], thr_el.oracle_periodic(cfg, res)  # oracle only (schedule_periodic has no model here)
    elif cfg.get("kind", "el") == "el":
        trace, problems, _ = thr_el.labels_of(res)
        traces = [{"xie": cfg["xie"], "progs": cfg["progs"], "trace": trace}]
        verdict = thr_el.oracle(cfg, res)
    else:
        # NewThreadScheduler / ThreadPoolScheduler: one private exit_if_empty loop per item, each replayed on its own
        traces, problems = [], []
        for lbl, (icfg, ires) in sorted(thr_el.split_instances(cfg, res).items()):
            tr, pb, _ = thr_el.labels_of(ires)
            traces.append({"xie": True, "progs": icfg["progs"], "trace": tr})
            problems += [f"item {lbl}: {x}" for x in pb]
        verdict = thr_el.oracle_private_loops(cfg, res)
    return res, {"status": res["status"], "oracle": verdict, "problems": problems, "trace": traces,
                 "nchoices": len(res["choices"]), "steps": res["steps"]}


def _record(pre, summ, seen):
    h = fw.key(summ["trace"])
    r = {"pre": sorted(pre.items()), "status": summ["status"], "oracle": summ["oracle"], "problems": summ["problems"], "nchoices": summ["nchoices"]}
    if h not in seen:
        seen.add(h)
        r["trace"] = summ["trace"]
    return r


def explore_item(item):
    from sched import thr_ctl

    cfg, k = item["cfg"], item["k"]
    out, seen = [], set()

    def rec(pre, start, depth):
        res, summ = _one(cfg, pre)
        out.append(_record(pre, summ, seen))
        if depth >= k:
            return
        for i, t in thr_ctl.first_level(res["choices"], start):
            p2 = dict(pre)
            p2[i] = t
            rec(p2, i + 1, depth + 1)

    rec({int(i): int(t) for i, t in item["pre"]}, item["start"], item["depth"])
    return out


def sample_item(item):
    import random
    from sched import thr_ctl

    rng = random.Random(item["seed"])
    cfg = item["cfg"]
    base, _ = _one(cfg, {})
    out, seen = [], set()
    for _ in range(item["runs"]):
        pre = thr_ctl.sample_preempts(rng, base["choices"], item["n"])
        res, summ = _one(cfg, pre)
        out.append(_record(pre, summ, seen))
    return out


def _work(item):
    return sample_item(item) if item.get("sample") else explore_item(item)


def thread_configs(rng, tier):
    q = tier != "thorough"
    cfgs = [
        ("two-immediate", {"xie": False, "progs": [[["sched", 1, []], ["sched", 2, []]]]}, 2 if q else 3),
        ("xie-restart", {"xie": True, "progs": [[["sched", 1, []], ["tick", 5], ["sched", 2, []]]]}, 2 if q else 3),
        ("cancel-race", {"xie": False, "progs": [[["sched", 1, []], ["sched", 2, []], ["cancel", 2]]]}, 2 if q else 3),
        ("dispose-race", {"xie": False, "progs": [[["sched", 1, [["sched", 3, []]]], ["dispose"], ["sched", 2, []]]]}, 1 if q else 2),
        ("timed", {"xie": True, "progs": [[["rel", 1, 10, []], ["sched", 2, [["rel", 3, 5, []]]]]]}, 1 if q else 2),
        ("two-clients", {"xie": False, "progs": [[["sched", 1, []]], [["sched", 101, []], ["dispose"]]]}, 1 if q else 2),
        ("two-clients-xie", {"xie": True, "progs": [[["sched", 1, []]], [["rel", 101, 5, []]]]}, 1 if q else 2),
        # NewThreadScheduler / ThreadPoolScheduler: a private exit_if_empty EventLoopScheduler per item
        ("newthread", {"kind": "newthread", "xie": True, "progs": [[["sched", 1, [["tick", 3]]], ["rel", 2, 10, []], ["cancel", 2]]]}, 1),
        # a condition timeout that fires before the scheduler clock reaches the due time (clock skew): the loop must re-compare
        ("timed-early-timeout", {"xie": False, "progs": [[["rel", 1, 10, []], ["rel", 2, 30, []]]], "early_timeouts": [2, 4]}, 1 if q else 2),
        # schedule_periodic of NewThreadScheduler / ThreadPoolScheduler: period 0 / a tick that overruns its period, dispose while a tick runs
        ("periodic-overrun", {"kind": "newthread", "xie": True, "max_steps": 1500,
                              "progs": [[["periodic", 1, 5, 5], ["sleep", 12], ["pcancel", 1]]]}, 1 if q else 2),
        ("periodic-zero", {"kind": "threadpool", "xie": True, "max_steps": 1500,
                           "progs": [[["periodic", 1, 0, 4], ["sleep", 9], ["pcancel", 1]]]}, 1 if q else 2),
        ("periodic-normal", {"kind": "newthread", "xie": True, "max_steps": 1500,
                             "progs": [[["periodic", 1, 10, 2], ["sleep", 25], ["pcancel", 1]]]}, 1),
        ("threadpool", {"kind": "threadpool", "xie": True, "progs": [[["rel", 1, 5, []]], [["sched", 101, []], ["cancel", 101]]]}, 1),
    ]
    for j in range(2):
        for _ in range(50):
            c = gen_case(rng)
            if 2 <= sum(_size(p) for p in c["progs"]) <= 5:
                break
        cfgs.append((f"generated-{j}", {"xie": c["xie"], "progs": c["progs"]}, 1))
    return cfgs


def _explore_all(items, procs, timeout):
    import signal

    def on_alarm(signum, frame):
        raise TimeoutError(f"thread exploration exceeded {timeout}s")

    old = signal.signal(signal.SIGALRM, on_alarm)
    signal.alarm(int(timeout))
    try:
        return fw.pmap("props.C31", "_work", items, procs=procs, chunk=1)
    finally:
        signal.alarm(0)
        signal.signal(signal.SIGALRM, old)


def _base_child(cfg):
    res, summ = _one(cfg, {})
    return {"choices": [list(c) for c in res["choices"]], "steps": res["steps"], "status": res["status"], "oracle": summ["oracle"]}


def extra(rng, tier):
    from sched import thr_ctl

    failures, cov = [], {}
    procs = min(16, os.cpu_count() or 4)
    items, meta = [], {}
    for name, cfg, k in thread_configs(rng, tier):
        st, summ = fw.run_with_timeout(_base_child, (cfg,), timeout=120.0)
        if st != "ok":
            raise RuntimeError(f"controller base run failed for {name}: {st} {summ}")
        choices = [tuple(c) for c in summ["choices"]]
        meta[name] = {"k": k, "choice_points": len(choices), "steps": summ["steps"]}
        if summ["status"] not in ("ok", "idle"):
            # the default (fair, non-preemptive) schedule already fails: report it, do not enumerate thousands of such runs
            failures.append(fw.Failure("oracle", {"op": "threads", "cfg": cfg, "pre": []}, summ.get("oracle") or f"run ended with status {summ['status']} under the default schedule"))
            continue
        items.append({"name": name, "cfg": cfg, "pre": [], "start": 0, "depth": k, "k": k})
        for i, t in thr_ctl.first_level(choices):
            items.append({"name": name, "cfg": cfg, "pre": [[i, t]], "start": i + 1, "depth": 1, "k": k})
        ns = fw.tier_scale(tier, 48, 800)
        for j in range(4):
            items.append({"name": name, "cfg": cfg, "sample": True, "seed": rng.randrange(1 << 30), "runs": ns // 4, "n": k + 1 + (j % 2)})
    results = _explore_all(items, procs, fw.tier_scale(tier, 400, 3000))
    for r in results:
        if isinstance(r, dict) and "harness_exception" in r:
            raise RuntimeError(f"thread exploration failed: {r['harness_exception']} {r.get('tb', '')}")
    reqs, owners = [], []
    nsched, ndistinct, statuses = {}, {}, {}
    for item, recs in zip(items, results):
        name, cfg = item["name"], item["cfg"]
        for r in recs:
            nsched[name] = nsched.get(name, 0) + 1
            statuses[r["status"]] = statuses.get(r["status"], 0) + 1
            case = {"op": "threads", "cfg": cfg, "pre": [list(p) for p in r["pre"]]}
            if r["oracle"]:
                failures.append(fw.Failure("oracle", case, r["oracle"]))
            if r["problems"]:
                failures.append(fw.Failure("correspondence", case, {"atomicity": r["problems"][:5]}))
            if "trace" in r:
                ndistinct[name] = ndistinct.get(name, 0) + 1
                for tr in r["trace"]:
                    reqs.append({"op": "el_trace", "xie": tr["xie"], "clock": 0, "progs": tr["progs"], "trace": tr["trace"]})
                    owners.append(case)
    pf = []
    if reqs:
        try:
            resps = fw.run_driver(DRIVER, reqs)
            for case, req, resp in zip(owners, reqs, resps):
                if not resp.get("ok"):
                    at = resp.get("at")
                    failures.append(fw.Failure("correspondence", case, {"trace_not_a_model_run_at": at,
                                                                        "observed": req["trace"][at] if at is not None and at < len(req["trace"]) else None,
                                                                        "model": resp.get("model"), "error": resp.get("error")}))
        except Exception as e:  # noqa
            pf.append(f"model driver failed on thread traces: {e}")
    cov.update({"thread_schedules": nsched, "thread_distinct_traces": ndistinct, "thread_configs": meta, "thread_statuses": statuses,
                "thread_trace_replays": len(reqs)})
    return {"failures": failures, "coverage": cov, "proof_failures": pf}


def search(rng, tier, disagreeing):
    for c in disagreeing[:60]:
        try:
            v = oracle(c, impl(c))
        except Exception:
            continue
        if v:
            return fw.Failure("oracle", c, v)
    return None


LEVEL_TEXT = ("Lean theorems over an atomic-step model of EventLoopScheduler (any number of client threads with arbitrary programs, the loop "
              "thread(s), actions as data that may schedule/cancel/dispose, arbitrary time passing, EVERY schedule, unbounded): at most one loop "
              "thread alive and at most one action executing, only on a loop thread (and at most one thread ever without exit_if_empty); "
              "immediately-due submissions are taken in submission order (conservation equation: submitted = taken ++ batch ++ ready_list); every "
              "start is at a clock >= due and timed items are taken in (due, submission) order; no start after a cancel (start = the loop's "
              "is_cancelled() read); after the dispose step no schedule call passes the _is_disposed test and the loop gathers nothing more; "
              "pending work implies _thread set, _thread set and not disposed implies that thread is in its loop, an un-notified untimed wait sees "
              "both containers empty (exit_if_empty restarts, no lost wake-up).")
LEVEL_NOTE = ("Cross order timed/immediate: the property text's 'in due-time order' is read as also ordering a timed and an immediately-due "
              "action that are pending in the same gathering (gather_cross_due_order for timed-before-immediate; the symmetric rule is checked by "
              "the oracle only when the immediate submissions were themselves made in due order, because a racing/past-due submission legitimately "
              "leaves the ready list out of due order). Safety invariants only: 'eventually runs' additionally needs a fair OS scheduler (the quiescence oracle checks it on every explored "
              "schedule). Atomicity of the model's steps is validated by the controller (guarded fields only touched under the condition's lock; "
              "each locked section = one model step), not proved. Observed and not claimed wrong: after dispose() a loop thread that was executing "
              "actions may block forever in the untimed wait (the notify was sent while it was not waiting) - a thread leak, outside the property.")

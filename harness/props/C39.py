"""C39 — fluent operator methods equal their piped operators (DESIGN.md §5 C39).

Three layers:
 * translator (harness/xlate/fluent.py) -> lean/RxGen/Fluent.lean; `C39.fluent_forwarding_ok` (`decide`) + the
   soundness theorem `C39.fluent_eq_pipe` (a row that passes the check builds, for every argument environment, the same
   operator application as the direct call of ops.NAME with the same arguments);
 * correspondence ("bind" cases): the real mixin method is called with opaque tokens while every `reactivex.operators.*`
   function is replaced by a recorder that binds the arguments with the operator's real signature; the recorded
   operator application is compared with the one the Lean model (`Struct.Fluent.fluentApp` over the generated table)
   computes, and the same for the direct call (`pipedApp`);
 * behavioural oracle ("run" cases, no model involved): every fluent method with generated arguments against the piped
   form on the same virtual timeline (reactivex.testing.TestScheduler), all notifications (nested observables
   included), side effects of callbacks, and construction-time exceptions compared.
"""
from __future__ import annotations

import inspect
import random
import signal
import types

import fw
from fw import InjectedError, enc, err_name
from xlate import fluent as xf

LEAN_TARGETS = ["RxProofs.C39"]
DRIVER = "drv_struct"
DRIVER_ROOT = "Struct"
THEOREMS = [
    "C39.fluent_forwarding_ok",
    "C39.fluent_eq_pipe",
    "C39.fluent_eq_pipe_table",
    "C39.fluent_op_name",
]
RULE = ("bind cases: every one of the mixin methods x call shapes (optional arguments omitted / given positionally / by keyword / "
        "given explicitly as the default, varargs of 0-2 items), opaque tokens as values; run cases: every mixin method x generated "
        "arguments x generated cold timelines, fluent form vs piped form on separate TestSchedulers; for every parameter the method body tests "
        "(`is None`, `is NotSet`, truthiness; read off the AST independently of shape recognition) every sentinel-like value None/0/''/[]/False "
        "passed explicitly over an empty and a non-empty source; for every parameter annotated Iterable: list / iter(list) / generator / bounded "
        "counter arguments with a re-subscription (repeat(2) or a second subscriber). A bind case is non-trivial "
        "when the fluent call binds (no TypeError); a run case is non-trivial when the fluent form delivered at least one notification "
        "or raised at construction. Distinct by canonical JSON of the case.")
ASSUMPTIONS = [
    "the translator reads the AST of the mixin files and of reactivex/operators/__init__.py correctly (fails closed on unknown shapes)",
    "Python call binding restricted to the shapes the mixins use (positional, keyword, *args); validated against inspect.signature binding on every run",
    "eight fluent methods name a positional parameter differently from the operator (informational, listed in the evidence): calling them by keyword is outside the comparison",
]
TRUSTED_EXTRA = ["harness/xlate/fluent.py (AST translator, ~250 lines)"]

ALIAS = {"do": "do_action", "to_list": "to_iterable"}
_TAB = None


def table():
    global _TAB
    if _TAB is None:
        _TAB = xf.extract(fw.REPO)
    return _TAB


def regenerate():
    global _TAB
    _TAB, summ = xf.regenerate(fw.REPO, fw.LEAN)
    return summ


# =============================================================================== bind cases
CONSTS = {"None": None, "False": False, "True": True, "0.1": 0.1, "()": ()}


def _shapes(rng, m, n):
    """call shapes for method row m: (pos values, star tokens, kw pairs) with token strings"""
    ps = m["params"]
    pos_ps = [p for p in ps if p["kind"] == "pos"]
    kw_ps = [p for p in ps if p["kind"] == "kwonly"]
    var = next((p for p in ps if p["kind"] == "vararg"), None)
    out = []
    for _ in range(n):
        pos, kw = [], []
        broke = False
        for i, p in enumerate(pos_ps):
            optional = p["dflt"] is not None
            r = rng.random()
            if optional and r < 0.35:
                broke = True  # omitted; later ones go by keyword
                continue
            if (not optional) and rng.random() < 0.04:
                broke = True  # missing required argument -> TypeError expected on both sides
                continue
            val = "$" + p["name"]
            if optional and rng.random() < 0.3:
                val = p["dflt"]  # explicitly the default
            elif rng.random() < 0.15:
                val = "None"
            if broke:
                kw.append([p["name"], val])
            else:
                pos.append(val)
        star = []
        if var is not None and not broke:
            star = ["$%s.%d" % (var["name"], i) for i in range(rng.choice([0, 1, 2]))]
        for p in kw_ps:
            if rng.random() < 0.6:
                val = "$" + p["name"]
                if rng.random() < 0.3 and p["dflt"] is not None:
                    val = p["dflt"]
                kw.append([p["name"], val])
        rng.shuffle(kw)
        out.append((pos, star, kw))
    return out


def gen_bind_cases(rng, tier):
    per = fw.tier_scale(tier, 6, 40)
    for m in table()["methods"]:
        seen = set()
        for pos, star, kw in _shapes(rng, m, per):
            k = fw.key([pos, star, kw])
            if k in seen:
                continue
            seen.add(k)
            yield {"op": "bind", "method": m["name"], "pos": pos, "star": star, "kw": kw}


class Tok:
    def __init__(self, name):
        self.name = name

    def __repr__(self):
        return "$" + self.name


def _val(s):
    from reactivex.internal.utils import NotSet

    if s.startswith("$"):
        return Tok(s[1:])
    if s == "NotSet":
        return NotSet
    return CONSTS[s]


def _tokstr(v):
    from reactivex.internal.utils import NotSet

    if isinstance(v, Tok):
        return "$" + v.name
    if v is NotSet:
        return "NotSet"
    if isinstance(v, tuple):
        if not v:
            return "()"
        if all(isinstance(x, Tok) for x in v):
            names = [x.name for x in v]
            pre = names[0].rsplit(".", 1)[0]
            if names == ["%s.%d" % (pre, i) for i in range(len(v))]:
                return "$" + pre
        return "?" + repr(v)
    for k, c in CONSTS.items():
        if type(c) is type(v) and c == v:
            return k
    return "?" + repr(v)


def run_bind(case):
    import reactivex.operators as ops
    from reactivex import Observable

    src = Observable()
    records = []
    saved = {}
    names = [n for n in dir(ops) if not n.startswith("_") and inspect.isfunction(getattr(ops, n))
             and getattr(ops, n).__module__ == "reactivex.operators"]

    def mk(name, orig):
        sig = inspect.signature(orig)

        def recorder(*a, **kw):
            ba = sig.bind(*a, **kw)
            ba.apply_defaults()
            entry = {"op": name, "args": [[k, _tokstr(v)] for k, v in ba.arguments.items()]}

            def apply(source):
                records.append(dict(entry, recv=source is src))
                return "APPLIED"

            return apply

        return recorder

    for n in names:
        saved[n] = getattr(ops, n)
        setattr(ops, n, mk(n, saved[n]))
    try:
        pos = [_val(s) for s in case["pos"]] + [_val(s) for s in case["star"]]
        kw = {k: _val(v) for k, v in case["kw"]}
        out = {}
        for form in ("fluent", "piped"):
            del records[:]
            try:
                if form == "fluent":
                    r = getattr(src, case["method"])(*pos, **kw)
                else:
                    r = src.pipe(getattr(ops, ALIAS.get(case["method"], case["method"]))(*pos, **kw))
                if len(records) == 1 and r == "APPLIED":
                    out[form] = records[0]
                else:
                    out[form] = {"weird": len(records), "ret": repr(r)[:40]}
            except TypeError as e:
                out[form] = {"typeerror": str(e)[:120]}
        return out
    finally:
        for n, f in saved.items():
            setattr(ops, n, f)


def bind_env(case):
    """environment by mixin parameter name (what the Lean model takes), from the real method's signature"""
    from reactivex import Observable

    sig = inspect.signature(getattr(Observable, case["method"]))
    params = list(sig.parameters.values())[1:]
    env = []
    pos_ps = [p for p in params if p.kind == p.POSITIONAL_OR_KEYWORD]
    for p, v in zip(pos_ps, case["pos"]):
        env.append([p.name, v])
    var = next((p for p in params if p.kind == p.VAR_POSITIONAL), None)
    if var is not None and case["star"]:
        env.append([var.name, "$" + var.name])
    for k, v in case["kw"]:
        env.append([k, v])
    return env


# =============================================================================== run cases
def gen_msgs(rng, kind="int", allow_error=True, maxlen=6):
    t = 0
    msgs = []
    n = rng.randrange(0, maxlen + 1)
    for i in range(n):
        t += rng.choice([5, 10, 10, 20, 30])
        msgs.append([t, ["N", rng.randrange(0, 6)]])
    t += rng.choice([5, 10, 20])
    r = rng.random()
    if r < 0.75:
        msgs.append([t, ["C"]])
    elif r < 0.9 and allow_error:
        msgs.append([t, ["E", "src%d" % rng.randrange(3)]])
    return msgs


SENTINELS = [None, 0, "", [], False]  # values a sloppy guard (`not x`, `x is None or ...`, `== None`) confuses with "not given"


def _op_has_default(m, p):
    o = next((o for o in table()["ops"] if o["name"] == ALIAS.get(m["name"], m["name"])), None)
    if o is None:
        return True
    if p["kind"] == "pos":
        i = [q["name"] for q in m["params"] if q["kind"] == "pos"].index(p["name"])
        oq = [q for q in o["params"] if q["kind"] == "pos"]
        return i >= len(oq) or oq[i]["dflt"] is not None
    q = next((q for q in o["params"] if q["name"] == p["name"]), None)
    return q is None or q["dflt"] is not None


def gen_run_cases(rng, tier):
    per = fw.tier_scale(tier, 8, 60)
    for m in table()["methods"]:
        for _ in range(per):
            ps = m["params"]
            omit, explicit = [], []
            for p in ps:
                # an argument is only ever omitted when the operator itself can be called without it
                # ("the same arguments" must be a valid call of ops.NAME); see lenient_defaults in the evidence
                if p["kind"] in ("pos", "kwonly") and p["dflt"] is not None and _op_has_default(m, p):
                    r = rng.random()
                    if r < 0.35:
                        omit.append(p["name"])
                    elif r < 0.45:
                        explicit.append(p["name"])
            yield {"op": "run", "method": m["name"], "omit": omit, "explicit": explicit, "seed": rng.randrange(1 << 30),
                   "src": gen_msgs(rng), "nstar": rng.choice([0, 1, 2])}
        # iterable parameters: one-shot iterators / generators / a bounded counter, with a re-subscription (repeat(2), or a second
        # subscriber after the first finished) - consuming or materialising the argument at the wrong moment shows only then
        for g in m.get("iterables", []):
            for kind in ("iter", "gen", "count", "list"):
                for resub in ("repeat", "two"):
                    for _ in range(2):
                        src = [x for x in gen_msgs(rng, allow_error=False, maxlen=3) if x[1][0] == "N"]
                        src = src + [[(src[-1][0] if src else 0) + 10, ["C"]]]
                        yield {"op": "run", "method": m["name"], "omit": [], "explicit": [], "seed": rng.randrange(1 << 30),
                               "src": src, "nstar": 0, "iter": {g: kind}, "resub": resub}
        # parameters the method body tests (`is None`, `is NotSet`, truthiness ...): every sentinel-like value, explicitly passed,
        # over an empty and a non-empty source (that is where a wrong guard becomes observable)
        for g in m.get("guarded", []):
            p = next((p for p in m["params"] if p["name"] == g and p["kind"] in ("pos", "kwonly")), None)
            if p is None:
                continue
            for si in range(len(SENTINELS)):
                for src in ([[5, ["C"]]], gen_msgs(rng, allow_error=False, maxlen=4) or [[5, ["C"]]]):
                    yield {"op": "run", "method": m["name"], "omit": [], "explicit": [], "seed": rng.randrange(1 << 30),
                           "src": src, "nstar": rng.choice([0, 1]), "sentinel": {g: si}}


class Ctx:
    def __init__(self, case, sched, log):
        self.case = case
        self.sched = sched
        self.r = random.Random(case["seed"])
        self.log = log
        self.method = case["method"]

    def cold(self, msgs=None, kind="int"):
        from reactivex.testing import ReactiveTest

        if msgs is None:
            msgs = gen_msgs(self.r, maxlen=3)
        rec = []
        for t, n in msgs:
            if n[0] == "N":
                rec.append(ReactiveTest.on_next(t, self.conv(n[1], kind)))
            elif n[0] == "C":
                rec.append(ReactiveTest.on_completed(t))
            else:
                rec.append(ReactiveTest.on_error(t, InjectedError(n[1])))
        return self.sched.create_cold_observable(*rec)

    def timer(self, d=None):
        d = self.r.choice([5, 15, 25, 40]) if d is None else d
        return self.cold([[d, ["N", 0]], [d, ["C"]]])

    def conv(self, v, kind):
        from reactivex.notification import OnNext

        if kind == "int":
            return v
        if kind == "tuple":
            return (v, v + 1)
        if kind == "dict":
            return {"k": v}
        if kind == "obj":
            return types.SimpleNamespace(v=v)
        if kind == "notif":
            return OnNext(v)
        if kind == "obs":
            rr = random.Random(self.case["seed"] * 31 + v)
            return self.cold(gen_msgs(rr, maxlen=2, allow_error=False))
        raise ValueError(kind)


SRC_KIND = {"starmap": "tuple", "starmap_indexed": "tuple", "pluck": "dict", "pluck_attr": "obj", "dematerialize": "notif",
            "merge_all": "obs", "switch_latest": "obs", "exclusive": "obs"}


def _side(ctx, name):
    def f(*a):
        ctx.log.append([int(ctx.sched.clock), "side:" + name, [_encv(x, None) for x in a]])
    return f


def _counter_cond(ctx):
    n = ctx.r.choice([0, 1, 2, 3])
    box = [0]

    def cond(_src):
        box[0] += 1
        return box[0] <= n
    return cond


def arg_for(ctx, m, pname):
    """value for parameter `pname` of fluent method `m` (deterministic in ctx.r)"""
    import reactivex
    from reactivex import operators as ops
    from reactivex.subject import ReplaySubject, Subject

    r = ctx.r
    k = r.randrange(6)

    def inner_of(*a):  # inner observable depending deterministically on the element
        v = a[0] if a and isinstance(a[0], int) else 0
        rr = random.Random(ctx.case["seed"] * 13 + v)
        return ctx.cold(gen_msgs(rr, maxlen=2, allow_error=False))

    key = (m, pname)
    if key == ("start_with", "args"):
        return "STAR", [r.randrange(6) for _ in range(ctx.case["nstar"])]
    if pname in ("sources", "others"):
        return "STAR", [ctx.cold() for _ in range(ctx.case["nstar"])]
    if pname == "max_concurrent":
        return r.choice([1, 2, None])
    if pname in ("right_source", "other", "sampler", "boundaries", "openings", "right"):
        if key == ("sample", "sampler") and r.random() < 0.5:
            return r.choice([10, 25])
        return ctx.cold()
    if key == ("zip_with_iterable", "second"):
        return [r.randrange(6) for _ in range(r.randrange(0, 5))]
    if pname == "second":
        return ctx.cold()
    if pname == "handler":
        alt = ctx.cold()
        return alt if r.random() < 0.5 else (lambda e, s: alt)
    if pname in ("left_duration_mapper", "right_duration_mapper", "duration_mapper", "throttle_duration_mapper",
                 "delay_duration_mapper", "timeout_duration_mapper"):
        d = r.choice([5, 15, 30])
        return lambda *_: ctx.timer(d)
    if pname == "closing_mapper":
        d = r.choice([15, 30, 45])
        return lambda *_: ctx.timer(d)
    if pname in ("default_value", "value", "initial_value", "seed"):
        return r.randrange(6)
    if pname == "predicate":
        c = r.randrange(4)
        raise_at = r.choice([None, None, None, 5])
        def pred(x):
            if x == raise_at:
                raise InjectedError("pred")
            return x >= c
        return pred
    if pname == "predicate_indexed":
        c = r.randrange(3)
        return lambda x, i: (x + i) % 3 != c
    if pname in ("retry_count", "repeat_count"):
        return r.choice([1, 2, 3])
    if pname in ("count", "index", "buffer_size"):
        lo = 1 if m in ("buffer_with_count", "window_with_count", "buffer_with_time_or_count", "window_with_time_or_count") else 0
        return r.randrange(lo, 4)
    if pname == "skip":
        return r.randrange(1, 4)
    if pname == "key_mapper":
        md = r.choice([2, 3])
        return lambda x: x % md
    if pname == "comparer":
        if m in ("min", "max", "min_by", "max_by"):
            return lambda a, b: (b - a)
        md = r.choice([2, 3])
        return lambda a, b: a % md == b % md
    if pname in ("inclusive", "has_default"):
        return r.choice([True, False])
    if pname in ("start", "stop"):
        return r.randrange(0, 5)
    if pname == "step":
        return r.randrange(1, 3)
    if pname in ("duration", "duetime", "timespan", "timeshift", "window_duration", "start_time", "end_time"):
        return r.choice([5, 10, 15, 25, 40, 60])
    if pname == "window":
        return r.choice([10, 30, 60])
    if pname == "first_timeout":
        return ctx.timer()
    if pname == "subscription_delay":
        return ctx.timer()
    if pname == "scheduler":
        return ctx.sched
    if pname == "subject":
        return Subject()
    if pname == "key":
        return "k"
    if pname == "attr":
        return "v"
    if pname in ("on_next", "on_error", "on_completed", "action"):
        return _side(ctx, pname)
    if pname == "condition":
        return _counter_cond(ctx)
    if pname == "element_mapper":
        return lambda x: x * 10
    if pname == "subject_mapper":
        return (lambda: ReplaySubject()) if r.random() < 0.5 else (lambda: Subject())
    if pname == "future_ctor":
        import concurrent.futures
        return concurrent.futures.Future
    if pname == "accumulator":
        return lambda a, x: a * 2 + x
    if pname == "project":
        return inner_of
    if pname == "mapper_indexed":
        if m in ("flat_map_indexed", "switch_map_indexed"):
            return lambda x, i: inner_of(x + i)
        if m == "starmap_indexed":
            return lambda a, b, i: a * 100 + b * 10 + i
        return lambda x, i: x * 10 + i
    if pname == "mapper":
        if m in ("flat_map", "flat_map_latest"):
            return inner_of
        if m == "expand":
            return lambda x: ctx.cold([[5, ["N", x + 2]], [10, ["C"]]]) if x < 4 else reactivex.empty()
        if m == "starmap":
            return lambda a, b: a * 10 + b
        if m in ("publish", "replay", "publish_value"):
            n = r.choice([1, 2, 3])
            return lambda o: o.pipe(ops.zip(o.pipe(ops.skip(1))), ops.take(n))
        return lambda x: x * 2 + 1
    raise KeyError("no argument generator for %s.%s" % (m, pname))


def build_args(ctx, mrow):
    pos, kw = [], {}
    broke = False
    case = ctx.case
    for p in mrow["params"]:
        n = p["name"]
        if p["kind"] == "varkw":
            continue
        v = arg_for(ctx, mrow["name"], n)  # always drawn, so that the random stream does not depend on the shape
        if p["kind"] == "vararg":
            assert v[0] == "STAR"
            if not broke:
                pos.extend(v[1])
            continue
        if n in case["omit"]:
            if p["kind"] == "pos":
                broke = True
            continue
        if n in case["explicit"]:
            v = _val(p["dflt"]) if p["dflt"] in CONSTS or p["dflt"] == "NotSet" else v
        if n in case.get("iter", {}):
            items = v if isinstance(v, list) else [ctx.r.randrange(6) for _ in range(ctx.r.randrange(2, 7))]
            kind = case["iter"][n]
            if kind == "iter":
                v = iter(list(items))
            elif kind == "gen":
                v = (x for x in list(items))
            elif kind == "count":
                import itertools
                v = itertools.islice(itertools.count(items[0] if items else 0), len(items) + 3)
            else:
                v = list(items)
        if n in case.get("sentinel", {}):
            s = SENTINELS[case["sentinel"][n]]
            v = list(s) if isinstance(s, list) else s
        if p["kind"] == "kwonly" or broke:
            kw[n] = v
        else:
            pos.append(v)
    return pos, kw


def _encv(v, subscribe_inner):
    from reactivex import Observable
    from reactivex.notification import Notification

    if isinstance(v, Observable):
        if subscribe_inner is None:
            return "<obs>"
        return ["<obs>", subscribe_inner(v)]
    if isinstance(v, (tuple, list)):
        e = [_encv(x, subscribe_inner) for x in v]
        return {"t": e} if isinstance(v, tuple) else e
    if isinstance(v, BaseException):
        return ["exc", err_name(v)]
    if isinstance(v, Notification):
        return ["notif", v.kind, _encv(getattr(v, "value", None), None), err_name(v.exception) if getattr(v, "exception", None) is not None else None]
    if isinstance(v, types.SimpleNamespace):
        return ["ns", repr(v)]
    return enc(v)


class Rec:
    def __init__(self, sched, log, tag, counter):
        self.sched, self.log, self.tag, self.counter = sched, log, tag, counter

    def _inner(self, o):
        self.counter[0] += 1
        t = "%s.%d" % (self.tag, self.counter[0])
        o.subscribe(Rec(self.sched, self.log, t, self.counter), scheduler=self.sched)
        return t

    def on_next(self, v):
        # the entry is appended before inner subscriptions may deliver synchronously
        slot = [int(self.sched.clock), self.tag, "N", None]
        self.log.append(slot)
        slot[3] = _encv(v, self._inner)

    def on_error(self, e):
        self.log.append([int(self.sched.clock), self.tag, "E", err_name(e)])

    def on_completed(self):
        self.log.append([int(self.sched.clock), self.tag, "C"])


class CaseTimeout(BaseException):
    pass


def run_form(case, form):
    import concurrent.futures

    import reactivex.operators as ops
    from reactivex import ConnectableObservable, Observable
    from reactivex.disposable import CompositeDisposable
    from reactivex.testing import TestScheduler

    mrow = next(m for m in table()["methods"] if m["name"] == case["method"])
    sched = TestScheduler()
    log = []
    ctx = Ctx(case, sched, log)
    kind = SRC_KIND.get(case["method"], "int")
    src = ctx.cold(case["src"], kind)
    if case["method"] == "ref_count":
        src = src.pipe(ops.publish())
    try:
        pos, kw = build_args(ctx, mrow)
        if form == "fluent":
            res = getattr(src, case["method"])(*pos, **kw)
        else:
            res = src.pipe(getattr(ops, ALIAS.get(case["method"], case["method"]))(*pos, **kw))
    except Exception as e:  # construction-time exception: part of the behaviour
        return {"raised": err_name(e), "log": log}
    counter = [0]
    disp = CompositeDisposable()
    shape = "observable"

    def sub(o, tag, at):
        def act(s, st):
            disp.add(o.subscribe(Rec(sched, log, tag, counter), scheduler=sched))
        sched.schedule_absolute(at, act)

    if isinstance(res, ConnectableObservable):
        shape = "connectable"
        sub(res, "a", 200)
        sub(res, "b", 200 + ctx.r.choice([0, 15, 40]))
        t_conn = 200 + ctx.r.choice([0, 10, 30])
        sched.schedule_absolute(t_conn, lambda s, st: disp.add(res.connect(sched)))
    elif isinstance(res, Observable) and case.get("resub"):
        if case["resub"] == "repeat":
            sub(res.pipe(ops.repeat(2)), "a", 200)
        else:
            sub(res, "a", 200)
            sub(res, "b", 600)  # after the first one has finished
    elif isinstance(res, Observable):
        sub(res, "a", 200)
        if case["method"] in ("share", "ref_count") or ctx.r.random() < 0.2:
            sub(res, "b", 200 + ctx.r.choice([0, 15, 40]))
    elif isinstance(res, (list, tuple)) and all(isinstance(x, Observable) for x in res):
        shape = "list%d" % len(res)
        for i, o in enumerate(res):
            sub(o, "p%d" % i, 200)
    elif isinstance(res, concurrent.futures.Future) or hasattr(res, "add_done_callback"):
        shape = "future"
    else:
        return {"raised": None, "shape": "other:" + type(res).__name__, "log": log}
    sched.schedule_absolute(1000, lambda s, st: disp.dispose())
    escaped = []
    for _ in range(50):
        try:
            sched.start()
            break
        except Exception as e:  # an exception escaping into the scheduler is behaviour too
            escaped.append(err_name(e))
    out = {"raised": None, "shape": shape, "log": log, "escaped": escaped[:5]}
    if shape == "future":
        if res.done():
            try:
                out["future"] = ["result", _encv(res.result(), None)]
            except BaseException as e:  # noqa
                out["future"] = ["exception", err_name(e)]
        else:
            out["future"] = ["pending"]
    return out


def _alarm(signum, frame):
    raise CaseTimeout()


def run_run(case):
    old = signal.signal(signal.SIGALRM, _alarm)
    signal.setitimer(signal.ITIMER_REAL, 20.0)
    try:
        return {"fluent": run_form(case, "fluent"), "piped": run_form(case, "piped")}
    except CaseTimeout:
        return {"timeout": True}
    finally:
        signal.setitimer(signal.ITIMER_REAL, 0)
        signal.signal(signal.SIGALRM, old)


# =============================================================================== interface
def cases(rng, tier):
    yield from gen_bind_cases(rng, tier)
    yield from gen_run_cases(rng, tier)


def model_request(case):
    if case["op"] != "bind":
        return None
    return {"op": "fluent_call", "method": case["method"], "env": bind_env(case)}


def impl(case):
    if case["op"] == "bind":
        return run_bind(case)
    return run_run(case)


def _app(x):
    if isinstance(x, dict) and "op" in x and "args" in x:
        return {"op": x["op"], "args": x["args"]}
    return None


def canon_impl(case, out):
    if case["op"] != "bind":
        return out
    return {"fluent": _app(out["fluent"]), "piped": _app(out["piped"])}


def canon_model(case, resp):
    return {"fluent": resp.get("fluent"), "piped": resp.get("piped")}


def oracle(case, out):
    if case["op"] == "bind":
        f, p = out["fluent"], out["piped"]
        for side, x in (("fluent", f), ("piped", p)):
            if "weird" in x:
                return f"{side} form of {case['method']} did not apply exactly one operator to the source: {x}"
            if "op" in x and not x["recv"]:
                return f"{side} form of {case['method']} applied the operator to something other than the source"
        if "op" in f and "op" in p and (f["op"], f["args"]) != (p["op"], p["args"]):
            return f"fluent {case['method']} builds {f['op']}{f['args']} but the piped form builds {p['op']}{p['args']}"
        return None
    if out.get("timeout"):
        return None
    if fw.key(out["fluent"]) != fw.key(out["piped"]):
        return f"fluent and piped {case['method']} differ: fluent={fw.key(out['fluent'])[:400]} piped={fw.key(out['piped'])[:400]}"
    return None


def nontrivial(case, out):
    if case["op"] == "bind":
        return "op" in out["fluent"]
    if out.get("timeout"):
        return False
    f = out["fluent"]
    return bool(f.get("raised")) or any(e[2] in ("N", "E", "C") for e in f["log"] if len(e) > 2 and not str(e[1]).startswith("side:")) \
        or f.get("shape") == "future"


def bucket(case, out):
    yield case["op"]
    if case.get("sentinel"):
        yield "run:sentinel-for-guarded-parameter"
    if case.get("iter"):
        yield "run:iterator-argument-with-resubscription"
    if case["op"] == "bind":
        yield "bind:" + ("bound" if "op" in out["fluent"] else "typeerror")
        if "op" in out["fluent"] and "typeerror" in out["piped"]:
            yield "bind:piped-typeerror-only"
    else:
        if out.get("timeout"):
            yield "run:timeout"
            return
        f = out["fluent"]
        yield "run:" + ("raised" if f.get("raised") else f.get("shape", "?"))
        if not f.get("raised") and not any(len(e) > 2 and e[2] == "N" for e in f["log"]):
            yield "run:no-elements"


def shrink(case):
    if case["op"] == "run":
        for i in range(len(case["src"])):
            c = dict(case)
            c["src"] = case["src"][:i] + case["src"][i + 1:]
            yield c
        for fld in ("omit", "explicit"):
            for i in range(len(case[fld])):
                c = dict(case)
                c[fld] = case[fld][:i] + case[fld][i + 1:]
                yield c
        if case["nstar"] > 0:
            c = dict(case)
            c["nstar"] = case["nstar"] - 1
            yield c
        if len(case.get("sentinel", {})) > 1:
            for k in case["sentinel"]:
                c = dict(case)
                c["sentinel"] = {x: y for x, y in case["sentinel"].items() if x != k}
                yield c
    else:
        for fld in ("pos", "star", "kw"):
            if case[fld]:
                c = dict(case)
                c[fld] = case[fld][:-1]
                yield c


def search(rng, tier, disagreeing):
    """proof obligation / correspondence broken and the standard cases found nothing: sweep more run cases"""
    import time as _time
    r2 = random.Random(rng.randrange(1 << 30))
    n = 0
    t_end = _time.time() + fw.tier_scale(tier, 25, 240)  # the failing-input search has a time budget
    for c in gen_run_cases(r2, "thorough"):
        n += 1
        if _time.time() > t_end:
            break
        if n > fw.tier_scale(tier, 3000, 12000):
            break
        v = oracle(c, impl(c))
        if v:
            return fw.Failure("oracle", c, v)
    return None


def extra(rng, tier):
    tab = table()
    names = [m["name"] for m in tab["methods"]]
    ops_by = {o["name"]: o for o in tab["ops"]}
    mism = []
    for m in tab["methods"]:
        o = ops_by.get(ALIAS.get(m["name"], m["name"]))
        if not o:
            continue
        a = [p["name"] for p in m["params"] if p["kind"] == "pos"]
        b = [p["name"] for p in o["params"] if p["kind"] == "pos"]
        for x, y in zip(a, b):
            if x != y:
                mism.append(f"{m['name']}: {x} vs ops.{o['name']}: {y}")
    pf = []
    # every public mixin method of the *runtime* class is in the table, and vice versa (translator completeness)
    from reactivex import Observable
    runtime = set()
    for cls in Observable.__mro__:
        if cls.__name__.endswith("Mixin"):
            runtime |= {n for n, f in vars(cls).items() if not n.startswith("_") and callable(f)}
    if runtime != set(names):
        pf.append(f"translator completeness: runtime mixin methods and table differ: {sorted(runtime ^ set(names))}")
    return {"proof_failures": pf,
            "coverage": {"exhaustive": True, "methods_in_table": len(names), "methods_with_run_cases": len(names),
                         "skipped_methods": [], "positional_name_mismatches_informational": mism,
                         "lenient_defaults_allow_list": ["starmap_indexed.mapper_indexed (fluent default None, ops.starmap_indexed requires mapper)"]}}


LEVEL_TEXT = ("Lean: `fluent_forwarding_ok` (kernel `decide` over the table regenerated from the mixin sources on this run: same operator or "
              "documented alias, arguments forwarded to the operator's parameters in order / by name, dropped arguments only under a guard that "
              "pins them to the operator's own default, equal defaults, receiver is self) and `fluent_eq_pipe` (soundness of that check: for any "
              "row that passes and any argument environment over any value type, the operator application built by the method body equals the one "
              "built by calling ops.NAME with the same arguments). Tied to the code by the translator, by differential execution of the model's "
              "call binding against the real methods with recorder operators, and by a behavioural fluent-vs-piped oracle on all methods.")
LEVEL_NOTE = ("The Lean content is structural (what the method forwards), not behavioural: that `pipe(f)` applies `f` and that equal operator "
              "applications behave equally is Python semantics, exercised by the run cases. Trusted: AST translator, restricted call-binding model "
              "(validated against inspect.signature on every run). Keyword use of the eight differently named positional parameters is outside the claim.")

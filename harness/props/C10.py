"""C10 — sequential composition runs one source at a time, in order (concat, catch, on_error_resume_next, repeat, retry,
while_do, do_while, start_with, for_in, catch(handler))."""
import copy

import fw
from fw import InjectedError, enc, err_name
from props import comb_common as cc

LEAN_TARGETS = ["RxProofs.C10"]
DRIVER = "drv_comb"
DRIVER_ROOT = "Comb"
PROCS = 1  # a case takes ~1 ms: forking a pool costs more than it saves, and one process lets impl / model_request share the run
THEOREMS = [
    "C10.seq_one_live",
    "C10.seq_one_live_catch_handler",
    "C10.seq_one_live_inline",
    "C10.seq_output_concat_inline",
    "C10.seq_output_sorted_inline",
    "C10.repeat_n_subscribes_n_inline",
    "C10.retry_at_most_n_inline",
    "C10.retry_stops_on_completion_inline",
    "C10.seq_next_after_terminal",
    "C10.seq_output_concat",
    "C10.repeat_n_subscribes_n",
    "C10.retry_at_most_n",
    "C10.retry_stops_on_completion",
    "C10.oern_factory_argument",
]
RULE = ("lists of 0..5 logged cold/hot sources with generated timelines and terminal kinds under rx.concat / ops.concat / rx.catch / ops.catch(obs) / "
        "ops.catch(handler, possibly raising) / rx.on_error_resume_next (sources or factories) / ops.on_error_resume_next / start_with / for_in "
        "(mapper possibly raising); one re-subscribed source (a different timeline per subscription) under repeat(n) / retry(n), n = 0..4 and "
        "unbounded cut by a subscriber that disposes inside its m-th on_next (what take(m) does) / while_do / do_while (condition true c times, "
        "then false or raising); rx.timer-based sources WITHOUT their own scheduler (they run on the scheduler handed down by subscribe); INLINE "
        "hand-over: subscription with an ImmediateScheduler over sources that terminate synchronously inside subscribe followed by running "
        "ones (the operator's action runs re-entrantly); optional dispose (also exactly between a source's terminal and the operator's scheduled action); a FRESH "
        "observable per run (C04 owns re-subscription); the recorded event list (source notifications, the operator's own scheduler hops, "
        "dispose) is replayed through the Lean machine, outputs (timed) and subscribe/unsubscribe effects compared per event in order; "
        "non-trivial = at least two sources were subscribed or a source terminated")
ASSUMPTIONS = ["single-threaded / virtual-time execution: one run is one list of tagged events",
               "sources notify synchronously inside subscribe only in the inline hand-over cases",
               "do_while is compared with its two nested scheduler hops collapsed into one (no dispose is placed between them)",
               "no dispose between the subscription of an UNLOGGED failing source (rx.throw in the list / raising for_in mapper / while_do condition) "
               "and the delivery of its scheduled error (only possible for the very first action)"]
TRUSTED_EXTRA = ["the logging sources / tap of harness/props/comb_common.py as measuring instruments"]
LEVEL_TEXT = ("Lean theorems (induction over arbitrary event lists, no bounds) on the trace machine of concat/catch/on_error_resume_next (+ repeat, retry, while_do, do_while, "
"start_with, for_in as instances, catch(handler) separately): at most one source subscription live in every reachable state; a source is subscribed only by the scheduled "
"action that the continuing terminal of the previous (then closed) source armed; output = delivered elements in non-decreasing source order; repeat(n) subscribes exactly n "
"times when the output completes, retry(n) at most n times and never after a completion. The machine is tied to /repo on every run by replaying the recorded event "
"list of thousands of generated real runs (TestScheduler, logged cold/hot sources) and comparing timed outputs and subscribe/unsubscribe effects in same-instant order, "
"plus an oracle written from the property text.")
LEVEL_NOTE = ("Model = RxModel/Comb.lean (uniform event rule, disposable plumbing as the ordered list of live subscriptions) + RxModel/CombSeq.lean "
"(concat_with_iterable_/catch_with_iterable_/on_error_resume_next_ as one machine with three kinds, the scheduler hop as an explicit `tick` event, "
"is_disposed/cancelable as `done`; catch_handler separately). All seven theorems are full-strength (any source iterator incl. raising factories, any "
"event list incl. dispose anywhere); 'in the same virtual instant' is not a Lean statement (the machine has no clock) - it is checked by the "
"correspondence, which compares effect times. seq_output_concat states output = delivered elements with non-decreasing source ids (the grouping into "
"per-source blocks is that sortedness). do_while is the concat machine with items = source, then while-loop; its two nested zero-delay hops are compared "
"collapsed into one. The INLINE hand-over (subscription with an ImmediateScheduler, sources terminating inside subscribe) is the machine seqInlineM "
"(handler followed by the action it armed); for it seq_one_live_inline, seq_output_concat_inline, seq_output_sorted_inline, repeat_n_subscribes_n_inline, "
"retry_at_most_n_inline and retry_stops_on_completion_inline are proved (seq_next_after_terminal is specific to the queued hand-over). For sources that notify inside subscribe the position of their own unsubscribe is compared by time only. "
"on_error_resume_next factories: the machine carries the scheduler `state` (predecessor's error / None) and records the argument of every consumed position "
"(`calls`); the factories of the generated cases log the argument they receive and build a different source for an error than for None; compared with the model and "
"checked by the oracle (oern_factory_argument is the Lean statement). for_in mappers raise InjectedError, StopIteration or KeyError. "
"User callables (catch handler, on_error_resume_next factories, for_in mapper, while_do condition) are generated in every form: def, lambda, functools.partial, bound "
"method, object with __call__. Unlogged failing sources (`rx.throw(ex)` in the source list) are generated for concat / catch / on_error_resume_next under the queued hand-over (item kind `fail`: "
"concat ends with their error, catch / on_error_resume_next continue over them; under the INLINE hand-over a chain of such sources is not modelled and not generated). "
"A raising for_in mapper / while_do condition is the item kind `fail` (the code wraps it into a source that fails at once: defer / throw), a raising "
"iterator or on_error_resume_next factory the kind `raise`. Sources that complete or FAIL inside subscribe are also generated under the queued hand-over and for catch(handler). Not modelled: futures as sources. Trusted: logging sources/tap, the event-list replay.")

LIST_OPS = ["concat", "ops_concat", "catch", "ops_catch_obs", "oern", "ops_oern", "start_with", "for_in", "catch_handler"]
LOOP_OPS = ["repeat", "retry", "while_do", "do_while"]
OPS = LIST_OPS + LOOP_OPS + ["repeat", "retry", "concat", "catch", "oern"]


def gen_seq_src(rng, sid, kind_hint):
    """a timeline whose terminal is biased towards the kind the operator continues on"""
    p_c, p_e = {"concat": (0.7, 0.15), "catch": (0.25, 0.65), "oern": (0.45, 0.45)}[kind_hint]
    if kind_hint != "catch" and rng.random() < 0.12:
        return cc.gen_timer(rng, sid)     # runs on the scheduler handed down by subscribe
    if rng.random() < 0.75:
        return {"mode": "cold", "msgs": cc.gen_timeline(rng, sid, maxn=3, span=20, p_complete=p_c, p_error=p_e)}
    return {"mode": "hot", "msgs": cc.gen_timeline(rng, sid, maxn=3, span=60, base=cc.SUBSCRIBE_AT - 10, p_complete=p_c, p_error=p_e)}


def kind_of(op):
    if op in ("concat", "ops_concat", "start_with", "for_in", "repeat", "while_do", "do_while"):
        return "concat"
    if op in ("catch", "ops_catch_obs", "retry", "catch_handler"):
        return "catch"
    return "oern"


def cases(rng, tier):
    n = fw.tier_scale(tier, 3000, 60000)
    for i in range(n):
        op = OPS[i % len(OPS)]
        kind = kind_of(op)
        c = {"op": op, "dispose": cc.gen_dispose(rng, 0.2), "cut": None, "callable_form": rng.choice(cc.CALLABLE_FORMS)}
        if op in LIST_OPS:
            if op == "ops_concat":
                k = rng.choice([1, 2, 3, 4])
            elif op in ("ops_oern", "catch_handler", "ops_catch_obs"):
                k = 2
            elif op == "start_with":
                k = 1
            else:
                k = rng.choice([0, 1, 2, 2, 3, 3, 4, 5])
            base = 1 if op == "start_with" else 0
            c["srcs"] = [gen_seq_src(rng, base + j, kind) for j in range(k)]
            # inline hand-over: subscribe with an ImmediateScheduler (the operator's hop runs re-entrantly, inside the previous
            # source's terminal handler) over sources that terminate synchronously inside subscribe, followed by running ones
            if op in ("concat", "ops_concat", "catch", "ops_catch_obs", "oern", "ops_oern", "start_with", "for_in") and rng.random() < 0.3:
                c["inline"] = True
                for j, sp in enumerate(c["srcs"]):
                    if sp["mode"] == "timer" or rng.random() < 0.5:
                        p_c, p_e = {"concat": (0.8, 0.1), "catch": (0.2, 0.75), "oern": (0.5, 0.5)}[kind]
                        c["srcs"][j] = {"mode": "sync", "msgs": cc.gen_timeline(rng, base + j, maxn=2, span=5, p_complete=p_c, p_error=p_e)}
            if op == "start_with":
                c["args"] = [enc(rng.choice(cc.FALSY)) for _ in range(rng.choice([0, 1, 2, 3]))]
            if op == "for_in":
                c["mapper_raises_at"] = rng.choice([None, None, None] + list(range(k + 1)))
                c["mapper_exc"] = rng.choice(["injected", "StopIteration", "StopIteration", "KeyError"])
            if op == "catch_handler":
                c["handler_raises"] = rng.random() < 0.3
            if op == "oern":
                c["factory"] = [rng.random() < 0.5 for _ in range(k)]
                # a factory's RESULT depends on its argument: the predecessor's error -> the `alt` source, None -> the regular one
                c["alt"] = [({"mode": "cold", "msgs": cc.gen_timeline(rng, j, maxn=2, span=10, p_complete=0.5, p_error=0.4)}
                             if f and rng.random() < 0.7 and c["srcs"][j]["mode"] != "timer" else None) for j, f in enumerate(c["factory"])]
                # a source factory that raises (delivered as on_error since the C09 fix)
                c["factory_raises_at"] = rng.choice([None, None, None] + list(range(k))) if k else None
                if c["factory_raises_at"] is not None:
                    c["factory"][c["factory_raises_at"]] = True
        else:
            nsubs = 6
            per = []
            for j in range(nsubs):
                per.append(cc.gen_timeline(rng, j, maxn=3, span=20, **({"p_complete": 0.75, "p_error": 0.15} if kind == "concat" else {"p_complete": 0.3, "p_error": 0.62})))
            c["src"] = {"mode": "cold", "msgs": per[0], "per_sub": per, "resub": True}
            if op in ("repeat", "retry"):
                c["count"] = rng.choice([0, 1, 2, 3, 4, None, None])
                if c["count"] is None:
                    c["cut"] = rng.choice([1, 2, 3, 5, 8])
                    # every further run produces an element after a positive delay, so the cut is reached in finite virtual time
                    per[-1] = [[5, "N", enc((nsubs - 1, 0, 1))], [5 * rng.randint(1, 2), "C" if rng.random() < (0.8 if kind == "concat" else 0.2) else "E", "e"]]
                    per[-1][1] = per[-1][1][:2] if per[-1][1][1] == "C" else per[-1][1]
            else:
                c["cond_true"] = rng.choice([0, 1, 2, 3])
                c["cond_raises"] = rng.random() < 0.2
                if op == "do_while":
                    c["dispose"] = None
        if c["cut"] is None and rng.random() < 0.1 and not any(sp.get("mode") == "sync" for sp in c.get("srcs", [])):
            c["cut"] = rng.choice([1, 2, 3])
        if op in ("concat", "ops_concat", "catch", "oern") and not c.get("inline") and c.get("srcs"):
            cc.add_duplicate(rng, c["srcs"])      # the same observable object listed twice
            if op == "oern":
                c["alt"] = [None if ("same_as" in c["srcs"][j] or any(s2.get("same_as") == j for s2 in c["srcs"])) else a
                            for j, a in enumerate(c["alt"])]
        # unlogged failing sources (`rx.throw(ex)`) inside the source list: concat ends with their error, catch / on_error_resume_next
        # continue over them (item kind `fail`)
        if op in ("concat", "catch", "oern") and not c.get("inline") and c.get("srcs") and rng.random() < 0.2:
            for j in range(len(c["srcs"])):
                if rng.random() < 0.4 and "same_as" not in c["srcs"][j] and not any(s2.get("same_as") == j for s2 in c["srcs"]):
                    c["srcs"][j] = {"mode": "throw", "err": f"t{j}"}
            if op == "oern":
                c["factory"] = [f and c["srcs"][j]["mode"] != "throw" for j, f in enumerate(c["factory"])]
                c["alt"] = [a if c["factory"][j] else None for j, a in enumerate(c.get("alt", [None] * len(c["factory"])))]
                if c.get("factory_raises_at") is not None and c["srcs"][c["factory_raises_at"]]["mode"] == "throw":
                    c["factory_raises_at"] = None
        # sources that notify - in particular FAIL or complete - synchronously inside subscribe, under the queued hand-over too
        # (catch(handler): the handler's sequence is installed from inside the source's subscribe call)
        if op in LIST_OPS and not c.get("inline") and c.get("srcs") and rng.random() < (0.45 if op == "catch_handler" else 0.15):
            base = 1 if op == "start_with" else 0
            js = [0] if op == "catch_handler" else [j for j in range(len(c["srcs"])) if rng.random() < 0.6 and c["srcs"][j]["mode"] != "throw"
                                                     and "same_as" not in c["srcs"][j] and not any(s2.get("same_as") == j for s2 in c["srcs"])]
            for j in js:
                p_c, p_e = {"concat": (0.8, 0.15), "catch": (0.15, 0.8), "oern": (0.5, 0.5)}[kind]
                c["srcs"][j] = {"mode": "sync", "msgs": cc.gen_timeline(rng, base + j, maxn=2, span=5, p_complete=p_c, p_error=p_e)}
            c["cut"] = None
        # oracle-only: a second subscriber on the same observable instance must see what a fresh instance gives it
        if op in ("concat", "ops_concat", "catch", "ops_catch_obs", "oern", "ops_oern", "catch_handler") and not c.get("inline") and rng.random() < 0.12:
            c["second"] = cc.gen_second(rng)
            c["dispose"] = None
            c["cut"] = None
        # aim a dispose exactly between the first source's terminal and the operator's scheduled action
        if op in ("concat", "catch", "oern", "ops_oern", "ops_concat", "repeat", "retry") and c["dispose"] is not None and rng.random() < 0.5:
            first = c["srcs"][0] if "srcs" in c and c["srcs"] else c.get("src")
            if first is not None and first["mode"] == "cold" and first["msgs"] and first["msgs"][-1][1] != "N":
                c["dispose"] = [cc.SUBSCRIBE_AT + first["msgs"][-1][0], 2]
        # an unlogged failing source delivers its error through a scheduled action of its own; the model delivers it in the action that
        # subscribes it. The only window in which a dispose can fall between the two is the very first action with a dispose queued
        # right after subscribe(): not generated (documented assumption)
        if c.get("dispose") is not None and c["dispose"][0] <= cc.SUBSCRIBE_AT and c["dispose"][1] == 1 and "second" not in c:
            its, rest = items_of(c) if op != "catch_handler" else (["src"], "stop")
            if its and isinstance(its[0], dict) and "fail" in its[0]:
                c["dispose"][1] = 0
        yield c


def world_and_build(case):
    import reactivex as rx
    from reactivex import operators as ops

    w = cc.World()
    op = case["op"]

    def build():
        if op in LIST_OPS:
            base = 1 if op == "start_with" else 0
            built = cc.build_sources(w, [dict(s_, mode="cold", msgs=[]) if s_["mode"] == "throw" else s_ for s_ in case["srcs"]], base)
            srcs = [rx.throw(InjectedError(s["err"])) if s["mode"] == "throw" else built[j] for j, s in enumerate(case["srcs"])]
        if op == "concat":
            return rx.concat(*srcs)
        if op == "ops_concat":
            return srcs[0].pipe(ops.concat(*srcs[1:]))
        if op == "catch":
            return rx.catch(*srcs)
        if op == "ops_catch_obs":
            return srcs[0].pipe(ops.catch(srcs[1]))
        if op == "oern":
            alts = case.get("alt") or [None] * len(srcs)

            def factory(j):
                alt = cc.make_src(w, j, alts[j]) if alts[j] is not None else None

                def f(e):
                    # the argument each factory receives is part of the observable behaviour: logged
                    w.log.append(["call", j, None if e is None else err_name(e), w.now()])
                    if j == case.get("factory_raises_at"):
                        raise InjectedError("factory")
                    return alt if (e is not None and alt is not None) else srcs[j]

                return cc.as_callable(f, case.get("callable_form", "def"))

            args = [factory(j) if (f or j == case.get("factory_raises_at")) else s_ for j, (s_, f) in enumerate(zip(srcs, case["factory"]))]
            return rx.on_error_resume_next(*args)
        if op == "ops_oern":
            return srcs[0].pipe(ops.on_error_resume_next(srcs[1]))
        if op == "catch_handler":
            def handler(e, source):
                if case["handler_raises"]:
                    raise InjectedError("handler")
                return srcs[1]

            return srcs[0].pipe(ops.catch(cc.as_callable(handler, case.get("callable_form", "def"))))
        if op == "start_with":
            orig = rx.from_iterable

            def tapped(it, scheduler=None):
                return cc.make_tap(w, 0, orig(it, scheduler))

            rx.from_iterable = tapped
            try:
                return srcs[0].pipe(ops.start_with(*[fw.dec(a) for a in case["args"]]))
            finally:
                rx.from_iterable = orig
        if op == "for_in":
            def mapper(j):
                if j == case["mapper_raises_at"]:
                    kind_ = case.get("mapper_exc", "injected")
                    if kind_ == "StopIteration":
                        raise StopIteration()
                    if kind_ == "KeyError":
                        raise KeyError("mapper")
                    raise InjectedError("mapper")
                return srcs[j]

            nvals = len(srcs) + (1 if case["mapper_raises_at"] == len(srcs) else 0)
            return rx.for_in(list(range(nvals)), cc.as_callable(mapper, case.get("callable_form", "def")))
        src = cc.make_src(w, 0, case["src"])
        if op == "repeat":
            return src.pipe(ops.repeat(case["count"]))
        if op == "retry":
            return src.pipe(ops.retry(case["count"]))
        calls = [0]

        def cond(_):
            calls[0] += 1
            if calls[0] > case["cond_true"]:
                if case["cond_raises"]:
                    raise InjectedError("cond")
                return False
            return True

        cond_ = cc.as_callable(cond, case.get("callable_form", "def"))
        if op == "while_do":
            return src.pipe(ops.while_do(cond_))
        if op == "do_while":
            return src.pipe(ops.do_while(cond_))
        raise ValueError(op)

    return w, build


def _run_impl(case):
    op = case["op"]
    w, build = world_and_build(case)
    log = cc.run_world(w, build, case.get("dispose"), None if case.get("inline") else case.get("cut"), inline=bool(case.get("inline")))
    if case.get("inline"):
        # inline hand-over: the action armed by a terminal handler runs re-entrantly inside that handler; the model's inline
        # machine fuses it into the terminal's step, so only the first action (armed by subscribe) stays an event of its own
        log = [e for i, e in enumerate(log) if not (e[0] == "tick" and i > 0 and log[i - 1][0] == "ev" and log[i - 1][2][0] != "N")]
    if op == "do_while":
        # the nested concat adds a second zero-delay hop: keep the last tick of every run of ticks
        log = [e for i, e in enumerate(log) if not (e[0] == "tick" and i + 1 < len(log) and log[i + 1][0] == "tick")]
    return log


def items_of(case):
    """what the j-th next(sources_) does, from the case alone"""
    op = case["op"]
    if op in LIST_OPS and op not in ("for_in", "catch_handler", "start_with"):
        its = [{"fail": sp["err"]} if sp["mode"] == "throw" else "src" for sp in case["srcs"]]
        if op == "oern" and case.get("factory_raises_at") is not None:
            its = its[: case["factory_raises_at"]] + [{"raise": "factory"}]
        return its, "stop"
    if op == "start_with":
        return ["src", "src"], "stop"
    if op == "for_in":
        k = len(case["srcs"])
        r = case["mapper_raises_at"]
        if r is None:
            return ["src"] * k, "stop"
        name = {"injected": "mapper", "StopIteration": "StopIteration", "KeyError": "KeyError"}[case.get("mapper_exc", "injected")]
        return ["src"] * r + [{"fail": name}], "stop"     # the mapper runs inside defer: a source that fails at once
    if op in ("repeat", "retry"):
        if case["count"] is None:
            return [], "src"
        return ["src"] * case["count"], "stop"
    end = {"fail": "cond"} if case["cond_raises"] else "stop"      # a raising condition yields throw(ex)
    if op == "while_do":
        return ["src"] * case["cond_true"] + [end], "stop"
    if op == "do_while":
        return ["src"] * (1 + case["cond_true"]) + [end], "stop"
    raise ValueError(op)


_run = cc.memo(_run_impl)


def sync_ids_of(case):
    """sources that notify inside subscribe: their own unsubscribe happens when that subscribe call returns, i.e. after whatever
    ran re-entrantly in between; its position is compared by time only (start_with's from_iterable prefix included, when inline)"""
    base = 1 if case["op"] == "start_with" else 0
    ids = [base + j for j, sp in enumerate(case.get("srcs", [])) if sp["mode"] == "sync"]
    if case["op"] == "start_with" and case.get("inline"):
        ids.append(0)
    return tuple(ids)


def impl(case):
    if "second" in case:
        return {"second": cc.run_second_subscriber(lambda: world_and_build(case), case["second"]), "log": [], "split": cc.split_log([])}
    log = _run(case)
    return {"split": cc.split_log(log, sync_ids_of(case)), "log": log}


def model_request(case):
    if "second" in case:
        return None
    sp = cc.split_log(_run(case), sync_ids_of(case))
    evs = [e for _, e in sp["events"]]
    if case["op"] == "catch_handler":
        r = {"op": "catch_handler", "events": evs}
        if case["handler_raises"]:
            r["res"] = "handler"
        return r
    items, rest = items_of(case)
    return {"op": "seq", "kind": kind_of(case["op"]), "items": items, "rest": rest, "events": evs, "inline": bool(case.get("inline"))}


def factory_positions(case):
    if case["op"] != "oern":
        return set()
    return {j for j, f in enumerate(case["factory"]) if f} | ({case["factory_raises_at"]} if case.get("factory_raises_at") is not None else set())


def canon_impl(case, out):
    r = cc.canon_real(out["split"])
    if case["op"] == "oern":
        r["calls"] = [[e[1], e[2]] for e in out["log"] if e[0] == "call"]
    return r


def canon_model(case, resp):
    sp = cc.split_log(_run(case), sync_ids_of(case))
    r = cc.canon_model_resp(sp["events"], resp, sync_ids_of(case))
    if case["op"] == "oern" and isinstance(resp, dict) and "calls" in resp:
        fp = factory_positions(case)
        r["calls"] = [c for c in resp["calls"] if c[0] in fp]     # the model's `state` for every position; factories sit at these
    return r


# --------------------------------------------------------------------------------------------- oracle (property text, from the log)
def continues(kind, nt):
    return (kind in ("concat", "oern") and nt[0] == "C") or (kind in ("catch", "oern") and nt[0] == "E")


def oracle(case, out):
    if "second" in out:
        return cc.second_failure(case, out["second"], "not the concatenation of ITS sources' elements")
    log = out["log"]
    op = case["op"]
    kind = kind_of(op)
    got = cc.outputs(out["split"])
    if not cc.grammar_ok(got):
        return f"output is not next* terminal?: {got}"
    # one source at a time, in order; the next one only after (and at the instant of) the continuing terminal of the previous one
    open_subs, subs, last_term = [], [], {}
    ended = False
    for e in log:
        if e[0] == "sub":
            if open_subs:
                return f"source {e[1]} subscribed at {e[2]} while {open_subs} still subscribed"
            thrown = {j for j, sp in enumerate(case.get("srcs", [])) if sp.get("mode") == "throw"}
            lo = subs[-1] + 1 if subs else 0
            if e[1] < lo or any(j not in thrown for j in range(lo, e[1])):   # only unlogged failing sources may lie in between
                return f"sources subscribed out of order: {subs + [e[1]]}"
            if subs:
                prev = subs[-1]
                lt = last_term.get(prev)
                if op == "catch_handler":
                    ok = lt is not None and lt[0][0] == "E" and lt[1] == e[2]
                else:
                    ok = lt is not None and continues(kind, lt[0]) and lt[1] == e[2]
                if not ok:
                    return f"source {e[1]} subscribed at {e[2]} but source {prev} terminated with {lt}"
            open_subs.append(e[1])
            subs.append(e[1])
        elif e[0] == "unsub":
            if e[1] in open_subs:
                open_subs.remove(e[1])
                # a consumed source stays subscribed until it terminates (or everything ends): otherwise its remaining
                # elements are missing from the concatenation
                if not ended:
                    return f"source {e[1]} was unsubscribed at {e[2]} although it had not terminated and nothing ended the sequence"
        elif e[0] in ("dispose",) or (e[0] == "out" and e[1][0] != "N"):
            ended = True
        elif e[0] == "ev" and e[2][0] != "N" and e[1] in open_subs and e[1] not in last_term:
            last_term[e[1]] = (e[2], e[3])
            open_subs.remove(e[1])      # terminated: closed as far as the property is concerned (its unsubscribe may lag inside subscribe)
    # expected output: concatenation of the accepted elements + the operator's final terminal
    acc = cc.accepted(log)
    disposed_pos = next((p for p, e in enumerate(log) if e[0] == "dispose"), None)
    if op == "catch_handler":
        items, rest = ["src", "src" if not case["handler_raises"] else {"raise": "handler"}], "stop"
    else:
        items, rest = items_of(case)
    item = lambda j: items[j] if j < len(items) else rest
    expect = []
    fin = False
    last_err = None
    tick_pos = [i for i, e in enumerate(log) if e[0] == "tick"]

    def advance(j, t, pos):
        """the scheduled action asks the iterator for position j (time t, after log position pos); each unlogged failing source it
        continues over needs one more scheduled action. Returns True when the sequence is over (terminal, or disposed first)."""
        nonlocal last_err
        while True:
            if op != "catch_handler" and not (case.get("inline") and pos >= 0):
                nxt = [i for i in tick_pos if i > pos]
                if not nxt or (disposed_pos is not None and disposed_pos < nxt[0]):
                    return True            # the action never ran: disposed (cancelled) first
                pos = nxt[0]
            nx = item(j)
            if nx == "src":
                return False
            if nx == "stop":
                expect.append([t, last_err if (kind == "catch" and last_err) else ["C"]])
                return True
            if "raise" in nx:
                expect.append([t, ["E", nx["raise"]]])
                return True
            # an unlogged source that fails at once
            if kind == "concat":
                expect.append([t, ["E", nx["fail"]]])
                return True
            last_err = ["E", nx["fail"]]
            j += 1

    fin = advance(0, cc.SUBSCRIBE_AT, -1)
    for (p, s, nt, t) in acc:
        if fin or (disposed_pos is not None and p > disposed_pos):
            break
        if nt[0] == "N":
            expect.append([t, nt])
            continue
        if op == "catch_handler":
            if s == 0 and nt[0] == "E":
                if case["handler_raises"]:
                    expect.append([t, ["E", "handler"]]); fin = True
                continue
            expect.append([t, nt]); fin = True
            continue
        if nt[0] == "E":
            last_err = nt
        if not continues(kind, nt):
            expect.append([t, nt]); fin = True
            continue
        fin = advance(s + 1, t, p)
    if got != expect:
        return f"{op}: got {got}, expected concatenation {expect}"
    # on_error_resume_next: a factory receives the error of the source that just failed, None after a normal completion / at the start
    if op == "oern":
        for e in log:
            if e[0] == "call":
                j = e[1]
                if j == 0:
                    want = None
                elif case["srcs"][j - 1]["mode"] == "throw":
                    want = case["srcs"][j - 1]["err"]
                else:
                    lt = last_term.get(j - 1)
                    want = lt[0][1] if (lt is not None and lt[0][0] == "E") else None
                if e[2] != want:
                    return f"the factory at position {j} received {e[2]!r}; its predecessor ended with {last_term.get(j - 1)}: it must receive {want!r}"
    v = cc.timer_delivery_failure(case.get("srcs", []), log)
    if v:
        return v
    # subscription counts
    if op == "repeat" and case["count"] is not None:
        if len(subs) > case["count"]:
            return f"repeat({case['count']}) subscribed {len(subs)} times"
        if got and got[-1][1] == ["C"] and len(subs) != case["count"]:
            return f"repeat({case['count']}) completed after {len(subs)} subscriptions"
    if op == "retry":
        if case["count"] is not None and len(subs) > case["count"]:
            return f"retry({case['count']}) subscribed {len(subs)} times"
        for k, (nt, t) in last_term.items():
            if nt[0] == "C" and any(s > k for s in subs):
                return f"retry resubscribed after completion of run {k}"
    return None


def nontrivial(case, out):
    if "second" in out:
        return len(out["second"]["fresh"]) > 0
    log = out["log"]
    return len([1 for e in log if e[0] == "sub"]) >= 2 or any(e[0] == "ev" and e[2][0] != "N" for e in log)


def bucket(case, out):
    if "second" in out:
        yield "second_subscriber"
        return
    log = out["log"]
    got = cc.outputs(out["split"])
    yield f"op={case['op']}"
    yield "end=" + (got[-1][1][0] if got and got[-1][1][0] != "N" else "open")
    yield f"subs={min(5, len([1 for e in log if e[0] == 'sub']))}"
    yield "dispose=" + str(any(e[0] == "dispose" for e in log))
    yield "cut=" + str(case.get("cut") is not None)
    if case["op"] in ("catch_handler", "oern", "for_in", "while_do", "do_while"):
        yield "callable_form=" + case.get("callable_form", "def")
    calls = [e for e in log if e[0] == "call"]
    if calls:
        yield "factory_calls"
        if any(e[2] is not None for e in calls) and any(e[2] is None and e[1] > 0 for e in calls):
            yield "factory_args_error_and_none"
    if case["op"] == "for_in" and case.get("mapper_raises_at") is not None:
        yield "mapper_exc=" + case.get("mapper_exc", "injected")
    if case.get("inline"):
        yield "inline"
        modes = [sp["mode"] for sp in case["srcs"]]
        if any(a == "sync" and b != "sync" for a, b in zip(modes, modes[1:])) or (case["op"] == "start_with" and modes and modes[0] != "sync"):
            yield "inline_sync_then_running"
    if any("same_as" in sp for sp in case.get("srcs", [])):
        yield "same_object_listed_twice"
    for sp in case.get("srcs", []):
        yield "src=" + sp["mode"]
    if "count" in case:
        yield f"count={case['count']}"
    # dispose exactly between a source's continuing terminal and the scheduled action it armed
    evs = [e for e in log if e[0] in ("ev", "tick", "dispose")]
    for i, e in enumerate(evs):
        if e[0] == "dispose" and i > 0 and evs[i - 1][0] == "ev" and evs[i - 1][3] == e[1] and continues(kind_of(case["op"]), evs[i - 1][2]):
            yield "dispose_between_terminal_and_action"


def shrink(case):
    if "srcs" in case:
        for i, s in enumerate(case["srcs"]):
            for j in range(len(s.get("msgs", []))):
                c = copy.deepcopy(case)
                del c["srcs"][i]["msgs"][j]
                yield c
    if case.get("dispose") is not None:
        c = copy.deepcopy(case)
        c["dispose"] = None
        yield c
    if case.get("cut") is not None:
        c = copy.deepcopy(case)
        c["cut"] = None
        yield c

"""C35 — periodic scheduling threads state, keeps the period and stops; interval/timer ticks (DESIGN.md §5 C35)."""
import fw
from props import vts_common as vc

LEAN_TARGETS = ["RxProofs.C35"]
DRIVER = "drv_vts"
DRIVER_ROOT = "Vts"
THEOREMS = [
    "C35.advance_terminates",
    "C35.ticks_at_k_period",
    "C35.periodic_state_threaded",
    "C35.interval_emits_naturals",
    "C35.tick_rule",
    "C35.closed_form_any_sleep",
    "C35.timer_tick_rule",
    "C35.timer_ticks",
    "C35.timer_terminates",
    "C35.stops_on_dispose",
    "C35.stops_on_dispose_during_run",
    "C35.stops_after_raise",
]
RULE = ("1..3 periodic actions (periods 1..10, initial states 0/5/-2) scheduled with schedule_periodic — directly, through a CatchScheduler, or as "
        "reactivex.interval(p)/timer(p, p) subscriptions — on TestScheduler/VirtualTimeScheduler/HistoricalScheduler; the action raises at a chosen "
        "state, sleeps inside the call (drift: 0, < period, = period, > period), disposes its own handle; dispose actions scheduled at/around tick "
        "boundaries; advance_to in one or several steps. Compared with the Lean model on the invocation log (task, clock, state), outcomes, final clock, "
        "pending count, handler calls. Plus timer(duetime, period), duetime != period or absolute/past duetime, with ticks made late (< , = , > one period) by same-time actions that sleep and by a sleeping observer, compared with the Lean timer model (RxModel/VtsTimer.lean) on (clock, value) of every emission and the final clock, "
        "and checked against a reference of the re-basing rule; several jobs on ONE CatchScheduler (schedule_periodic/interval/timer(p,p), one raising, one scheduled after the "
        "failure); oracle-only timer(d, p), d != p, and timer(d); oracle-only NewThreadScheduler.schedule_periodic under a controlled clock (per-call "
        "clock advance 0..2 periods, dispose/raise inside the k-th call); EventLoopScheduler.schedule_periodic under a controlled clock (`now` overridden, "
        "timed Condition.wait advances the clock; per-call clock advance 0..3 periods, dispose/raise in the k-th call) compared with the Lean periodic model "
        "on (clock, state) of every call and checked against the property text. non-trivial = at least two invocations of some action")
ASSUMPTIONS = ["theorems: virtual-time schedulers only (TestScheduler, VirtualTimeScheduler, HistoricalScheduler); integer times, period >= 1",
               "NewThreadScheduler runs use real threads with 1-2 ms periods and a controlled `now`; the single worker thread makes the call sequence deterministic",
               "single-threaded use"]
TRUSTED_EXTRA = []


def gen_timer(rng):
    kind = rng.choice(["test", "vts", "hist"])
    unit = 500 if kind == "hist" else 1
    c0 = unit * rng.choice([0, 0, 7, 100])
    d = unit * rng.choice([0, 1, 3, 10])
    p = rng.choice([None, None] + [unit * x for x in (1, 2, 5, 7)])
    if p is not None and p == d:
        d += unit
    T = c0 + d + (p or unit) * rng.randrange(0, 6) + unit * rng.choice([0, 1])
    dispose = None
    if rng.random() < 0.4:
        k = rng.randrange(0, 4)
        dispose = c0 + d + (p or unit) * k + unit * rng.choice([1, -1])  # never exactly on a tick
        if (p is not None and (dispose - c0 - d) % p == 0 and dispose >= c0 + d) or dispose == c0 + d:
            dispose = None
    return {"op": "timer_case", "sched": kind, "clock": c0, "due": d, "period": p, "dispose": dispose, "T": max(T, c0 + unit)}


def gen_timer_late(rng):
    """timer(duetime, period) with duetime != period (its own re-basing loop in observable/timer.py, not PeriodicScheduler) whose
    ticks run LATE: blocker actions scheduled before the subscription at/around tick times run first and call scheduler.sleep(),
    the observer itself sleeps inside on_next, or an absolute duetime lies in the past at subscribe time; lateness < period,
    = period, > period"""
    kind = rng.choice(["test", "vts", "hist"])
    unit = 500 if kind == "hist" else 1
    c0 = unit * rng.choice([0, 0, 20])
    p = unit * rng.choice([5, 10, 10, 20])
    d = unit * rng.choice([0, 3, 8, 15, 30])
    if d == p:
        d += unit
    absolute = rng.random() < 0.35
    due0 = c0 + d
    if absolute and rng.random() < 0.5:
        due0 = c0 - unit * rng.choice([1, 2, p // unit - 1, p // unit, p // unit + 3])   # absolute duetime already in the past
    lates = [unit * x for x in (1, 2, p // unit // 2, p // unit - 1, p // unit, p // unit + 1, 2 * p // unit + 3)]
    blockers = []
    for _ in range(rng.choice([0, 1, 1, 2, 3])):
        k = rng.randrange(0, 5)
        t = due0 + k * p + unit * rng.choice([0, 0, 0, -1, -2])
        if t >= c0:
            blockers.append([t, rng.choice(lates)])
    obs_sleep = [rng.choice([0, 0, 0] + lates) for _ in range(8)] if rng.random() < 0.5 else [0] * 8
    T = max(due0, c0) + p * rng.randrange(2, 7) + unit * rng.choice([0, 1])
    return {"op": "timer_late", "sched": kind, "clock": c0, "due0": due0, "absolute": absolute or due0 < c0, "period": p,
            "blockers": sorted(blockers), "obs_sleep": obs_sleep, "T": T}


def _run_timer_late(case):
    import reactivex

    rig = vc.Rig(case)
    seen = []
    for t, b in case["blockers"]:      # scheduled BEFORE the subscription: at equal due time they run first
        rig.s.schedule_absolute(rig.abs_(t), lambda sc, st, b=b: rig.s.sleep(rig.rel(b)))
    if case["absolute"]:
        if case["sched"] == "hist":
            due = rig.abs_(case["due0"])
        else:
            from datetime import datetime, timezone

            due = datetime.fromtimestamp(case["due0"], tz=timezone.utc)
    else:
        due = rig.rel(case["due0"] - case["clock"])
    src = reactivex.timer(due, rig.rel(case["period"]))

    def on_next(v):
        seen.append([rig.clock(), v])
        z = case["obs_sleep"][v % len(case["obs_sleep"])]
        if z:
            rig.s.sleep(rig.rel(z))

    src.subscribe(on_next, scheduler=rig.s)
    rig.s.advance_to(rig.abs_(case["T"]))
    return {"seen": seen, "clock": rig.clock()}


def timer_late_oracle(case, out):
    """reference from the property text: tick k is due at duetime + k*period; a tick that runs late (the clock had already passed
    its due time) stays on that grid unless it is late by a period or more, in which case the next one is due one period after
    it ran.  Everything runs in (due, scheduling order) at max(clock, due)."""
    p, T = case["period"], case["T"]
    clock = case["clock"]
    pend = [[t, i, "b", b] for i, (t, b) in enumerate(case["blockers"])]
    seq = len(pend)
    pend.append([case["due0"], seq, "t", 0])
    exp = []
    while True:
        due_items = [x for x in pend if x[0] <= T]
        if not due_items:
            break
        x = min(due_items, key=lambda x: (x[0], x[1]))
        pend.remove(x)
        clock = max(clock, x[0])
        if x[2] == "b":
            clock += x[3]
        else:
            k = x[3]
            ran = clock
            exp.append([ran, k])
            nxt = x[0] + p if ran - x[0] < p else ran + p
            clock += case["obs_sleep"][k % len(case["obs_sleep"])]
            seq += 1
            pend.append([nxt, seq, "t", k + 1])
        if len(exp) > 200:
            break
    if out["seen"] != exp:
        return (f"timer(duetime -> first due {case['due0']}, period {p}) from clock {case['clock']} until {T}, blockers (time, sleep) "
                f"{case['blockers']}, observer sleeps {case['obs_sleep']}: emitted (clock, value) {out['seen'][:10]}, expected {exp[:10]} "
                f"(tick k at duetime + k*period unless a tick ran a period or more late)")
    return None


def gen_start_case(rng):
    """two periodic jobs (periods 1 and 50 units, or similar) run by start() — not advance_to — for > 100 items, ended by a dispose
    action; on the datetime clock the items of the two jobs coincide every 50 units: every tick must still be on its grid"""
    kind = rng.choice(["hist", "hist", "test", "vts"])
    unit = 1000 if kind == "hist" else 1
    p1, p2 = unit * rng.choice([1, 1, 2]), unit * rng.choice([50, 25, 10])
    T = unit * rng.choice([120, 160, 230])
    return {"op": "start_case", "sched": kind, "clock": 0, "p1": p1, "p2": p2, "T": T,
            "tz_offset_min": rng.choice([None, 120]) if kind == "hist" else None}


def _run_start_case(case):
    rig = vc.Rig(case)
    calls = []
    handles = []

    def stop_all(sc, st):
        for h in handles:
            h.dispose()

    rig.s.schedule_absolute(rig.abs_(case["T"]), stop_all)   # scheduled first: at a tie it runs before the ticks
    for pid, p in ((1, case["p1"]), (2, case["p2"])):
        def action(state, pid=pid):
            calls.append([pid, rig.clock(), state])
            return state + 1

        handles.append(rig.s.schedule_periodic(rig.rel(p), action, 0))
    rig.VTS.start(rig.s)
    return {"calls": calls, "clock": rig.clock()}


def start_case_oracle(case, out):
    exp = []
    for pid, p in ((1, case["p1"]), (2, case["p2"])):
        k = 1
        while k * p < case["T"]:
            exp.append([pid, k * p, k - 1])
            k += 1
    got = sorted(out["calls"], key=lambda c: (c[0], c[2]))
    if got != sorted(exp, key=lambda c: (c[0], c[2])):
        bad = [c for c in got if c[1] != (c[2] + 1) * (case["p1"] if c[0] == 1 else case["p2"])][:4]
        return (f"periodic jobs with periods {case['p1']} and {case['p2']} run by start() until a dispose at {case['T']}: "
                f"{len(got)} calls, expected {len(exp)}; calls off the grid k*period (job, clock, state): {bad}")
    return None


def cases(rng, tier):
    for _ in range(fw.tier_scale(tier, 1600, 16000)):
        yield vc.gen_periodic(rng, catch_p=0.15, raise_p=0.3,
                              via=rng.choice(["schedule_periodic", "schedule_periodic", "schedule_periodic", "interval", "timer"]))
    for _ in range(fw.tier_scale(tier, 400, 4000)):
        yield gen_timer(rng)
    for _ in range(fw.tier_scale(tier, 300, 3000)):
        yield vc.gen_catch_siblings(rng)
    for _ in range(fw.tier_scale(tier, 500, 5000)):
        yield gen_timer_late(rng)
    for _ in range(fw.tier_scale(tier, 40, 400)):
        yield gen_start_case(rng)
    for _ in range(fw.tier_scale(tier, 120, 1200)):
        yield gen_nts(rng)
    for _ in range(fw.tier_scale(tier, 200, 2000)):
        yield gen_el(rng)


def gen_nts(rng):
    """NewThreadScheduler.schedule_periodic under a controlled clock (oracle only): the action advances the clock by 0, half a
    period, one period or two periods per call (so the loop both waits and skips its wait), and disposes its own handle or
    raises inside the k-th call"""
    period_us = rng.choice([1000, 2000])
    adv = [rng.choice([0, period_us // 2, period_us, 2 * period_us]) for _ in range(8)]
    if rng.random() < 0.4:
        adv = [rng.choice([period_us, 2 * period_us])] * 8     # overruns every time
    end = rng.randrange(0, 7)
    return {"op": "nts_case", "period_us": period_us, "adv": adv, "st0": rng.choice([0, 0, 5]),
            "dispose_at": end if rng.random() < 0.7 else None, "raise_at": end if rng.random() < 0.4 else None}


def gen_el(rng):
    """EventLoopScheduler.schedule_periodic (= PeriodicScheduler.schedule_periodic over the event loop's own schedule_relative)
    under a controlled clock: `now` is overridden and a timed Condition.wait(t) advances the clock by t instead of sleeping.
    The action advances the clock by 0 .. 3 periods per call, disposes its handle / raises inside the k-th call."""
    period_us = rng.choice([1000, 2000, 5000])
    st0 = rng.choice([0, 0, 5, -2])
    adv = [rng.choice([0, 0, period_us // 2, period_us, 2 * period_us, 3 * period_us]) for _ in range(8)]
    r = rng.random()
    if r < 0.25:
        adv = [0] * 8
    elif r < 0.4:
        adv = [rng.choice([period_us, 2 * period_us])] * 8
    end = rng.randrange(0, 7)
    dispose_at = end if rng.random() < 0.7 else None
    raise_at = end if (dispose_at is None or rng.random() < 0.25) else None
    return {"op": "el_case", "period_us": period_us, "adv": adv, "st0": st0, "dispose_at": dispose_at, "raise_at": raise_at}


def el_model_request(case):
    """the same job on the Lean periodic model: in-call clock advance = scheduler.sleep inside the action"""
    st0, p = case["st0"], case["period_us"]
    fn = {"pid": 1, "raise_at": [] if case["raise_at"] is None else [st0 + case["raise_at"]],
          "dispose_at": [] if case["dispose_at"] is None else [st0 + case["dispose_at"]],
          "sleep_at": [[st0 + k, a] for k, a in enumerate(case["adv"])]}
    T = 10 * max([p] + case["adv"]) + p
    return {"op": "per_script", "clock": 0, "fns": [fn], "ops": [["periodic", 1, p, st0, False], ["advance_to", T]],
            "handler_true": [], "handler_default": False}


def model_request(case):
    if case["op"] == "start_case":
        return None   # oracle only: the periodic model has no start() loop
    if case["op"] == "timer_late":
        return {"op": "tmr_script", "clock": case["clock"], "due0": case["due0"], "period": case["period"], "blockers": case["blockers"],
                "obs_sleep": case["obs_sleep"], "T": case["T"]}
    if case["op"] == "el_case":
        return el_model_request(case)
    return vc.per_model_request(case) if case["op"] == "per_script" else None


def _run_el(case):
    import threading
    from datetime import timedelta

    from reactivex.internal.constants import UTC_ZERO
    from reactivex.scheduler import EventLoopScheduler

    clock = [0]
    threads, died = [], []

    class VirtualCondition(threading.Condition):
        """a timed wait is the loop thread sleeping until the next due time: jump the controlled clock instead"""

        def wait(self, timeout=None):
            if timeout is not None:
                clock[0] += round(timeout * 1e6)
                return False
            return super().wait(3.0)    # untimed wait (nothing queued): bounded

    class Controlled(EventLoopScheduler):
        @property
        def now(self):
            return UTC_ZERO + timedelta(microseconds=clock[0])

    def factory(target):
        def guarded():
            try:
                target()
            except BaseException as e:  # noqa  the loop thread dies with the action's exception
                died.append(fw.err_name(e))

        t = threading.Thread(target=guarded, daemon=True)
        threads.append(t)
        return t

    sched = Controlled(thread_factory=factory, exit_if_empty=True)
    sched._condition = VirtualCondition(threading.Lock())
    calls, handle = [], []
    st0 = case["st0"]

    ready = threading.Event()

    def action(state):
        ready.wait(3.0)     # the loop thread may get here before the caller has stored the handle
        k = state - st0
        calls.append([1, clock[0], state])
        if len(calls) > 40:
            raise SystemExit("runaway")
        clock[0] += case["adv"][k % len(case["adv"])]
        if case["dispose_at"] is not None and k == case["dispose_at"]:
            handle[0].dispose()
        if case["raise_at"] is not None and k == case["raise_at"]:
            raise fw.InjectedError(f"p1s{state}")
        return state + 1

    handle.append(sched.schedule_periodic(case["period_us"] / 1e6, action, st0))
    ready.set()
    for t in threads:
        t.join(5.0)
    alive = any(t.is_alive() for t in threads)
    sched.dispose()
    return {"log": calls, "died": died, "alive_after_join": alive}


def _run_nts(case):
    import threading
    from datetime import timedelta

    from reactivex.internal.constants import UTC_ZERO
    from reactivex.scheduler import NewThreadScheduler

    clock = [0]
    threads = []
    died = []

    class Controlled(NewThreadScheduler):
        @property
        def now(self):
            return UTC_ZERO + timedelta(microseconds=clock[0])

    def factory(target):
        def guarded():
            try:
                target()
            except BaseException as e:  # noqa  the worker thread dies with the action's exception
                died.append(fw.err_name(e))

        t = threading.Thread(target=guarded, daemon=True)
        threads.append(t)
        return t

    sched = Controlled(thread_factory=factory)
    calls = []
    handle = []
    st0 = case["st0"]
    if case["dispose_at"] is None and case["raise_at"] is None:
        case = dict(case, dispose_at=6)

    def action(state):
        k = state - st0
        calls.append([state, "disposed" if handle and getattr(handle[0], "is_disposed", False) else "live"])
        if len(calls) > 40:
            raise SystemExit("runaway")       # bounded: a job that cannot be stopped is cut off here
        clock[0] += case["adv"][k % len(case["adv"])]
        if case["dispose_at"] is not None and k == case["dispose_at"]:
            handle[0].dispose()
        if case["raise_at"] is not None and k == case["raise_at"]:
            raise fw.InjectedError(f"n{k}")
        return state + 1

    handle.append(sched.schedule_periodic(case["period_us"] / 1e6, action, st0))
    threads[0].join(4.0)
    alive = threads[0].is_alive()
    if alive:                                  # e.g. dispose_at/raise_at never reached: stop it ourselves
        handle[0].dispose()
        threads[0].join(2.0)
    return {"calls": [c[0] for c in calls], "died": died, "alive_after_join": alive}


def nts_oracle(case, out):
    st0 = case["st0"]
    ends = [k for k in (case["dispose_at"], case["raise_at"]) if k is not None]
    last = min(ends) if ends else 6
    exp = list(range(st0, st0 + last + 1))
    if out["calls"] != exp:
        return (f"NewThreadScheduler.schedule_periodic (controlled clock, period {case['period_us']} us, per-call clock advance "
                f"{case['adv']}): action called with states {out['calls'][:45]}, expected {exp} (state threaded, no call after "
                f"dispose() in call {case['dispose_at']} / raise in call {case['raise_at']})")
    if out["alive_after_join"]:
        return "the periodic thread was still running 4 s after the job was disposed / had raised"
    return None


def _run_timer(case):
    import reactivex

    rig = vc.Rig(case)
    seen = []
    src = reactivex.timer(rig.rel(case["due"]), None if case["period"] is None else rig.rel(case["period"]))
    sub = src.subscribe(lambda v: seen.append([rig.clock(), "N", v]), lambda e: seen.append([rig.clock(), "E", fw.err_name(e)]),
                        lambda: seen.append([rig.clock(), "C", None]), scheduler=rig.s)
    if case["dispose"] is not None:
        rig.s.schedule_absolute(rig.abs_(case["dispose"]), lambda sc, st: sub.dispose())
    rig.s.advance_to(rig.abs_(case["T"]))
    return {"seen": seen, "clock": rig.clock()}


def impl(case):
    if case["op"] == "start_case":
        st, res = vc.alarm_timeout(_run_start_case, (case,))
        return res if st == "ok" else {"hang": True, "watchdog_s": vc.WATCHDOG_S}
    if case["op"] == "timer_late":
        st, res = vc.alarm_timeout(_run_timer_late, (case,))
        return res if st == "ok" else {"hang": True, "watchdog_s": vc.WATCHDOG_S}
    if case["op"] == "el_case":
        st, res = vc.alarm_timeout(_run_el, (case,), 14.0)
        return res if st == "ok" else {"hang": True, "watchdog_s": 14.0}
    if case["op"] == "nts_case":
        st, res = vc.alarm_timeout(_run_nts, (case,), 12.0)
        return res if st == "ok" else {"hang": True, "watchdog_s": 12.0}
    if case["op"] == "timer_case":
        st, res = vc.alarm_timeout(_run_timer, (case,))
        return res if st == "ok" else {"hang": True, "watchdog_s": vc.WATCHDOG_S}
    return vc.run_periodic(case)


def canon_impl(case, out):
    if case["op"] == "timer_late":
        return {"hang": True} if out.get("hang") else {"seen": out["seen"], "clock": out["clock"]}
    if case["op"] == "el_case":
        return {"hang": True} if out.get("hang") else {"log": out["log"]}
    return out if case["op"] in ("timer_case", "nts_case", "timer_late", "start_case") else vc.canon_impl(case, out)


def canon_model(case, resp):
    if case["op"] == "timer_late":
        return resp if "error" in resp else {"seen": resp["seen"], "clock": resp["clock"]}
    if case["op"] == "el_case":
        return resp if "error" in resp else {"log": resp["log"]}
    return vc.canon_model(case, resp)


def el_oracle(case, out):
    """property text on the controlled clock: state threaded, one call per period — call k+1 starts max(period, time spent in
    call k) after call k started, the first one period after scheduling — and no call after dispose / raise"""
    st0, p = case["st0"], case["period_us"]
    ends = [k for k in (case["dispose_at"], case["raise_at"]) if k is not None]
    last = min(ends)
    exp, t = [], p
    for k in range(last + 1):
        exp.append([1, t, st0 + k])
        t += max(p, case["adv"][k % len(case["adv"])])
    if out["log"] != exp:
        return (f"EventLoopScheduler.schedule_periodic (controlled clock, period {p} us, per-call clock advance {case['adv']}, dispose in call "
                f"{case['dispose_at']}, raise in call {case['raise_at']}): calls (clock, state) {[c[1:] for c in out['log'][:12]]}, expected {[c[1:] for c in exp]}")
    if out["alive_after_join"]:
        return "the event-loop thread was still running 5 s after the periodic job had ended"
    if case["raise_at"] is not None and (case["dispose_at"] is None or case["raise_at"] <= case["dispose_at"]) and out["died"] != [f"p1s{st0 + case['raise_at']}"]:
        return f"the action's exception did not propagate out of the loop thread: {out['died']}"
    return None


def oracle(case, out):
    if out.get("hang"):
        return "advance_to did not return within the watchdog"
    if case["op"] == "start_case":
        return start_case_oracle(case, out)
    if case["op"] == "timer_late":
        return timer_late_oracle(case, out)
    if case["op"] == "nts_case":
        return nts_oracle(case, out)
    if case["op"] == "el_case":
        return el_oracle(case, out)
    if case["op"] == "timer_case":
        c0, d, p, T, D = case["clock"], case["due"], case["period"], case["T"], case["dispose"]
        exp = []
        if p is None:
            if c0 + d <= T and (D is None or D > c0 + d):
                exp = [[c0 + d, "N", 0], [c0 + d, "C", None]]
        else:
            k = 0
            while c0 + d + k * p <= T and (D is None or c0 + d + k * p < D):
                exp.append([c0 + d + k * p, "N", k])
                k += 1
        if out["seen"] != exp:
            return f"timer({d}, {p}) from clock {c0} until {T} (dispose {D}) emitted {out['seen'][:8]}, expected {exp[:8]}"
        return None
    return vc.periodic_property_oracle(case, out)


def nontrivial(case, out):
    if case["op"] == "start_case":
        return len(out.get("calls", [])) > 100
    if case["op"] == "timer_late":
        return len(out.get("seen", [])) >= 2 and (bool(case["blockers"]) or any(case["obs_sleep"]))
    if case["op"] == "el_case":
        return len(out.get("log", [])) >= 2
    if case["op"] == "nts_case":
        return len(out.get("calls", [])) >= 2
    if case["op"] == "timer_case":
        return len(out.get("seen", [])) >= 2
    counts = {}
    for r in out.get("log", []):
        counts[r[0]] = counts.get(r[0], 0) + 1
    return any(v >= 2 for v in counts.values())


def bucket(case, out):
    if case["op"] == "start_case":
        yield "start-run:" + case["sched"]
        return
    if case["op"] == "timer_late":
        yield "timer-late:" + ("absolute" if case["absolute"] else "relative")
        if case["blockers"]:
            yield "timer-late:blockers"
        if any(case["obs_sleep"]):
            yield "timer-late:slow-observer"
        return
    if case["op"] == "el_case":
        yield "eventloop:" + ("no-advance" if not any(case["adv"]) else "overrun" if all(a >= case["period_us"] for a in case["adv"]) else "mixed")
        yield "eventloop:" + ("raise" if case["raise_at"] is not None else "dispose")
        return
    if case["op"] == "nts_case":
        yield "newthread:" + ("overrun" if all(a >= case["period_us"] for a in case["adv"]) else "mixed")
        return
    if case["op"] == "timer_case":
        yield "timer:" + ("single" if case["period"] is None else "periodic") + (":disposed" if case["dispose"] is not None else "")
        return
    yield case.get("via", "schedule_periodic") + ":" + case["sched"]
    if out.get("hang"):
        yield "hang"
        return
    kinds = {ev[0] for ev in out["events"]}
    for k in ("dispose", "raise"):
        if k in kinds:
            yield k
    if any(f["sleep_at"] for f in case["fns"]):
        yield "drift"
    if any(op[0] == "periodic" and op[4] for op in case["ops"]):
        yield "catch"
    n = len(out["log"])
    yield "invocations:" + ("0" if n == 0 else "1-3" if n <= 3 else "4-10" if n <= 10 else ">10")


def shrink(case):
    if case["op"] != "per_script":
        return
    pids = lambda ops: [o[1] for o in ops if o[0] == "periodic"]
    for i in range(len(case["ops"])):
        c = dict(case)
        c["ops"] = case["ops"][:i] + case["ops"][i + 1:]
        ok = all((o[2] if o[0] == "dispose_at" else o[1]) in pids(c["ops"]) for o in c["ops"] if o[0] in ("dispose_at", "dispose_now"))
        if ok and pids(c["ops"]):
            yield c


LEVEL_TEXT = ("Lean, on the model of PeriodicScheduler.schedule_periodic (and CatchScheduler.schedule_periodic) over the virtual-time advance_to loop, for an "
              "ARBITRARY user action: a task of period p >= 1 scheduled at t0 is invoked exactly at t0 + (i+1)p with the state returned by the previous "
              "call, floor((T-t0)/p) times until T (closed form, induction; in-call sleeps up to one period are absorbed by the drift term); interval / "
              "timer(p,p) emit 0,1,2,... at those ticks; after dispose() of the handle (from outside, from a scheduled action, from the action itself) "
              "and after the action raises, it is never invoked again whatever calls follow (invariant over all scripts with any number of tasks); the "
              "advance_to loop over self-rescheduling work terminates (decreasing weight). Tied to /repo by differential runs on the three virtual-time "
              "schedulers incl. reactivex.interval/timer, and an oracle from the property text.")
LEVEL_NOTE = ("Theorems and model are for virtual time. Real-thread periodic schedulers under a controlled clock: EventLoopScheduler.schedule_periodic (it IS "
              "PeriodicScheduler.schedule_periodic over the loop's schedule_relative) runs on its real loop thread with `now` overridden and timed waits turned into "
              "clock jumps, and is compared call by call (clock, state) with the Lean periodic model — the model's theorems transfer to it only through that "
              "correspondence (one job, one loop thread; thread interleavings of the event loop are C31's subject); NewThreadScheduler.schedule_periodic (its own "
              "loop, not modelled in Lean) is ORACLE-ONLY: state threading and 'no call after dispose/raise', including overrunning actions, not the timing. "
              "CatchScheduler is covered over a virtual-time inner scheduler. "
              "Closed forms are for one task on an otherwise idle scheduler (ticks_at_k_period: sleeps <= period, ticks exactly on the multiples; "
              "closed_form_any_sleep: any sleep, next call max(period, sleep) after the previous one started). With several tasks the timing depends on the other "
              "work; what is proved there is the per-tick rule (tick_rule: invoked at max(clock, due), next tick due = start of this call + period, state threaded) "
              "and the stop invariants — the correspondence covers those mixes. timer(d, p) with d != p "
              "(its own absolute re-basing loop in observable/timer.py, distinct from PeriodicScheduler) is modelled in RxModel/VtsTimer.lean (ticks, blocking actions, sleeping "
              "observer; theorems timer_tick_rule / timer_ticks for every cost function, i.e. every sequence of lateness values); disposal of that subscription and timer(d) "
              "single-shot are oracle-only (timer_case). period <= 0 (the real advance_to then spins for ever) "
              "is outside the model (reported as `stuck`).")

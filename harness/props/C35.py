"""C35 — periodic scheduling threads state, keeps the period and stops; interval/timer ticks (DESIGN.md §5 C35)."""
import fw
from props import vts_common as vc

LEAN_TARGETS = ["RxProofs.C35"]
DRIVER = "drv_vts"
DRIVER_ROOT = "Vts"
THEOREMS = [
    "C35.advance_terminates",
    "C35.ticks_at_k_period",
    "C35.periodic_state_threaded",
    "C35.interval_emits_naturals",
    "C35.stops_on_dispose",
    "C35.stops_on_dispose_during_run",
    "C35.stops_after_raise",
]
RULE = ("1..3 periodic actions (periods 1..10, initial states 0/5/-2) scheduled with schedule_periodic — directly, through a CatchScheduler, or as "
        "reactivex.interval(p)/timer(p, p) subscriptions — on TestScheduler/VirtualTimeScheduler/HistoricalScheduler; the action raises at a chosen "
        "state, sleeps inside the call (drift: 0, < period, = period, > period), disposes its own handle; dispose actions scheduled at/around tick "
        "boundaries; advance_to in one or several steps. Compared with the Lean model on the invocation log (task, clock, state), outcomes, final clock, "
        "pending count, handler calls. Plus oracle-only timer(d, p), d != p, and timer(d). non-trivial = at least two invocations of some action")
ASSUMPTIONS = ["virtual-time schedulers only (TestScheduler, VirtualTimeScheduler, HistoricalScheduler); integer times, period >= 1",
               "single-threaded use"]
TRUSTED_EXTRA = []


def gen_timer(rng):
    kind = rng.choice(["test", "vts", "hist"])
    unit = 500 if kind == "hist" else 1
    c0 = unit * rng.choice([0, 0, 7, 100])
    d = unit * rng.choice([0, 1, 3, 10])
    p = rng.choice([None, None] + [unit * x for x in (1, 2, 5, 7)])
    if p is not None and p == d:
        d += unit
    T = c0 + d + (p or unit) * rng.randrange(0, 6) + unit * rng.choice([0, 1])
    dispose = None
    if rng.random() < 0.4:
        k = rng.randrange(0, 4)
        dispose = c0 + d + (p or unit) * k + unit * rng.choice([1, -1])  # never exactly on a tick
        if (p is not None and (dispose - c0 - d) % p == 0 and dispose >= c0 + d) or dispose == c0 + d:
            dispose = None
    return {"op": "timer_case", "sched": kind, "clock": c0, "due": d, "period": p, "dispose": dispose, "T": max(T, c0 + unit)}


def cases(rng, tier):
    for _ in range(fw.tier_scale(tier, 1600, 16000)):
        yield vc.gen_periodic(rng, catch_p=0.15, raise_p=0.3,
                              via=rng.choice(["schedule_periodic", "schedule_periodic", "schedule_periodic", "interval", "timer"]))
    for _ in range(fw.tier_scale(tier, 400, 4000)):
        yield gen_timer(rng)


def model_request(case):
    return vc.per_model_request(case) if case["op"] == "per_script" else None


def _run_timer(case):
    import reactivex

    rig = vc.Rig(case)
    seen = []
    src = reactivex.timer(rig.rel(case["due"]), None if case["period"] is None else rig.rel(case["period"]))
    sub = src.subscribe(lambda v: seen.append([rig.clock(), "N", v]), lambda e: seen.append([rig.clock(), "E", fw.err_name(e)]),
                        lambda: seen.append([rig.clock(), "C", None]), scheduler=rig.s)
    if case["dispose"] is not None:
        rig.s.schedule_absolute(rig.abs_(case["dispose"]), lambda sc, st: sub.dispose())
    rig.s.advance_to(rig.abs_(case["T"]))
    return {"seen": seen, "clock": rig.clock()}


def impl(case):
    if case["op"] == "timer_case":
        st, res = vc.alarm_timeout(_run_timer, (case,))
        return res if st == "ok" else {"hang": True, "watchdog_s": vc.WATCHDOG_S}
    return vc.run_periodic(case)


def canon_impl(case, out):
    return out if case["op"] == "timer_case" else vc.canon_impl(case, out)


canon_model = vc.canon_model


def oracle(case, out):
    if out.get("hang"):
        return "advance_to did not return within the watchdog"
    if case["op"] == "timer_case":
        c0, d, p, T, D = case["clock"], case["due"], case["period"], case["T"], case["dispose"]
        exp = []
        if p is None:
            if c0 + d <= T and (D is None or D > c0 + d):
                exp = [[c0 + d, "N", 0], [c0 + d, "C", None]]
        else:
            k = 0
            while c0 + d + k * p <= T and (D is None or c0 + d + k * p < D):
                exp.append([c0 + d + k * p, "N", k])
                k += 1
        if out["seen"] != exp:
            return f"timer({d}, {p}) from clock {c0} until {T} (dispose {D}) emitted {out['seen'][:8]}, expected {exp[:8]}"
        return None
    # periodic scripts: the property text on the event trace
    tasks = {}
    slept = any(f["sleep_at"] for f in case.get("fns", []))
    nper = sum(1 for op in case["ops"] if op[0] == "periodic")
    if slept and nper == 1:
        # a single task whose in-call sleeps never exceed its period still ticks exactly on the multiples (drift correction)
        per = next(op[2] for op in case["ops"] if op[0] == "periodic")
        if all(d <= per for f in case["fns"] for _, d in f["sleep_at"]):
            slept = False
    for ev in out["events"]:
        k = ev[0]
        if k == "periodic":
            _, pid, clock, period, st = ev
            tasks[pid] = {"t0": clock, "p": period, "st": st, "n": 0, "last": None, "stopped": False}
        elif k == "tick":
            _, pid, clock, st = ev
            t = tasks[pid]
            if t["stopped"]:
                return f"periodic action {pid} invoked at {clock} after it was disposed / had raised"
            if st != t["st"]:
                return f"periodic action {pid}: invocation {t['n']} got state {st}, the previous call returned {t['st']}"
            if not slept:
                if clock != t["t0"] + (t["n"] + 1) * t["p"]:
                    return f"periodic action {pid}: invocation {t['n']} at clock {clock}, expected {t['t0'] + (t['n'] + 1) * t['p']}"
            elif t["last"] is not None and clock < t["last"] + t["p"]:
                return f"periodic action {pid}: invocations at {t['last']} and {clock} are closer than the period {t['p']}"
            t["st"] = st + 1
            t["n"] += 1
            t["last"] = clock
        elif k in ("dispose", "raise"):
            if ev[1] in tasks:
                tasks[ev[1]]["stopped"] = True
    # nothing due was left out: with no sleeps, no failure and no disposal the count is floor((T - t0) / p)
    if not slept and all(o == "ok" for o in out["outs"]):
        T = out["clock"]
        for pid, t in tasks.items():
            if not t["stopped"]:
                exp = (T - t["t0"]) // t["p"]
                if t["n"] != exp:
                    return f"periodic action {pid} was invoked {t['n']} times until {T}, expected {exp}"
    return None


def nontrivial(case, out):
    if case["op"] == "timer_case":
        return len(out.get("seen", [])) >= 2
    counts = {}
    for r in out.get("log", []):
        counts[r[0]] = counts.get(r[0], 0) + 1
    return any(v >= 2 for v in counts.values())


def bucket(case, out):
    if case["op"] == "timer_case":
        yield "timer:" + ("single" if case["period"] is None else "periodic") + (":disposed" if case["dispose"] is not None else "")
        return
    yield case.get("via", "schedule_periodic") + ":" + case["sched"]
    if out.get("hang"):
        yield "hang"
        return
    kinds = {ev[0] for ev in out["events"]}
    for k in ("dispose", "raise"):
        if k in kinds:
            yield k
    if any(f["sleep_at"] for f in case["fns"]):
        yield "drift"
    if any(op[0] == "periodic" and op[4] for op in case["ops"]):
        yield "catch"
    n = len(out["log"])
    yield "invocations:" + ("0" if n == 0 else "1-3" if n <= 3 else "4-10" if n <= 10 else ">10")


def shrink(case):
    if case["op"] != "per_script":
        return
    pids = lambda ops: [o[1] for o in ops if o[0] == "periodic"]
    for i in range(len(case["ops"])):
        c = dict(case)
        c["ops"] = case["ops"][:i] + case["ops"][i + 1:]
        ok = all((o[2] if o[0] == "dispose_at" else o[1]) in pids(c["ops"]) for o in c["ops"] if o[0] in ("dispose_at", "dispose_now"))
        if ok and pids(c["ops"]):
            yield c


LEVEL_TEXT = ("Lean, on the model of PeriodicScheduler.schedule_periodic (and CatchScheduler.schedule_periodic) over the virtual-time advance_to loop, for an "
              "ARBITRARY user action: a task of period p >= 1 scheduled at t0 is invoked exactly at t0 + (i+1)p with the state returned by the previous "
              "call, floor((T-t0)/p) times until T (closed form, induction; in-call sleeps up to one period are absorbed by the drift term); interval / "
              "timer(p,p) emit 0,1,2,... at those ticks; after dispose() of the handle (from outside, from a scheduled action, from the action itself) "
              "and after the action raises, it is never invoked again whatever calls follow (invariant over all scripts with any number of tasks); the "
              "advance_to loop over self-rescheduling work terminates (decreasing weight). Tied to /repo by differential runs on the three virtual-time "
              "schedulers incl. reactivex.interval/timer, and an oracle from the property text.")
LEVEL_NOTE = ("Virtual-time schedulers only: the real-thread periodic schedulers named in the property (EventLoopScheduler, NewThreadScheduler; "
              "CatchScheduler is covered over a virtual-time inner scheduler) are NOT modelled or exercised — no controlled-clock harness was built for them. "
              "The closed form is for one task on an otherwise idle scheduler with in-call sleeps <= period; with several tasks or longer sleeps only the "
              "stop/threading invariants are proved (timing then depends on the other work) — the correspondence covers those mixes. timer(d, p) with d != p "
              "(absolute rescheduling in observable/timer.py) is checked by the oracle only, not modelled. period <= 0 (the real advance_to then spins for ever) "
              "is outside the model (reported as `stuck`).")

"""C32 — observe_on / ScheduledObserver delivers every notification once, in order, serially, with no lost wake-up
(DESIGN.md §5 C32).  Lean: RxModel/ThrSO.lean (atomic-step model), RxProofs/C32.lean (invariant proofs for all interleavings).

Correspondence, two layers:
  * `cases`  — method-level histories (emit / pump) on the real ObserveOnObserver (direct, and through `ops.observe_on` over a
    Subject) with a manual scheduler, compared snapshot by snapshot with the model run at method granularity;
  * `extra`  — real threads under the deterministic interleaving controller (harness/sched/thr_ctl.py): producers × a worker
    pool / the real EventLoopScheduler / NewThreadScheduler; ALL schedules with <= k deviations from the non-preemptive
    schedule are enumerated (k=2 quick, 3 thorough) plus random deeper samples; for each schedule (i) the property oracle is
    evaluated on the observed events and (ii) the observed lock/flag/queue event sequence is replayed in the atomic-step model
    by the Lean driver (every observed step must be the step the model takes).
"""
import json
import os

import fw
from fw import InjectedError

LEAN_TARGETS = ["RxProofs.C32"]
DRIVER = "drv_thr"
DRIVER_ROOT = "Thr"
THEOREMS = [
    "C32.delivered_is_prefix_in_order",
    "C32.conservation",
    "C32.exactly_once",
    "C32.at_most_one_run_active",
    "C32.deliveries_never_overlap",
    "C32.no_lost_wakeup",
    "C32.after_fault_nothing",
    "C32.after_fault_no_run",
    "C32.lostToken_only_after_dispose",
]
RULE = ("method-level histories: 1-2 producers x 0..6 calls (next/error/completed, also after a terminal), pumps of a manual scheduler "
        "interleaved at random, raising deliveries at random indices; non-trivial = a pump occurs between two emits, or a delivery raises, "
        "or a call arrives after a terminal.  Thread schedules: enumerated deviations from the non-preemptive schedule at line granularity "
        "(plus lock/condition operations); a schedule is non-trivial when it contains at least one preemption inside a modelled method")
ASSUMPTIONS = [
    "atomicity: a `with self.lock:` block is one step; `list.append`, a single attribute read/write are one step each (CPython GIL)",
    "the target scheduler eventually runs every scheduled action and runs `run` on its own thread(s); it is abstracted as a counter of pending runs",
    "ScheduledObserver.dispose (ReplaySubject's unsubscribe; never called on the observe_on path) IS modelled: disposer threads set is_stopped and dispose the SerialDisposable, which cancels a still-pending run scheduled by ensure_active (not the re-scheduled ones); all safety theorems hold with disposers; no_lost_wakeup / exactly_once then carry the explicit `lostToken` case",
    "'received' means the order of the queue.append steps; 'delivered' the order in which downstream callbacks are entered",
]
TRUSTED_EXTRA = ["interleaving controller harness/sched/thr_ctl.py + thr_so.py (event extraction, section classification)"]
PROCS = None


# ----------------------------------------------------------------------------------------- sequential cases
def gen_prog(rng, base, n):
    out = []
    for i in range(n):
        r = rng.random()
        k = "N" if r < 0.72 else ("C" if r < 0.87 else "E")
        out.append([k, base + i])
    return out


def cases(rng, tier):
    n = fw.tier_scale(tier, 1200, 12000)
    for _ in range(n):
        via = rng.choice(["direct", "direct", "operator", "operator_sub"])
        nprod = 1 if via != "direct" else rng.choice([1, 1, 2])
        progs = [gen_prog(rng, 10 * (p + 1), rng.choice([0, 1, 2, 3, 4, 6])) for p in range(nprod)]
        left = [len(p) for p in progs]
        ops = []
        while any(left):
            if rng.random() < 0.35:
                ops.append(["pump", 0])
            else:
                p = rng.choice([i for i, l in enumerate(left) if l])
                left[p] -= 1
                ops.append(["emit", p])
        ndisp = 0
        if via == "direct" and rng.random() < 0.2:
            for _ in range(rng.choice([1, 1, 2])):
                ops.insert(rng.randrange(len(ops) + 1), ["dispose", ndisp])
                ndisp += 1
        total = sum(len(p) for p in progs)
        ops += [["pump", 0]] * (total + 2)
        raises = sorted({rng.randrange(0, max(1, total)) for _ in range(rng.choice([0, 0, 0, 1, 2]))})
        yield {"op": "so_seq", "via": via, "progs": progs, "ops": ops, "raises": raises}


def model_request(case):
    if case["op"] != "so_seq":
        return None
    from sched.thr_so import call_item

    return {"op": "so_seq", "progs": [[call_item(c) for c in p] for p in case["progs"]], "nc": 1, "raises": case["raises"], "ops": case["ops"],
            "nd": sum(1 for o in case["ops"] if o[0] == "dispose")}


class _SeqDown:
    def __init__(self, raises):
        self.raises, self.k, self.log = set(raises), 0, []

    def _cb(self, rec):
        k = self.k
        self.k += 1
        self.log.append(rec)
        if k in self.raises:
            raise InjectedError(f"cb{k}")

    def on_next(self, v):
        self._cb(["N", v])

    def on_error(self, e):
        self._cb(["E", fw.err_name(e)])

    def on_completed(self):
        self._cb(["C"])


def impl(case):
    if case["op"] == "threads":
        return impl_threads(case)
    from reactivex.disposable import Disposable
    from reactivex.observer import ObserveOnObserver

    pending = []

    class Manual:
        def schedule(self, action, state=None):
            entry = (action, state)
            pending.append(entry)

            def cancel():
                pending[:] = [e for e in pending if e is not entry]

            return Disposable(cancel)

    sched = Manual()
    other_pending = []

    class Other:
        """a different scheduler handed in at subscribe time: observe_on must NOT deliver on it"""

        def schedule(self, action, state=None):
            other_pending.append((action, state))
            return Disposable()

    down = _SeqDown(case["raises"])
    obs = None
    if case["via"] == "direct":
        obs = ObserveOnObserver(sched, down)
        target = obs
    else:
        from reactivex import operators as ops
        from reactivex.subject import Subject

        target = Subject()
        if case["via"] == "operator_sub":
            target.pipe(ops.observe_on(sched)).subscribe(down.on_next, down.on_error, down.on_completed, scheduler=Other())
        else:
            target.pipe(ops.observe_on(sched)).subscribe(down.on_next, down.on_error, down.on_completed)
    pos = [0] * len(case["progs"])
    snaps = []
    escaped = []
    for o in case["ops"]:
        if o[0] == "emit":
            p = o[1]
            c = case["progs"][p][pos[p]]
            pos[p] += 1
            if c[0] == "N":
                target.on_next(c[1])
            elif c[0] == "E":
                target.on_error(InjectedError(f"e{c[1]}"))
            else:
                target.on_completed()
        elif o[0] == "dispose":
            target.dispose()
        else:
            if pending:
                a, st = pending.pop(0)
                try:
                    a(sched, st)
                except InjectedError as e:
                    escaped.append(e.name)
        snaps.append({"delivered": list(down.log), "pending": len(pending), "other": len(other_pending),
                      "acq": obs.is_acquired if obs else None, "faulted": obs.has_faulted if obs else None,
                      "qlen": len(obs.queue) if obs else None})
    return {"snaps": snaps, "escaped": escaped}


def _received(case):
    """the calls that pass the Observer grammar, in emission order (what the producer side hands to the queue)"""
    pos = [0] * len(case["progs"])
    out, stopped = [], False
    for o in case["ops"]:
        if o[0] == "emit":
            c = case["progs"][o[1]][pos[o[1]]]
            pos[o[1]] += 1
            if not stopped:
                out.append(c)
                if c[0] != "N":
                    stopped = True
        elif o[0] == "dispose":
            stopped = True  # dispose() sets is_stopped: later calls are dropped
    return out


def _rec_of(c):
    return ["N", c[1]] if c[0] == "N" else (["E", f"e{c[1]}"] if c[0] == "E" else ["C"])


def canon_impl(case, out):
    if case["op"] != "so_seq":
        return out
    rec = _received(case)
    res = []
    for s in out["snaps"]:
        ids = []
        for k, d in enumerate(s["delivered"]):
            ids.append(rec[k][1] if k < len(rec) and _rec_of(rec[k]) == d else "BAD")
        direct = case["via"] == "direct"
        res.append([ids, s["pending"], s["acq"] if direct else None, s["faulted"] if direct else None, s["qlen"] if direct else None])
    return res


def canon_model(case, resp):
    if case["op"] != "so_seq":
        return resp
    direct = case["via"] == "direct"
    return [[s["delivered"], s["pending"], s["acq"] if direct else None, s["faulted"] if direct else None,
             len(s["queue"]) if direct else None] for s in resp]


def oracle(case, out):
    if case["op"] == "threads":
        return out.get("oracle")
    rec = [_rec_of(c) for c in _received(case)]
    prev = []
    raised = False
    if any(s.get("other") for s in out["snaps"]):
        return "observe_on scheduled its delivery on the subscribe-time scheduler, not on the scheduler given to observe_on (target scheduler)"
    for i, s in enumerate(out["snaps"]):
        d = s["delivered"]
        if d[: len(prev)] != prev:
            return f"delivered sequence rewritten at op {i}"
        if raised and len(d) > len(prev):
            return f"delivery after a raising delivery at op {i}"
        prev = d
        raised = any(k in case["raises"] for k in range(len(d)))
        if len(d) - len(out["snaps"][i - 1]["delivered"] if i else []) > 1:
            return f"more than one delivery in one scheduler turn at op {i}"
    if prev != rec[: len(prev)]:
        return f"delivered {prev} is not a prefix of received {rec}"
    disposed = any(o[0] == "dispose" for o in case["ops"])
    if not raised and prev != rec and not disposed:
        return f"scheduler drained but {len(rec) - len(prev)} notification(s) undelivered"
    if raised and len(prev) != min(case["raises"]) + 1:
        return f"deliveries {len(prev)} after a raise at index {min(case['raises'])}"
    return None


def nontrivial(case, out):
    if case["op"] != "so_seq":
        return True
    ops = case["ops"]
    total = sum(len(p) for p in case["progs"])
    body = ops[: len(ops) - (total + 2)]
    kinds = [o[0] for o in body]
    inter = "pump" in kinds and "emit" in kinds[kinds.index("pump"):]
    term = any(c[0] != "N" for p in case["progs"] for c in p[:-1])
    return bool(inter or case["raises"] and total or term)


def bucket(case, out):
    if case["op"] != "so_seq":
        return
    yield "via:" + case["via"]
    yield f"producers:{len(case['progs'])}"
    yield "raises" if case["raises"] else "no-raise"
    if any(o[0] == "dispose" for o in case["ops"]):
        yield "dispose"
    yield "escaped" if out["escaped"] else "clean"


def shrink(case):
    if case["op"] != "so_seq":
        return
    for i, o in enumerate(case["ops"]):
        if o[0] == "pump":
            c = dict(case); c["ops"] = case["ops"][:i] + case["ops"][i + 1:]; yield c
    for p in range(len(case["progs"])):
        if case["progs"][p]:
            c = dict(case)
            c["progs"] = [list(x) for x in case["progs"]]
            c["progs"][p] = c["progs"][p][:-1]
            # drop the last emit of p
            idx = [i for i, o in enumerate(case["ops"]) if o == ["emit", p]]
            c["ops"] = case["ops"][: idx[-1]] + case["ops"][idx[-1] + 1:]
            yield c
    if case["raises"]:
        c = dict(case); c["raises"] = case["raises"][1:]; yield c


# ----------------------------------------------------------------------------------------- threads
def impl_threads(case):
    """one schedule of real threads under the controller: case = {"op":"threads","cfg":…, "pre":[[choice point, thread],…]}"""
    from sched import thr_so

    cfg = case["cfg"]
    pre = {int(i): int(t) for i, t in case.get("pre", [])}
    return _run_threads_child(cfg, pre, case.get("opcode", False))  # the controller has its own watchdogs ("hang" -> RuntimeError -> exit 2)


def _one(cfg, pre, opcode=False):
    from sched import thr_so

    res = thr_so.run_threads(cfg, pre, opcode=opcode)
    if res["status"] == "hang":  # a watchdog fired: retry once (an overloaded machine can starve the baton hand-over)
        res = thr_so.run_threads(cfg, pre, opcode=opcode)
    if res["status"] == "hang":
        raise RuntimeError(f"controller hang cfg={cfg} pre={pre}")
    trace, problems = thr_so.labels_of(res)
    return res, {"status": res["status"], "oracle": thr_so.oracle(cfg, res), "problems": problems, "trace": trace,
                 "nc": len(res["consumers"]), "nchoices": len(res["choices"]), "steps": res["steps"], "final": res["final"],
                 "thread_exc": res["thread_exc"]}


def _run_threads_child(cfg, pre, opcode):
    return _one(cfg, pre, opcode)[1]


def explore_item(item):
    """worker: explore the subtree below one schedule prefix; returns compact per-run records"""
    from sched import thr_ctl

    cfg, k = item["cfg"], item["k"]
    out = []
    seen = set()

    def run_one(pre):
        res, summ = _one(cfg, pre)
        return res["choices"], summ

    def rec(pre, start, depth):
        choices, summ = run_one(pre)
        h = fw.key(summ["trace"])
        r = {"pre": sorted(pre.items()), "status": summ["status"], "oracle": summ["oracle"], "problems": summ["problems"],
             "nc": summ["nc"], "h": hash(h), "nchoices": summ["nchoices"]}
        if h not in seen:
            seen.add(h)
            r["trace"] = summ["trace"]
        out.append(r)
        if depth >= k:
            return
        for i, t in thr_ctl.first_level(choices, start):
            p2 = dict(pre)
            p2[i] = t
            rec(p2, i + 1, depth + 1)

    rec({int(i): int(t) for i, t in item["pre"]}, item["start"], item["depth"])
    return out


def sample_item(item):
    """worker: random schedules with `n` deviations"""
    import random
    from sched import thr_ctl

    rng = random.Random(item["seed"])
    cfg = item["cfg"]
    base, _ = _one(cfg, {})
    out = []
    seen = set()
    for _ in range(item["runs"]):
        pre = thr_ctl.sample_preempts(rng, base["choices"], item["n"])
        res, summ = _one(cfg, pre)
        h = fw.key(summ["trace"])
        r = {"pre": sorted(pre.items()), "status": summ["status"], "oracle": summ["oracle"], "problems": summ["problems"],
             "nc": summ["nc"], "h": hash(h), "nchoices": summ["nchoices"]}
        if h not in seen:
            seen.add(h)
            r["trace"] = summ["trace"]
        out.append(r)
    return out


def thread_configs(tier):
    q = tier != "thorough"
    P3 = [["N", 1], ["N", 2], ["C", 3]]
    cfgs = [
        ("pool-1p1c", {"progs": [P3], "nc": 1, "raises": [], "sched": "pool"}, 2 if q else 3),
        ("pool-raise", {"progs": [[["N", 1], ["N", 2], ["N", 3]]], "nc": 1, "raises": [1], "sched": "pool"}, 1 if q else 3),
        ("pool-1p2c", {"progs": [[["N", 1], ["N", 2]]], "nc": 2, "raises": [], "sched": "pool"}, 1 if q else 3),
        ("pool-arrival-during-last-delivery", {"progs": [[["N", 1], ["N", 2]]], "nc": 2, "raises": [], "sched": "pool", "handshake": True}, 1 if q else 2),
        ("pool-arrival-after-fault", {"progs": [[["N", 1], ["N", 2], ["N", 3]]], "nc": 1, "raises": [0], "sched": "pool", "handshake": True,
                                      "catching": True}, 1 if q else 2),
        ("pool-dispose", {"progs": [[["N", 1], ["N", 2]]], "nc": 1, "raises": [], "sched": "pool", "ndisp": 1}, 1 if q else 2),
        # (no configuration with two CONCURRENT producer threads: outside the property's quantifier — see LEVEL_NOTE)
        ("eventloop", {"progs": [P3], "raises": [], "sched": "eventloop"}, 2 if q else 3),
        ("eventloop-raise", {"progs": [[["N", 1], ["N", 2]]], "raises": [0], "sched": "eventloop"}, 1 if q else 2),
        ("newthread", {"progs": [[["N", 1], ["N", 2]]], "raises": [], "sched": "newthread"}, 1 if q else 2),
    ]
    return cfgs


def extra(rng, tier):
    from sched import thr_ctl, thr_so

    failures, cov = [], {}
    procs = min(16, os.cpu_count() or 4)
    items = []
    meta = {}
    for name, cfg, k in thread_configs(tier):
        base, summ = fw.run_with_timeout(_base_child, (cfg,), timeout=60.0)
        if base != "ok":
            raise RuntimeError(f"controller base run failed for {name}: {base} {summ}")
        choices = summ["choices"]
        meta[name] = {"k": k, "choice_points": len(choices), "steps": summ["steps"]}
        if summ["status"] not in ("ok", "idle"):
            # the default (fair, non-preemptive) schedule already fails: report it, do not enumerate thousands of such runs
            failures.append(fw.Failure("oracle", {"op": "threads", "cfg": cfg, "pre": []}, f"run ended with status {summ['status']} under the default schedule"))
            continue
        items.append({"name": name, "cfg": cfg, "pre": [], "start": 0, "depth": k, "k": k})  # the base run itself
        if k >= 1:
            for i, t in thr_ctl.first_level([tuple(c) for c in choices]):
                items.append({"name": name, "cfg": cfg, "pre": [[i, t]], "start": i + 1, "depth": 1, "k": k})
        ns = fw.tier_scale(tier, 120, 800)
        for j in range(4):
            items.append({"name": name, "cfg": cfg, "sample": True, "seed": rng.randrange(1 << 30), "runs": ns // 4, "n": k + 1 + (j % 2)})
    results = _explore_all(items, procs, fw.tier_scale(tier, 300, 3000))
    for r in results:
        if isinstance(r, dict) and "harness_exception" in r:
            raise RuntimeError(f"thread exploration failed: {r['harness_exception']} {r.get('tb', '')}")
    # (i) oracle verdicts and structural problems; (ii) model replay of every distinct trace
    reqs, owners = [], []
    nsched = {}
    ndistinct = {}
    statuses = {}
    for item, recs in zip(items, results):
        name, cfg = item["name"], item["cfg"]
        for r in recs:
            nsched[name] = nsched.get(name, 0) + 1
            statuses[r["status"]] = statuses.get(r["status"], 0) + 1
            case = {"op": "threads", "cfg": cfg, "pre": [list(p) for p in r["pre"]]}
            if r["oracle"]:
                failures.append(fw.Failure("oracle", case, r["oracle"]))
            if r["problems"]:
                failures.append(fw.Failure("correspondence", case, {"atomicity": r["problems"][:5]}))
            if "trace" in r:
                ndistinct[name] = ndistinct.get(name, 0) + 1
                reqs.append({"op": "so_trace", "progs": [[thr_so.call_item(c) for c in p] for p in cfg["progs"]], "nc": r["nc"],
                             "nd": cfg.get("ndisp", 0), "raises": cfg.get("raises", []), "trace": r["trace"]})
                owners.append(case)
    pf = []
    if reqs:
        try:
            resps = fw.run_driver(DRIVER, reqs)
            for case, req, resp in zip(owners, reqs, resps):
                if not resp.get("ok"):
                    at = resp.get("at")
                    failures.append(fw.Failure("correspondence", case, {"trace_not_a_model_run_at": at, "observed": req["trace"][at] if at is not None and at < len(req["trace"]) else None,
                                                                        "model": resp.get("model"), "error": resp.get("error")}))
        except Exception as e:  # noqa
            pf.append(f"model driver failed on thread traces: {e}")
    cov["thread_schedules"] = nsched
    cov["thread_distinct_traces"] = ndistinct
    cov["thread_configs"] = meta
    cov["thread_statuses"] = statuses
    cov["thread_trace_replays"] = len(reqs)
    return {"failures": failures, "coverage": cov, "proof_failures": pf}


def _base_child(cfg):
    from sched import thr_so

    res = thr_so.run_threads(cfg, {})
    return {"choices": [list(c) for c in res["choices"]], "steps": res["steps"], "status": res["status"]}


def _work(item):
    return sample_item(item) if item.get("sample") else explore_item(item)


def _explore_all(items, procs, timeout):
    """global watchdog: a harness hang is a harness error (exit 2), never a verdict"""
    import signal

    def on_alarm(signum, frame):
        raise TimeoutError(f"thread exploration exceeded {timeout}s")

    old = signal.signal(signal.SIGALRM, on_alarm)
    signal.alarm(int(timeout))
    try:
        return fw.pmap("props.C32", "_work", items, procs=procs, chunk=1)
    finally:
        signal.alarm(0)
        signal.signal(signal.SIGALRM, old)


def search(rng, tier, disagreeing):
    """failing-input search after a broken obligation/correspondence: the disagreeing thread schedules first (the property
    oracle on the real code), then a fresh sweep of sequential cases"""
    for c in disagreeing[:50]:
        try:
            out = impl(c)
            v = oracle(c, out)
        except Exception:
            continue
        if v:
            return fw.Failure("oracle", c, v)
    for c in cases(rng, "quick"):
        v = oracle(c, impl(c))
        if v:
            return fw.Failure("oracle", c, v)
    return None


LEVEL_TEXT = ("Lean theorems over an atomic-step model of ScheduledObserver/ObserveOnObserver: for ANY number of producer threads, ANY number of "
              "scheduler threads, ANY call lists, ANY raising pattern of the downstream observer and EVERY schedule (unbounded): delivered is a prefix "
              "of received (in order, no duplicates), conservation (delivered ++ in-flight ++ queue = received until a raise), at most one run "
              "pending-or-active, deliveries never overlap, quiescent => queue empty or faulted (no lost wake-up), quiescent and not faulted => "
              "delivered = received (exactly once), after a raising delivery nothing is delivered. Invariant proof, no bounds. Tie to /repo: "
              "method-level differential histories + enumerated thread schedules (<=2/3 preemptions) of the real classes whose observed "
              "lock/flag/queue events are replayed step by step in the model, + the property oracle on every explored schedule.")
LEVEL_NOTE = ("Scope of the producer side: the property quantifies over ONE producer thread (Rx serialises on_next). The Lean model allows any "
              "number of producers, but its `assign` step (ensure_active storing the scheduled run in the SerialDisposable) does not mirror "
              "SerialDisposable.set_disposable disposing the PREVIOUSLY held disposable; with one producer that run has always started, so the "
              "model is faithful there. With two concurrent producers the real code can cancel a still-pending run through that replacement "
              "(observed under the controller: producers [N1,C2] and [N11,E12], one worker, schedule pre=[[9,1],[27,2]]: idle with C2 undelivered) - "
              "outside this property's quantifier, reported as an observation; the multi-producer theorems are therefore claims about the model only. Assumed, not proved: the atomicity of the model's steps (validated by the controller at line granularity: guarded fields are only "
              "touched inside the lock, every locked section is one model step), fairness of the target scheduler, CPython list.append atomicity. "
              "ScheduledObserver.dispose is modelled (disposer threads; a cancelled pending run = lostToken, only possible after the SerialDisposable was "
              "disposed); the cancel guard in the model repeats `serialDisposed`, which the trace replay validates.")

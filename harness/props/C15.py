"""C15 — time-shifting operators move notifications by the requested time (DESIGN.md §5 C15).

delay (0 / relative / absolute datetime), delay_subscription, delay_with_mapper, timestamp, time_interval on TestScheduler
(integer ticks) and on HistoricalScheduler (datetime clock) over hot and cold test observables; full timed output vs the Lean
runs (`RxModel/TimedShift.lean`, `RxModel/TimedMap.lean`) and vs oracles written from the property text."""
from datetime import timedelta

import fw
import timedlib as T
from timedlib import SUB, STOP

LEAN_TARGETS = ["RxProofs.C15"]
DRIVER = "drv_timed"
DRIVER_ROOT = "Timed"
PROCS = 1  # one case costs ~2 ms: forking a pool is slower than running them in-process
THEOREMS = [
    "C15.delay_shift",
    "C15.delay_shift_completed",
    "C15.delay_error_immediate",
    "C15.delay_invariant",
    "C15.delay_subscription_shift",
    "C15.delay_subscription_relay",
    "C15.dwm_emit_on_first_signal",
    "C15.dwm_each_element_once",
    "C15.dwm_completes_when_drained",
    "C15.dwm_run_eq_spec",
    "C15.dwm_spec_exactly_once",
    "C15.timestamp_is_clock",
    "C15.time_interval_diffs",
]
RULE = ("25% of the timestamp / time_interval / delay (and part of the delay_subscription) cases give the operator the scheduler of the timeline explicitly and subscribe with a DIFFERENT scheduler (never started, or ImmediateScheduler): the operator-level one must win; 40% of the delay_with_mapper cases with a subscription delay pass it as a bare abc.ObservableBase implementation; 30% of the cases are RUN in fractional seconds (1/10 or 1/100 s per unit, float clock or datetime clock, float or timedelta durations, optionally a wall-clock sized epoch) while generated, modelled and judged in exact integer units, so gaps exactly equal to a due time stay exact; 25% of the cases subscribe the SAME observable instance a second time (overlapping or later; absolute due times too) and compare with a fresh "
        "single subscription; delay observables of delay_with_mapper include ones that signal inside subscribe (BehaviorSubject, finished Subject, "
        "empty() on ImmediateScheduler); delay_subscription also subscribed without a scheduler argument; timelines of 0..7 elements + terminal (completed/error/none; 12% non-conforming or with pre-subscription messages): bursts at one instant, "
        "gaps of exactly d-1/d/d+1, an error while elements are pending / at the instant an element is due, delays 0, relative and absolute (datetime); "
        "hot and cold sources; TestScheduler and (one third) HistoricalScheduler; non-trivial = output differs from the source as seen")
ASSUMPTIONS = ["virtual time in integer ticks (seconds on the datetime clock); the operator's timers are armed inside on_next, so a source message wins "
               "a tie against them (inlined (due, seq) rule of VirtualTimeScheduler)",
               "absolute due times are not before the subscription time; all generated times + delays < 1000 (disposal)"]

OPS = ["timestamp", "time_interval", "delay", "delay_subscription", "delay_with_mapper"]


def cases(rng, tier):
    n = fw.tier_scale(tier, 500, 5000)
    for op in OPS:
        for _ in range(n):
            src = rng.choice(["hot", "hot", "cold"])
            c = {"op": op, "src": src, "sub": SUB, "sched": rng.choice(["test", "test", "hist"])}
            d = 5
            marks = []
            if op == "delay":
                if rng.random() < 0.75:
                    d = rng.choice([0, 0, 1, 5, 5, 20])
                    c.update({"abs": False, "at": d})
                else:
                    at = rng.choice([SUB, SUB + 5, SUB + 30])
                    d = at - SUB
                    c.update({"abs": True, "at": at})
            elif op == "delay_subscription":
                if rng.random() < 0.7:
                    c.update({"abs": False, "at": rng.choice([0, 1, 5, 30])})
                    marks = [SUB + c["at"]]
                else:
                    c.update({"abs": True, "at": rng.choice([150, SUB, SUB + 5, SUB + 30])})
                    marks = [c["at"]]
            elif op == "delay_with_mapper":
                c["sched"] = "test"
                d = rng.choice([1, 5, 20])
                c["inners"] = T.gen_inners(rng, d)
                c["raise_at"] = rng.choice([None, None, None, None, 0, 1, 2])
                r = rng.random()
                if r < 0.5:
                    c["subdelay"] = None
                else:
                    c["subdelay"] = rng.choice([[[5, ["N", 0]]], [[5, ["C"]]], [[0, ["N", 0]], [3, ["N", 1]], [4, ["C"]]], [[30, ["N", 0]]],
                                                [[5, ["E", "subErr"]]], []])
                    if c["subdelay"] and c["subdelay"][0][1][0] != "E":
                        marks = [SUB + c["subdelay"][0][0]]
            msgs = T.gen_msgs(rng, d, marks)
            if op != "delay_with_mapper":
                t2 = T.gen_sub2(rng, msgs)
                if t2 is not None:
                    c["sub2"] = t2          # the same observable instance subscribed again (state must be per subscription)
                    if op == "delay" and c["abs"]:
                        c["at"] = t2 + rng.choice([0, 5, 30])      # absolute due time not before either subscription
            if op == "delay_subscription" and c["sched"] == "test" and "sub2" not in c and rng.random() < 0.25:
                c["inline"] = True          # subscribed without a scheduler argument: the mapper's empty() completes inline
            c["msgs"] = T.to_cold(msgs) if src == "cold" else msgs
            T.gen_tz(rng, c)                   # absolute due times written in a non-UTC zone (same instant)
            if op in ("timestamp", "time_interval", "delay"):
                T.gen_opsched(rng, c)          # operator-level scheduler (of the timeline) + a different subscribe-level scheduler
            if op == "delay_subscription" and c.get("inline") and rng.random() < 0.5:
                c["opsched"] = True            # ... here: ImmediateScheduler at subscribe level (the empty() delays complete inline)
            if op == "delay_with_mapper" and c["subdelay"] is not None and rng.random() < 0.4:
                c["bare"] = True               # the subscription delay as a bare abc.ObservableBase implementation
            T.gen_scale(rng, c, wall_ok=c["sched"] == "hist")          # fractional seconds / timedelta durations / wall-clock epoch
            yield c


def model_request(case):
    return case


# ------------------------------------------------------------------------------------------- real code
def build(case, rc, sched, xs, hist):
    """`case` = the case in exact units, `rc` = the same as it is run (seconds; identical unless "scale" is set)"""
    from reactivex import operators as ops

    op = case["op"]

    def when():
        if case["abs"]:
            return T.in_tz(case, T.abs_dt(case, case["at"]) if hist else T.utc(rc["at"]))
        return T.real_dur(case, case["at"], hist)

    if op == "timestamp":
        return xs.pipe(ops.timestamp(**T.sk(case, sched)), ops.map(lambda ts: (ts.value, T.unit_of_dt(case, ts.timestamp))))
    if op == "time_interval":
        return xs.pipe(ops.time_interval(**T.sk(case, sched)), ops.map(lambda ti: (ti.value, T.unit_of_span(case, ti.interval))))
    if op == "delay":
        return xs.pipe(ops.delay(when(), **T.sk(case, sched)))
    if op == "delay_subscription":
        if case.get("inline"):
            return xs.pipe(ops.delay_subscription(when(), scheduler=sched))
        return xs.pipe(ops.delay_subscription(when()))
    if op == "delay_with_mapper":
        import reactivex

        mapper = T.make_mapper(sched, rc)
        if case["subdelay"] is None:
            return xs.pipe(ops.delay_with_mapper(mapper))
        sd = T.maybe_bare(case, sched.create_cold_observable(T.recorded(rc["subdelay"])) if case["subdelay"] else reactivex.never())
        return xs.pipe(ops.delay_with_mapper(sd, mapper))
    raise ValueError(op)


def impl(case):
    if case["sched"] == "hist":
        return T.run_hist(case, lambda s, xs: build(case, case, s, xs, True))
    rc = T.realize(case)
    return T.run_test(rc, lambda s, xs: build(case, rc, s, xs, False), no_sched=bool(case.get("inline")) and not case.get("opsched"))


def canon_impl(case, io):
    return T.out_of(io)


def canon_model(case, resp):
    return T.model_out(case, resp)


# ------------------------------------------------------------------------------------------- oracle (property text)
def sub_time(case, sub):
    return max(case["at"], sub) if case["abs"] else sub + case["at"]


def oracle(case, io):
    if "raised" in io:
        return f"operator raised {io['raised']}"
    if T.leak_oracle(case, io):
        return T.leak_oracle(case, io)
    v = oracle_one(case, io["out"], [s[0:1] for s in io["subs"]], SUB)
    if v is None and "out2" in io:
        v = oracle_one(case, io["out2"], [s[1:2] for s in io["subs"]], case["sub2"])
        if v is not None:
            v = f"second subscription at {case['sub2']}: " + v
        else:
            v = T.second_sub_oracle(case, io)
    return v


def oracle_one(case, out, subs, sub):
    """the property text for ONE subscription made at `sub`"""
    op = case["op"]
    src = T.seen(case, sub=sub)
    if op == "timestamp":
        exp = [[t, ["N", {"t": [n[1], t]}] if n[0] == "N" else n] for t, n in src]      # the clock reading at delivery
        return None if fw.key(exp) == fw.key(out) else f"timestamp: expected {exp} got {out}"
    if op == "time_interval":
        exp, last = [], sub
        for t, n in src:
            exp.append([t, ["N", {"t": [n[1], t - last]}] if n[0] == "N" else n])        # since previous element / subscription
            if n[0] == "N":
                last = t
        return None if fw.key(exp) == fw.key(out) else f"time_interval: expected {exp} got {out}"
    if op == "delay":
        d = case["at"] - sub if case["abs"] else case["at"]
        exp = []
        for t, n in src:
            if n[0] == "E":
                exp = [m for m in exp if m[0] < t] + [[t, n]]     # immediately; what was not delivered yet is dropped
            else:
                exp.append([t + d, n])                              # exactly d later, in order
        return None if fw.key(exp) == fw.key(out) else f"delay({d}): expected {exp} got {out}"
    if op == "delay_subscription":
        s = sub_time(case, sub)
        sb = subs[0]
        if not sb or sb[0][0] != s:
            return f"delay_subscription: source subscribed at {sb}, expected at {s}"
        full = T.seen(case, sub=s)
        alt = full
        if full and full[-1][1][0] == "E" and not case.get("inline"):   # elements at the very instant of the error may go with it
            alt = [m for m in full[:-1] if m[0] < full[-1][0]] + [full[-1]]
        if fw.key(out) not in (fw.key(full), fw.key(alt)):
            return f"delay_subscription: expected {full} (subscribed at {s}) got {out}"
        return None
    if op == "delay_with_mapper":
        exp = expected_dwm(case)
        return None if fw.key(exp) == fw.key(out) else f"delay_with_mapper: expected {exp} got {out}"
    raise ValueError(op)


def expected_dwm(case):
    """each element is delivered when its delay observable first emits or completes (at once if it does so inside subscribe);
    completion after the source completed and the last waiting element was delivered; errors (source, mapper, delay observable,
    subscription delay) at once"""
    start = SUB
    if case["subdelay"] is not None:
        sd = T.conform(case["subdelay"])
        if not sd:
            return []
        if sd[0][1][0] == "E":
            return [[SUB + sd[0][0], sd[0][1]]]
        start = SUB + sd[0][0]
    src = T.seen(case, sub=start)
    ev = T.merged_events([T.src_stream(src, case["inners"])] + T.elem_streams(src, case["inners"]))
    out, waiting, k, at_end = [], {}, 0, False
    for t, e in ev:
        if e[0] == "src":
            n = e[1]
            if n[0] == "N":
                if case.get("raise_at") == k:
                    return out + [[t, ["E", "mapErr"]]]
                waiting[k] = n
                k += 1
            elif n[0] == "E":
                return out + [[t, n]]
            else:
                at_end = True
        elif e[1] in waiting:
            if e[2][0] == "E":
                return out + [[t, e[2]]]
            out.append([t, waiting.pop(e[1])])           # first signal: delivered, no longer waiting
        else:
            continue
        if at_end and not waiting:
            return out + [[t, ["C"]]]
    return out


def nontrivial(case, io):
    return "out" in io and fw.key(io["out"]) != fw.key(T.seen(case))


def bucket(case, io):
    yield from T.shape(case, io)
    yield f"{case['op']}:sched={case['sched']}"
    yield f"{case['op']}:tz={case.get('tz')}"
    yield f"{case['op']}:opsched={bool(case.get('opsched'))}:bare={bool(case.get('bare'))}"
    yield f"{case['op']}:scale={case.get('scale', 1)}:td={bool(case.get('td'))}:wall={bool(case.get('wall'))}"
    yield f"{case['op']}:second-subscription={'sub2' in case}"
    if case["op"] == "delay_with_mapper":
        yield f"dwm:schedulerless-timer={any(isinstance(x, dict) and 'timer' in x for x in case['inners'])}"
        yield f"dwm:inline-delay={any(T.is_inline(x) for x in case['inners'])}:raise_at={case['raise_at']}"
    if case.get("inline"):
        yield "delay_subscription:inline-empty"
    if case["op"] == "delay":
        s = T.seen(case)
        d = case["at"] - SUB if case["abs"] else case["at"]
        yield f"delay:abs={case['abs']}:d={d}"
        if s and s[-1][1][0] == "E":
            te = s[-1][0]
            yield f"delay:error:pending={any(t + d >= te for t, n in s[:-1])}:due-at-error={any(t + d == te for t, n in s[:-1])}"
        yield f"delay:burst={len({t for t, n in s}) < len(s)}"


def shrink(case):
    yield from T.shrink_msgs(case)
    if "sub2" in case and not (case["op"] == "delay" and case.get("abs")):
        c = dict(case)
        del c["sub2"]
        yield c
    if case["sched"] == "hist":
        c = dict(case)
        c["sched"] = "test"
        yield c


LEVEL_TEXT = ('Lean theorems, for every timeline with non-decreasing times (bursts included), every delay and element type: the model of observable_delay_timespan (materialize+timestamp queue, active/running/exception flags, recursive scheduled action, (due,seq) tie rule inlined) delivers elements and completion exactly d later in order and an error at once dropping what is pending (delay_shift, full strength, no gap hypothesis); delay_subscription relays the source as seen from sub+d; delay_with_mapper (trace machine over all event interleavings) delivers an element at the first signal of its delay observable, once, and completes when drained; timestamp/time_interval carry the clock / the differences. Tied to the code by differential runs on TestScheduler and HistoricalScheduler (hot and cold sources, relative/absolute/zero delays) and by oracles written from the property text.')
LEVEL_NOTE = ("delay_subscription: the model (and the code) drops elements that arrive at the very instant of a source error (their empty() delay is still queued); the oracle accepts both readings because the property only fixes the subscription time. delay_with_mapper: run = history rule (dwm_run_eq_spec) for every event trace; the construction of the global event order from timelines (stable merge by time) is driver glue validated only by the correspondence. Absolute due times before the subscription time and float timespans are not modelled. Trusted: correspondence harness, generators, the inlined scheduler rule (hot/cold sources are scheduled before the operator's timers).")

"""C40 — resources and finally-actions are released exactly once (DESIGN.md §5 C40).

using / finally_action / do_finally / do_action / do / do_after_next / do_on_subscribe / do_on_dispose /
do_on_terminate / do_after_terminate, run on a TestScheduler over hot, cold and synchronously emitting
sources, disposed at arbitrary virtual times, with exceptions injected at every callback position.
The full timed effect log of the real code is compared with the Lean model `WinFin.run`.
"""
import fw
from fw import InjectedError, enc, err_name

LEAN_TARGETS = ["RxProofs.C40", "RxProofs.Lemmas.C02WinFin"]
DRIVER = "drv_win"
DRIVER_ROOT = "Win"

OPERS = ["using", "finally_action", "do_finally", "do_action", "do", "do_after_next", "do_on_subscribe",
         "do_on_dispose", "do_on_terminate", "do_after_terminate"]
VALS = [None, 0, 1, False, "", "a", (), 2, 3]


# ------------------------------------------------------------------------------------------------
# the static same-instant rule (DESIGN.md §4): the TestScheduler runs items in (due, enqueue-seq)
# order.  Hot messages are enqueued when the hot observable is created (first), then the
# subscribe / dispose actions in the order given, then whatever is enqueued at subscription time
# (cold messages, `throw` on the TestScheduler).
def merged_trace(case):
    """-> list of [t, ev] after the subscribe action; ev = notif | ["D"].  Pure function of the case."""
    ts = case["t_sub"]
    items = []  # (t, seq, ev)
    seq = 0
    if case["src"] == "hot":
        for t, n in case["msgs"]:
            items.append((t, seq, n)); seq += 1
    sub_key = (ts, seq); seq += 1
    for t in case["disposes"]:
        items.append((t, seq, ["D"])); seq += 1
    if case["oper"] == "using" and (case["res"] == "raise" or case["obsf"] == "raise"):
        if case["pass_sched"]:                      # throw(...) scheduled on the TestScheduler at subscribe time
            items.append((ts, seq, ["E", "resf" if case["res"] == "raise" else "obsf"])); seq += 1
    elif case["src"] == "cold" and case.get("sync_exn") is None:
        for t, n in case["msgs"]:                   # relative times, scheduled at subscription
            items.append((ts + t, seq, n)); seq += 1
    items = [it for it in items if (it[0], it[1]) > sub_key]
    items.sort(key=lambda it: (it[0], it[1]))
    return [[t, ev] for t, _, ev in items]


# ------------------------------------------------------------------------------------------------ real code
def run_real(case):
    import reactivex
    from reactivex import Observable, operators as ops
    from reactivex.operators import _do
    from reactivex.testing import ReactiveTest, TestScheduler

    sched = TestScheduler()
    log = []

    def emit(eff):
        log.append([int(sched.clock), eff])

    def mk(msgs):
        rec = []
        for t, n in msgs:
            if n[0] == "N":
                rec.append(ReactiveTest.on_next(t, fw.dec(n[1])))
            elif n[0] == "C":
                rec.append(ReactiveTest.on_completed(t))
            else:
                rec.append(ReactiveTest.on_error(t, InjectedError(n[1])))
        return rec

    base = sched.create_hot_observable(*mk(case["msgs"])) if case["src"] == "hot" else sched.create_cold_observable(*mk(case["msgs"]))

    class SrcSub:
        def __init__(self, inner):
            self.inner = inner

        def dispose(self):
            emit(["srcD"])
            self.inner.dispose()
            if case.get("srcd_raises"):      # fault: the inner source's clean-up raises
                raise InjectedError("srcd")

    def src_body(observer, scheduler=None):
        # a source that may emit inside subscribe (sync_prop false: adversarial emitter that goes on after an
        # exception came back from the observer), may then raise, else hands over to the hot/cold timeline
        for n in case["sync"]:
            try:
                if n[0] == "N":
                    observer.on_next(fw.dec(n[1]))
                elif n[0] == "C":
                    observer.on_completed()
                else:
                    observer.on_error(InjectedError(n[1]))
            except InjectedError as e:
                if case.get("sync_prop"):
                    raise                   # an ordinary body: the observer's exception ends it
                emit(["esc", e.name])
        if case.get("sync_exn") is not None:
            raise InjectedError(case["sync_exn"])
        return SrcSub(base._subscribe_core(observer, scheduler))

    source = Observable(src_body)

    acts = [0]
    act_raises = set(case["act_raises"])

    def act(name, *arg):
        k = acts[0]
        acts[0] += 1
        r = k in act_raises
        emit(["act", name] + [a for a in arg] + [r])
        if r:
            raise InjectedError(f"act{k}")

    oper = case["oper"]
    if oper == "using":
        from reactivex.disposable import CompositeDisposable, Disposable

        class Res:
            def dispose(self):
                emit(["resD"])

        class ResLen0(Res):                  # a real resource that is falsy: `if resource is not None`
            def __len__(self):
                return 0

        class ResBoolFalse(Res):
            def __bool__(self):
                return False

        class ResComposite(CompositeDisposable):   # empty (falsy) when the factory returns, filled by the observable factory
            def dispose(self):
                emit(["resD"])
                super().dispose()

        kinds = {"obj": Res, "len0": ResLen0, "boolfalse": ResBoolFalse, "composite": ResComposite}

        def resf():
            if case["res"] == "raise":
                emit(["act", "resf", True])
                raise InjectedError("resf")
            emit(["act", "resf", False])
            return kinds[case.get("res_kind", "obj")]() if case["res"] == "some" else None

        def obsf(r):
            if isinstance(r, CompositeDisposable):
                r.add(Disposable())
            if case["obsf"] == "raise":
                emit(["act", "obsf", True])
                raise InjectedError("obsf")
            emit(["act", "obsf", False])
            return source

        o = reactivex.using(resf, obsf)
    elif oper == "finally_action":
        o = source.pipe(ops.finally_action(lambda: act("finally")))
    elif oper == "do_finally":
        o = source.pipe(_do.do_finally(lambda: act("finally")))
    elif oper in ("do_action", "do"):
        has = case["has"]
        f_n = (lambda x: act("next", enc(x)))
        f_e = (lambda e: act("error", err_name(e)))
        f_c = (lambda: act("completed"))
        if oper == "do":
            class Obs:
                on_next = staticmethod(f_n); on_error = staticmethod(f_e); on_completed = staticmethod(f_c)
            o = source.pipe(ops.do(Obs()))
        else:
            o = source.pipe(ops.do_action(f_n if has[0] else None, f_e if has[1] else None, f_c if has[2] else None))
    elif oper == "do_after_next":
        o = _do.do_after_next(source, lambda x: act("after_next", enc(x)))
    elif oper == "do_on_subscribe":
        o = _do.do_on_subscribe(source, lambda: act("subscribe"))
    elif oper == "do_on_dispose":
        o = _do.do_on_dispose(source, lambda: act("dispose"))
    elif oper == "do_on_terminate":
        o = _do.do_on_terminate(source, lambda: act("terminate"))
    elif oper == "do_after_terminate":
        o = _do.do_after_terminate(source, lambda: act("after_terminate"))
    elif oper == "id":
        o = source
    else:
        raise ValueError(oper)

    cbs = [0]
    sub_raises = set(case["sub_raises"])

    def cb(item):
        k = cbs[0]
        cbs[0] += 1
        r = k in sub_raises
        emit(item + [r])
        if r:
            raise InjectedError(f"cb{k}")

    sub = [None]

    def do_subscribe(s, st):
        try:
            sub[0] = o.subscribe(lambda v: cb(["N", enc(v)]), lambda e: cb(["E", err_name(e)]), lambda: cb(["C"]),
                                 scheduler=(sched if case["pass_sched"] else None))
        except InjectedError as e:
            emit(["esc", e.name])

    def do_dispose(s, st):
        if sub[0] is None:
            return
        try:
            sub[0].dispose()
        except InjectedError as e:
            emit(["esc", e.name])

    sched.schedule_absolute(case["t_sub"], do_subscribe)
    for t in case["disposes"]:
        sched.schedule_absolute(t, do_dispose)
    for _ in range(200):
        try:
            sched.start()
            break
        except InjectedError as e:      # an exception that escaped to the emitter (hot/cold message action)
            emit(["esc", e.name])
            sched.stop()
    return {"log": log, "subscribed": sub[0] is not None}


# ------------------------------------------------------------------------------------------------ generator
def gen_notif(rng, p_term=0.3):
    r = rng.random()
    if r < 1 - p_term:
        return ["N", enc(rng.choice(VALS))]
    if r < 1 - p_term / 2:
        return ["C"]
    return ["E", f"s{rng.randrange(3)}"]


def gen_case(rng, oper=None):
    oper = oper or rng.choice(OPERS)
    src = rng.choice(["hot", "cold"])
    ts = rng.choice([200, 200, 200, 150, 310])
    nonconf = rng.random() < 0.25
    msgs = []
    t = ts + rng.choice([-20, -10, 0, 0, 10, 10]) if src == "hot" else rng.choice([0, 0, 10, 10, 20])
    for _ in range(rng.choice([0, 1, 2, 2, 3, 4, 5])):
        n = gen_notif(rng)
        msgs.append([t, n])
        if n[0] != "N" and not nonconf:
            break
        t += rng.choice([0, 10, 10, 10, 20])
    sync, sync_exn = [], None
    if rng.random() < 0.35:
        for _ in range(rng.choice([0, 1, 1, 2, 3])):
            n = gen_notif(rng, 0.4)
            sync.append(n)
            if n[0] != "N" and rng.random() < 0.7:
                break
        if rng.random() < 0.4:
            sync_exn = f"x{rng.randrange(2)}"
    times = sorted({m[0] + (0 if src == "hot" else ts) for m in msgs} | {ts, ts + 5, ts - 10, ts + 200})
    disposes = []
    r = rng.random()
    if r < 0.55:
        disposes = [rng.choice(times)]
        if rng.random() < 0.3:
            disposes.append(rng.choice([disposes[0], rng.choice(times)]))
        disposes.sort()

    def idxs(p):
        if rng.random() < p:
            return sorted({rng.randrange(0, 4) for _ in range(rng.choice([1, 1, 2]))})
        return []

    case = {"op": "fin_run", "oper": oper, "src": src, "t_sub": ts, "msgs": msgs, "sync": sync, "sync_exn": sync_exn,
            "sync_prop": bool(sync) and rng.random() < 0.4,
            "disposes": disposes, "sub_raises": idxs(0.25), "act_raises": idxs(0.3), "pass_sched": rng.random() < 0.5,
            "res": "some", "obsf": "ok", "has": [True, True, True]}
    if oper == "using":
        case["res"] = rng.choice(["some"] * 7 + ["none", "none", "raise"])
        case["obsf"] = rng.choice(["ok"] * 4 + ["raise"])
        case["act_raises"] = []
        case["res_kind"] = rng.choice(["obj", "obj", "len0", "boolfalse", "composite"])
    elif rng.random() < (0.3 if oper in ("finally_action", "do_finally", "do_on_dispose") else 0.1):
        case["srcd_raises"] = True          # fault position: dispose() of the inner source's subscription raises
    if oper == "do_action":
        case["has"] = [rng.random() < 0.7 for _ in range(3)]
    return case


def gen_double_fault(rng):
    """Two exception positions at once: the inner source terminates (mostly with on_error) AND the operator callback
    that handles exactly that notification raises.  The callback's invocation index is computed from the timeline."""
    oper = rng.choice(["do_action", "do_action", "do", "do_on_terminate", "do_after_terminate", "do_finally", "finally_action",
                       "do_after_next", "do_on_dispose"])
    case = gen_case(rng, oper)
    case["sub_raises"] = [] if rng.random() < 0.8 else case["sub_raises"]
    case["srcd_raises"] = False
    nn = rng.choice([0, 0, 1, 2])
    term = ["E", f"s{rng.randrange(3)}"] if rng.random() < 0.8 else ["C"]
    notifs = [["N", enc(rng.choice(VALS))] for _ in range(nn)] + [term]
    case["sync"], case["sync_exn"], case["sync_prop"] = [], None, False
    if rng.random() < 0.2:          # the whole timeline inside subscribe
        case["sync"], case["msgs"] = notifs, []
    else:
        t0 = case["t_sub"] + 10 if case["src"] == "hot" else 10
        case["msgs"] = [[t0 + 10 * i, n] for i, n in enumerate(notifs)]
    case["disposes"] = [] if rng.random() < 0.7 else [case["t_sub"] + 400]
    has = case["has"] = [True, True, True] if oper != "do_action" else [rng.random() < 0.6, True, True]
    if oper in ("do_action", "do"):
        k = nn if has[0] else 0     # on_next callbacks ran nn times before the terminal callback
    elif oper == "do_after_next":
        k = max(nn - 1, 0)          # the last after_next call
    else:
        k = 0                       # the terminal / finally / dispose hook is the operator's only callback
    case["act_raises"] = [k]
    return case


def cases(rng, tier):
    n = fw.tier_scale(tier, 12000, 120000)
    for i in range(n):
        yield gen_double_fault(rng) if i % 8 == 7 else gen_case(rng)


def using_fails(case):
    return case["oper"] == "using" and (case["res"] == "raise" or case["obsf"] == "raise")


def model_request(case):
    sync, sync_exn, prop = case["sync"], case.get("sync_exn"), bool(case.get("sync_prop"))
    if using_fails(case):     # the source that is subscribed is reactivex.throw(exception)
        name = "resf" if case["res"] == "raise" else "obsf"
        sync, sync_exn, prop = ([] if case["pass_sched"] else [["E", name]]), None, True
    req = {"op": "fin_run", "oper": case["oper"], "sub_raises": case["sub_raises"], "act_raises": case["act_raises"],
           "has": case["has"], "res": case["res"], "obsf": case["obsf"], "t_sub": case["t_sub"], "sync": sync,
           "sync_prop": prop, "trace": merged_trace(case), "srcd_raises": bool(case.get("srcd_raises")),
           "res_kind": case.get("res_kind", "obj")}
    if sync_exn is not None:
        req["sync_exn"] = sync_exn
    return req


def canon_model(case, out):
    if isinstance(out, dict) and "log" in out and using_fails(case):
        # throw's subscription is a scheduler item, not one of the logged source subscriptions
        out = dict(out, log=[e for e in out["log"] if e[1] != ["srcD"]])
    return out


DO_FAMILY = ("do_action", "do", "do_after_next", "do_on_subscribe", "do_on_dispose", "do_on_terminate", "do_after_terminate",
             "do_finally", "finally_action")


def impl(case):
    if case.get("op") == "multi":
        return _multi(case)
    out = run_real(case)
    if case["oper"] in DO_FAMILY:
        # reference run for the transparency oracle: the same source, subscriber and timeline without the operator
        out["ref"] = run_real(dict(case, oper="id", act_raises=[]))["log"]
    return out


def canon_impl(case, out):
    return {"log": out["log"], "subscribed": out["subscribed"]}


# ------------------------------------------------------------------------------------------------ oracle
# Written from the property text over the recorded effect log of the REAL code; does not use the Lean model.
def _delivered(log):
    return [[t, e] for t, e in log if e[0] in ("N", "E", "C")]


def _acts(log, name):
    return [[t, e] for t, e in log if e[0] == "act" and e[1] == name]


def oracle(case, out):
    if case.get("op") == "multi":
        return _multi_oracle(case, out)
    log = out["log"]
    oper = case["oper"]
    deliv = _delivered(log)
    term_idx = [i for i, (t, e) in enumerate(log) if e[0] in ("E", "C")]
    if len(term_idx) > 1 or (term_idx and any(e[0] in ("N", "E", "C") for _, e in log[term_idx[0] + 1:])):
        return f"ill-formed delivery {deliv}"
    disposes = [t for t, ev in merged_trace(case) if ev == ["D"]] if out["subscribed"] else []
    # first moment at which the subscription is over: terminal delivered or handle disposed
    ends = ([log[term_idx[0]][0]] if term_idx else []) + disposes[:1]
    over = bool(ends)
    t_over = min(ends) if ends else None
    act_raised = any(e[0] == "act" and e[-1] is True and e[1] not in ("resf", "obsf") for _, e in log)

    # -- which exception arrives downstream (property: "... without changing the sequence unless a callback raises"):
    # error identities are distinct per position — source "s*"/"x*", k-th operator-callback invocation "act<k>",
    # k-th subscriber callback "cb<k>", factories "resf"/"obsf", inner dispose "srcd".  When an operator callback
    # raises, whatever is delivered to the subscriber afterwards is exactly one on_error carrying THAT callback's
    # exception (or nothing, if the subscriber was already stopped/disposed) — never the source's own error as though
    # the callback had succeeded, never further elements.
    k = 0
    for i, (t, e) in enumerate(log):
        if e[0] != "act":
            continue
        ident = e[1] if e[1] in ("resf", "obsf") else f"act{k}"
        if e[1] not in ("resf", "obsf"):
            k += 1
        if e[-1] is True:
            later = [x[1] for x in log[i + 1:] if x[1][0] in ("N", "E", "C")]
            if later and not (len(later) == 1 and later[0][0] == "E" and later[0][1] == ident):
                return f"callback {e[1]} raised {ident} at {t} but downstream then received {later}"

    if oper == "using":
        n = sum(1 for _, e in log if e == ["resD"])
        if n > 1:
            return f"resource disposed {n} times"
        # `if resource is not None`: a resource that is falsy (len 0 / bool False / empty composite) is still a resource
        if case["res"] != "some":
            return "resource disposed although none was created" if n else None
        if not out["subscribed"]:
            return None        # subscribe itself raised: outside the property (hypothesis of using_resource_once)
        if over and n != 1:
            return f"subscription over at {t_over} but resource disposed {n} times"
        if not over and n != 0:
            return "resource disposed although the subscription is neither terminated nor disposed"
        if n:
            i = next(i for i, (_, e) in enumerate(log) if e == ["resD"])
            if log[i][0] != t_over:
                return f"resource disposed at {log[i][0]}, subscription was over at {t_over}"
            if term_idx and term_idx[0] > i and log[term_idx[0]][0] == log[i][0] and not disposes[:1] == [t_over]:
                return "resource disposed before the terminal callback"
        return None

    if oper in ("finally_action", "do_finally", "do_on_dispose"):
        name = "dispose" if oper == "do_on_dispose" else "finally"
        a = _acts(log, name)
        if len(a) > 1:
            return f"{name} action invoked {len(a)} times"
        # exactly once iff terminated or disposed: for finally_action / do_finally also when the action itself raises
        if not act_raised or oper != "do_on_dispose":
            if out["subscribed"] or oper == "finally_action":
                if over and len(a) != 1:
                    return f"subscription over at {t_over} but {name} action ran {len(a)} times"
                if not over and a:
                    return f"{name} action ran although the subscription is neither terminated nor disposed"
            if a:
                i = log.index(a[0])
                if any(e[0] in ("N", "E", "C") for _, e in log[i + 1:]):
                    return f"{name} action ran before a downstream callback"
                if over and a[0][0] != t_over and out["subscribed"]:
                    return f"{name} action ran at {a[0][0]}, subscription was over at {t_over}"

    # (the do_* statements are claimed for well-behaved inner subscriptions: with the `srcd_raises` fault the
    #  exception of the inner dispose() legitimately cuts do_after_* short; the fault is in scope for the
    #  exactly-once statements above)
    if oper in DO_FAMILY and not act_raised and not case.get("srcd_raises") and not (oper == "do_after_next" and case["sub_raises"]):
        # transparency: the subscriber sees exactly what it sees without the operator (values, times, raising)
        ref = out["ref"]
        if _delivered(ref) != deliv:
            return f"not transparent: with operator {deliv}, without {_delivered(ref)}"
        if [x for x in ref if x[1][0] == "esc"] != [x for x in log if x[1][0] == "esc"]:
            return "exceptions reaching the emitter differ from the run without the operator"
        # every callback sees every corresponding notification once, in order
        if oper in ("do_action", "do"):
            has = [True, True, True] if oper == "do" else case["has"]
            exp = []
            for t, e in deliv:
                k = {"N": 0, "E": 1, "C": 2}[e[0]]
                if has[k]:
                    exp.append([t, ["act", ["next", "error", "completed"][k]] + e[1:-1] + [False]])
                exp.append([t, e])
            got = [x for x in log if x[1][0] in ("N", "E", "C", "act")]
            if got != exp:
                return f"do_action callbacks/deliveries {got} expected {exp}"
        if oper == "do_after_next":
            exp = []
            for t, e in deliv:
                exp.append([t, e])
                if e[0] == "N":
                    exp.append([t, ["act", "after_next", e[1], False]])
            got = [x for x in log if x[1][0] in ("N", "E", "C", "act")]
            if got != exp:
                return f"do_after_next callbacks/deliveries {got} expected {exp}"
        if oper in ("do_on_terminate", "do_after_terminate"):
            name = {"do_on_terminate": "terminate", "do_after_terminate": "after_terminate"}[oper]
            exp = []
            for t, e in deliv:
                if e[0] != "N" and oper == "do_on_terminate":
                    exp.append([t, ["act", name, False]])
                exp.append([t, e])
                if e[0] != "N" and oper == "do_after_terminate" and e[-1] is False:
                    exp.append([t, ["act", name, False]])
            got = [x for x in log if x[1][0] in ("N", "E", "C", "act")]
            if got != exp:
                return f"{oper} callbacks/deliveries {got} expected {exp}"
        if oper == "do_on_subscribe":
            a = _acts(log, "subscribe")
            if len(a) != 1 or log[0] != a[0]:
                return f"on_subscribe action ran {len(a)} times / not first"
    return None


# ------------------------------------------------------------------------------------------------ extra
def _multi(case):
    """Oracle-only: several subscriptions to ONE using / do_finally / finally_action observable over a cold source;
    'per subscription': every subscription gets its own resource / its own action run, each exactly once."""
    import reactivex
    from reactivex import operators as ops
    from reactivex.operators import _do
    from reactivex.testing import ReactiveTest, TestScheduler

    sched = TestScheduler()
    rec = []
    for t, n in case["msgs"]:
        rec.append(ReactiveTest.on_next(t, n[1]) if n[0] == "N" else ReactiveTest.on_completed(t) if n[0] == "C"
                   else ReactiveTest.on_error(t, InjectedError(n[1])))
    cold = sched.create_cold_observable(*rec)
    created, disposed, finals = [], [], []
    current = [None]

    class Res:
        def __init__(self, i):
            self.i = i

        def dispose(self):
            disposed.append(self.i)

    def resf():
        created.append(current[0])
        return Res(current[0])

    if case["oper"] == "using":
        o = reactivex.using(resf, lambda r: cold)
    elif case["oper"] == "do_finally":
        o = cold.pipe(_do.do_finally(lambda: finals.append(int(sched.clock))))
    else:
        o = cold.pipe(ops.finally_action(lambda: finals.append(int(sched.clock))))
    ends = {}
    subs = {}

    def mk_sub(i):
        def act(s, st):
            current[0] = i
            subs[i] = o.subscribe(lambda v: None, lambda e: ends.setdefault(i, int(sched.clock)), lambda: ends.setdefault(i, int(sched.clock)), scheduler=sched)
        return act

    def mk_disp(i):
        def act(s, st):
            if i in subs:
                ends.setdefault(i, int(sched.clock))
                subs[i].dispose()
        return act

    for i, (ts, td) in enumerate(case["subs"]):
        sched.schedule_absolute(ts, mk_sub(i))
        if td is not None:
            sched.schedule_absolute(td, mk_disp(i))
    sched.start()
    return {"created": created, "disposed": disposed, "finals": sorted(finals), "ends": sorted(ends.values()), "n_over": len(ends)}


def _multi_oracle(case, out):
    if case["oper"] == "using":
        if sorted(out["disposed"]) != sorted(set(out["disposed"])):
            return f"a resource was disposed twice: {out['disposed']}"
        if len(out["disposed"]) != out["n_over"]:
            return f"{out['n_over']} subscriptions over but {len(out['disposed'])} resources disposed"
        if len(out["created"]) != len(case["subs"]):
            return "not one resource per subscription"
    elif out["finals"] != out["ends"]:
        return f"action runs at {out['finals']} but subscriptions ended at {out['ends']}"
    return None


def extra(rng, tier):
    failures = []
    n = fw.tier_scale(tier, 300, 3000)
    for _ in range(n):
        msgs, t = [], 0
        for _ in range(rng.randrange(0, 4)):
            t += rng.choice([5, 10, 20])
            msgs.append([t, ["N", rng.randrange(3)]])
        if rng.random() < 0.7:
            msgs.append([t + rng.choice([0, 10]), rng.choice([["C"], ["E", "s0"]])])
        subs = []
        for _ in range(rng.randrange(1, 4)):
            ts = rng.choice([200, 205, 210, 230])
            subs.append([ts, rng.choice([None, ts, ts + 10, ts + 20, ts + 100])])
        case = {"op": "multi", "oper": rng.choice(["using", "do_finally", "finally_action"]), "msgs": msgs, "subs": subs}
        why = _multi_oracle(case, _multi(case))
        if why:
            failures.append(fw.Failure("oracle", case, why))
    return {"failures": failures, "coverage": {"multi_subscription_cases": n}}


def classify(case, why):
    return None


def _term_kind(case, out):
    if not out["subscribed"]:
        return "subscribe-raised"
    for t, e in out["log"]:
        if e[0] in ("E", "C"):
            return ("sync-" if t == case["t_sub"] and (case["sync"] or case.get("sync_exn")) else "") + ("error" if e[0] == "E" else "completed")
    return "no-terminal"


def _dispose_pos(case, out):
    ds = [t for t, ev in merged_trace(case) if ev == ["D"]]
    if not ds:
        return "no-dispose"
    tt = [t for t, e in out["log"] if e[0] in ("E", "C")]
    src_terms = [t for t, ev in merged_trace(case) if ev[0] in ("E", "C")]
    pos = "twice-" if len(ds) > 1 else ""
    t = ds[0]
    if t == case["t_sub"]:
        return pos + "at-subscribe"
    if src_terms and t == src_terms[0]:
        return pos + "same-instant-as-terminal"
    if any(t == m[0] for m in merged_trace(case) if m[1][0] == "N"):
        return pos + "same-instant-as-element"
    if tt and t > tt[0]:
        return pos + "after-terminal"
    return pos + "before-terminal"


def bucket(case, out):
    yield f"{case['oper']}|{_term_kind(case, out)}|{_dispose_pos(case, out)}"
    yield "src:" + case["src"] + ("+sync" if case["sync"] or case.get("sync_exn") else "")
    if case["act_raises"] and any(e[0] == "act" and e[-1] is True for _, e in out["log"]):
        yield "callback-raised:" + case["oper"]
    if any(e[0] in ("N", "E", "C") and e[-1] is True for _, e in out["log"]):
        yield "subscriber-raised"
    if using_fails(case):
        yield "using-factory-failed:" + ("resf" if case["res"] == "raise" else "obsf") + ("/test-scheduler" if case["pass_sched"] else "/immediate")


def nontrivial(case, out):
    log = out["log"]
    kinds = {e[0] for _, e in log}
    return bool(kinds & {"E", "C", "resD", "srcD", "esc"}) or any(e[0] == "act" and e[1] not in ("resf", "obsf") for _, e in log)


def shrink(case):
    if case.get("op") == "multi":
        for fld in ("msgs", "subs"):
            for i in range(len(case[fld])):
                c = dict(case); c[fld] = case[fld][:i] + case[fld][i + 1:]; yield c
        return
    for fld in ("msgs", "sync", "disposes", "sub_raises", "act_raises"):
        for i in range(len(case[fld])):
            c = dict(case); c[fld] = case[fld][:i] + case[fld][i + 1:]; yield c
    if case.get("sync_exn") is not None:
        c = dict(case); c["sync_exn"] = None; yield c
    if case.get("sync_prop"):
        c = dict(case); c["sync_prop"] = False; yield c
    if case["src"] == "cold":
        c = dict(case); c["src"] = "hot"; c["msgs"] = [[t + case["t_sub"], n] for t, n in case["msgs"]]; yield c


THEOREMS = [
    "C40.using_resource_at_most_once",
    "C40.using_resource_once",
    "C40.using_released_on_source_terminal",
    "C40.using_released_at_first_trigger",
    "C40.using_leaks_when_subscribe_raises",
    "C40.finally_action_exactly_once_after",
    "C40.do_finally_exactly_once_after",
    "C40.do_finally_at_most_once",
    "C40.finally_exactly_once_after",
    "C40.do_finally_twice_when_action_raises",
    "C40.do_finally_lost_when_subscribe_raises",
    "C40.do_transparent_unless_raise",
    "C40.do_callbacks_once_in_order",
    "C40.do_on_dispose_exactly_once",
    # release of the source subscription (support for C02/C03; RxProofs/Lemmas/C02WinFin.lean)
    "WinFin.source_disposed_at_most_once",
    "WinFin.terminal_releases_all_partial",
    "WinFin.dispose_releases_all",
    "WinFin.using_releases_all",
    "WinFin.finally_action_releases_all",
    "WinFin.dispose_leaks_source_when_hook_raises",
    "C40.do_action_raise_becomes_error",
]
RULE = ("one subscription of using / finally_action / do_finally / do_action(any subset of callbacks) / do(observer) / do_after_next / "
        "do_on_subscribe / do_on_dispose / do_on_terminate / do_after_terminate over a hot or cold TestScheduler source wrapped in a "
        "logging source that may also emit inside subscribe (adversarial or ordinary emitter) and then raise; 0-5 timed messages "
        "(25% non-conforming: events after a terminal), 0-2 dispose() calls at element/terminal/subscribe instants, before "
        "subscription and far later (also twice at one instant); subscriber callbacks and operator callbacks raising at random "
        "invocation indices; using: resource factory returns a resource (truthy object / __len__()==0 / __bool__()==False / empty "
        "CompositeDisposable filled by the observable factory) / None / raises, observable factory raises (throw on the "
        "ImmediateScheduler or on the TestScheduler). The full timed effect log (deliveries with raised flag, every operator "
        "callback with argument, resource.dispose, source-subscription dispose, exceptions escaping to emitter/caller) of the real "
        "code is compared with the Lean model; every exception position has its own identity (source s*/x*, k-th operator callback "
        "act<k>, k-th subscriber callback cb<k>, factories, inner dispose) and the oracle checks which one arrives downstream; one case "
        "in eight is a targeted double fault (the source terminates, mostly with on_error, and the callback handling exactly that "
        "notification raises); fault position 'dispose() of the inner source's subscription raises' on 30% of the "
        "finally_action/do_finally/do_on_dispose cases and 10% of the other do_* cases; the model is fed the statically merged same-instant event order; non-trivial = a terminal was "
        "delivered, something was disposed, an exception escaped or an operator callback ran")
ASSUMPTIONS = [
    "single-threaded / virtual-time execution; one subscription per case (state is per subscription in all three files)",
    "resource.dispose() does not raise; the inner subscription's dispose() does not raise for using / do_* (hypothesis c.srcDisposeRaises = false "
    "of their theorems; generated as a fault for finally_action — proved — and for do_finally / do_on_dispose / do_* — correspondence + "
    "exactly-once oracle only)",
    "same-instant order on the TestScheduler is (due time, enqueue order): hot messages, then subscribe/dispose actions in scheduling order, "
    "then items enqueued at subscription time (cold messages, throw)",
    "exactly-once for using / do_finally / do_on_dispose is claimed when subscribe() itself did not raise (witness theorems "
    "C40.using_leaks_when_subscribe_raises, C40.do_finally_lost_when_subscribe_raises show the hypothesis is needed; same behaviour "
    "reproduced on the real code by corpus cases); do_on_dispose additionally when its action does not raise",
    "model and theorems describe do_finally AFTER fixes/C40_do_finally_flag_before_action.patch (flag set before the action); on a tree "
    "without it the check reports VIOLATION with the double-invocation input (witness C40.do_finally_twice_when_action_raises, AsIs handler)",
]
LEVEL_TEXT = ("Lean theorems over an executable model of using_/finally_action_/do_finally/do_action_ and the do_* variants including the "
              "plumbing (two AutoDetachObservers with their SingleAssignmentDisposables, Disposable idempotence, CompositeDisposable order, "
              "Observable.subscribe's fail path, throw): for every history (any emissions inside subscribe, body raising, any list of later "
              "source notifications, dispose anywhere and repeatedly) and any raising pattern of the subscriber's callbacks: the resource is "
              "disposed at most once, exactly once iff a terminal was delivered or dispose was called (at the first such event) and never "
              "without a resource; finally_action runs its action exactly once under the same condition (even if it raises) and after every "
              "downstream callback; do_finally (with the fix: flag set before the action) likewise, also when its action raises; every do_* operator whose callbacks do not raise is "
              "transparent (simulation against the operator-free pipeline: same deliveries, same source disposal, same escaping exceptions) "
              "and its callbacks see every corresponding notification exactly once, in order, adjacent to the delivery (cbShape); "
              "do_on_dispose's action runs exactly once under the same condition as do_finally. "
              "Proved by invariants/simulation, no bound. The model is tied to the code by differential comparison of full timed effect logs.")
LEVEL_NOTE = ("Hypothesis that cannot be dropped (decided witnesses, reproduced on the real code): using/do_finally lose the resource/action when "
              "source.subscribe() itself raises (source terminates inside subscribe and then raises, or the subscriber's on_error raises on a "
              "failure inside subscribe). Defect repaired by fixes/C40_do_finally_flag_before_action.patch: the pinned do_finally set was_invoked "
              "after the call, so a raising finally action was invoked a second time (decided witness on the AsIs handler). "
              "do_after_next is transparent only if the subscriber's on_next does not raise (its try covers observer.on_next). "
              "finally_action's theorem covers the fault 'the inner subscription's dispose() raises'; the do_finally / do_on_dispose / using / "
              "do_* theorems assume it away (the fault is generated and compared against the model for them, and the exactly-once oracle "
              "applies to do_finally/do_on_dispose, whose hook runs before the inner dispose). Not proved in Lean: the link between the operator-free reference pipeline (do_action() without callbacks, two AutoDetachObservers) and "
              "C01's single-observer model. Trusted: harness, merged same-instant order rule.")

"""C11 — merging keeps each inner order and completes when all complete (merge, merge_all, flat_map(+indexed), concat_map, rx.merge)."""
import copy

import fw
from props import comb_common as cc

LEAN_TARGETS = ["RxProofs.C11"]
DRIVER = "drv_comb"
DRIVER_ROOT = "Comb"
PROCS = 1  # a case takes ~1 ms: forking a pool costs more than it saves, and one process lets impl / model_request share the run
THEOREMS = [
    "C11.merge_per_inner_order",
    "C11.merge_per_inner_order_maxc",
    "C11.merge_per_inner_order_tagged",
    "C11.merge_exact_multiset",
    "C11.merge_completes_iff",
    "C11.merge_completes_iff_maxc",
    "C11.merge_completes_maxc_state",
    "C11.merge_first_error",
    "C11.merge_maxc_bound",
    "C11.merge_queue_fifo",
    "C11.concat_map_ordered",
    "C11.concat_map_blocks",
]
RULE = ("outer timeline (cold or hot, completing / erroring / never completing) of 0..4 inner sources (cold, hot, 'rude' hot, or "
        "notifying synchronously inside subscribe, or rx.timer-based inners WITHOUT their own scheduler, which run on the scheduler handed "
        "down by subscribe - also when started from the queue; empty, erroring, never-completing), times on a 5-tick grid so that simultaneous "
        "notifications are frequent; operators merge_all, merge(max_concurrent=1..4), flat_map / flat_map_indexed / concat_map with a "
        "mapper that may raise, rx.merge; optional dispose; the recorded global event list is replayed through the Lean machine and "
        "outputs (timed) and subscribe/unsubscribe effects are compared per event in same-instant order (for inners that notify inside "
        "subscribe the position of their own unsubscribe is compared by time only); non-trivial = at least one inner was subscribed")
ASSUMPTIONS = ["single-threaded / virtual-time execution: one run is one list of tagged events (C43 covers real threads)",
               "each element of the outer sequence is a distinct inner observable, the outer sequence does not notify inside subscribe"]
TRUSTED_EXTRA = ["the logging cold/hot/sync sources of harness/props/comb_common.py as measuring instruments"]
LEVEL_TEXT = ("Lean theorems (arbitrary event lists = all interleavings, no bounds) on the trace machines of merge_all and merge(max_concurrent): output = the delivered inner "
"elements in arrival order, each emitted in the step (= virtual instant) that delivers it (per-inner order, exact multiset); completion iff the outer completed and no arrived "
"inner is left uncompleted (merge_all; one direction for max_concurrent); the first delivered error is the last output; at most max_concurrent live inners in every reachable "
"state; inners start in arrival order (subscribed ++ queue = arrivals); with max_concurrent=1 the only live inner is the most recently subscribed. Tied to /repo by replaying "
"recorded event lists of generated real runs (outer/inner cold, hot, rude, synchronous sources; raising mappers; dispose) and comparing outputs and effects in order, plus a "
"property-text oracle.")
LEVEL_NOTE = ("Model = RxModel/Comb.lean + RxModel/CombHO.lean (merge_all_: group composite with the len(group)==1 test as `group`; merge_(max_concurrent): "
"active_count, queue, is_stopped). flat_map/flat_map_indexed/concat_map/rx.merge are these machines behind map / from_iterable (the mapper's result is the "
"outer element; a raising mapper is an outer error). Full: merge_per_inner_order (+_maxc, +_tagged), merge_exact_multiset, merge_first_error, merge_maxc_bound, "
"merge_queue_fifo, merge_completes_iff (merge_all: iff, as a fold over the delivered notifications), merge_completes_iff_maxc (merge(max_concurrent >= 1)/concat_map: "
"full iff as a counting rule over the delivered notifications - outer completed and #delivered inner completions = #arrivals; no no-duplicate hypothesis needed; "
"merge_completes_maxc_state is its state-level reading), concat_map_ordered (the only live inner is the most recently subscribed one) and concat_map_blocks (the explicit "
"block decomposition of the output). Nothing is partial. Inners that notify inside subscribe are compared on outputs and effect order except the position of their own "
"unsubscribe (time only). Re-entrant outer emissions (consumer feedback while an inner is inside subscribe) ARE replayed through the machines. Oracle-only: second-subscriber "
"cases (incl. rx.merge). Outers that emit and complete synchronously inside subscribe are generated for every operator (every unsubscribe of such a case is compared by "
"(source, time) only; runs in which the outer goes on delivering after the result ended are oracle-only: a source inside its own subscribe cannot be stopped, the flat "
"machine closes it at the terminal). The same observable object delivered / listed twice (rx.merge(xs, ys, xs)) gets one trace id per subscription; rx.merge must merge every "
"listed source. A few cases per run use max_concurrent 257..300 with more overlapping inners than that. An exception escaping into the scheduler is recorded as an output "
"('X'), never a harness error. flat_map / flat_map_indexed mappers also return plain ITERABLES (list, tuple, a generator failing part-way, an iterator logging its pulls): the "
"`from_` call inside _flatmap.py is tapped so that the resulting inner is a logged source; oracle: exactly the elements up to the failure, then its error, and no pull before the "
"inner is subscribed. "
"Threads are C43.")

OPS = ["merge_all", "merge", "merge", "flat_map", "flat_map_indexed", "concat_map", "rx_merge", "merge"]


def large_limit_case(rng):
    """max_concurrent above CPython's small-int cache (257..300) with limit+k overlapping single-element inners"""
    limit = rng.randint(257, 300)
    m = limit + rng.randint(1, 5)
    outer = {"mode": "cold", "msgs": [[rng.choice([0, 0, 5]), "N", i] for i in range(1, m + 1)] + [[10, "C"]]}
    outer["msgs"].sort(key=lambda x: x[0])
    inners = {str(i): {"mode": "cold", "msgs": [[50, "N", fw.enc((i, 0, 1))], [50 + 5 * rng.randint(0, 2), "C"]]} for i in range(1, m + 1)}
    return {"op": "merge", "maxc": limit, "outer": outer, "inners": inners, "dispose": None}


def cases(rng, tier):
    n = fw.tier_scale(tier, 4000, 60000)
    for _ in range(fw.tier_scale(tier, 3, 12)):
        yield large_limit_case(rng)
    for i in range(n):
        op = OPS[i % len(OPS)]
        if rng.random() < 0.1:
            # re-entrant outer emission: a synchronously emitting inner makes the consumer push the NEXT inner into the (hot) outer
            # while the first one is still inside its subscribe call (the operator's bookkeeping must already count it)
            c = cc.gen_feedback_case(rng, op if op != "rx_merge" else "merge")
            if c["op"] == "merge":
                c["maxc"] = rng.choice([1, 1, 1, 2])
            yield c
            continue
        # inners that take their scheduler from the subscription (rx.timer without a scheduler) - also as QUEUED inners
        c = cc.gen_ho_case(rng, op, p_timer=0.3, p_same=0.5 if op == "rx_merge" else 0.2)
        if op == "merge":
            c["maxc"] = rng.choice([1, 1, 2, 2, 3, 4])
        if op in ("flat_map", "flat_map_indexed") and rng.random() < 0.4:
            # mappers returning plain ITERABLES (list, tuple, a generator failing part-way, an iterator logging its pulls)
            for k_ in list(c["inners"]):
                if "same_as" not in c["inners"][k_] and not any(s2.get("same_as") == int(k_) for s2 in c["inners"].values()) and rng.random() < 0.6:
                    nv = rng.randint(0, 3)
                    kind_ = rng.choice(["list", "tuple", "gen", "gen", "iter", "iter"])
                    c["inners"][k_] = {"mode": "iter", "kind": kind_, "vals": [fw.enc((int(k_), j_, rng.choice(cc.FALSY))) for j_ in range(nv)],
                                       "fail_after": (rng.randint(0, nv) if kind_ in ("gen", "iter") and rng.random() < 0.6 else None)}
        if op == "rx_merge":
            c["outer"]["msgs"] = [m for m in c["outer"]["msgs"] if m[1] == "N"]
            c["outer"]["mode"] = "cold"
        # oracle-only: a second subscriber on the same observable instance must see what a fresh instance gives it
        if rng.random() < (0.2 if op in ("merge", "concat_map", "rx_merge") else 0.05):
            c["second"] = cc.gen_second(rng)
            c["dispose"] = None
        yield c


def impl(case):
    if "second" in case:
        r = cc.run_second_subscriber(lambda: cc.ho_world_and_build(case)[:2], case["second"])
        return {"second": r, "log": [], "split": cc.split_log([]), "idx": []}
    log, idx_seen = cc.run_ho(case)
    return {"split": cc.split_log(log, cc.sync_ids_of(case)), "log": log, "idx": idx_seen}


def model_request(case):
    if "second" in case:
        return None
    log, _ = cc.run_ho(case)
    if cc.outer_delivers_after_end(case, log):
        return None
    sp = cc.split_log(log, cc.sync_ids_of(case))
    r = cc.ho_model_op(case)
    r["events"] = [e for _, e in sp["events"]]
    return r


def canon_impl(case, out):
    return cc.canon_real(out["split"])


def canon_model(case, resp):
    log, _ = cc.run_ho(case)
    sp = cc.split_log(log, cc.sync_ids_of(case))
    return cc.canon_model_resp(sp["events"], resp, cc.sync_ids_of(case))


def maxc_of(case):
    if case["op"] == "merge":
        return case["maxc"]
    if case["op"] == "concat_map":
        return 1
    return None


def oracle(case, out):
    if "second" in out:
        return cc.second_failure(case, out["second"], "not exactly the elements of the inners IT received")
    log = out["log"]
    got = cc.outputs(out["split"])
    if not cc.grammar_ok(got):
        return f"output is not next* terminal?: {got}"
    acc = cc.accepted(log)
    # nothing counts after the result ended (a synchronous outer that cannot be stopped inside its own subscribe may go on delivering)
    end_pos = next((p_ for p_, e_ in enumerate(log) if e_[0] == "dispose" or (e_[0] == "out" and e_[1][0] != "N")), len(log))
    acc = [a_ for a_ in acc if a_[0] < end_pos]
    outs = cc.out_entries(log)
    maxc = maxc_of(case)
    # (1) exactly the accepted inner elements, each inner's in order, each at the time (and inside the handler) of its arrival
    inner_ids = sorted({s for (_, s, _, _) in acc if s != 0} | {cc.sid_of_value(n[1]) for (_, n, _) in outs if n[0] == "N"})
    for k in inner_ids:
        grp = cc.same_group(case, k)       # subscriptions of one and the same observable object deliver the same values
        want = [[t, nt[1]] for (_, s, nt, t) in acc if s in grp and nt[0] == "N"]
        have = [[t, nt[1]] for (_, nt, t) in outs if nt[0] == "N" and cc.sid_of_value(nt[1]) in grp]
        if want != have:
            return f"inner {k}: delivered {want} but output has {have}"
    # every output element directly follows the notification that carries it
    for (p, nt, t) in outs:
        if nt[0] == "N" and not (log[p - 1][0] == "ev" and log[p - 1][2] == nt):
            return f"output {nt} at {t} is not emitted in the handler of its arrival"
    # (2) first error terminates, at its time
    errs = [(p, nt, t) for (p, s, nt, t) in acc if nt[0] == "E"]
    term = [(p, nt, t) for (p, nt, t) in outs if nt[0] != "N"]
    if errs:
        p, nt, t = errs[0]
        if not term or term[0][1] != nt or term[0][2] != t:
            return f"first error {nt}@{t} is not the output terminal: {term}"
    elif term and term[0][1][0] == "E":
        return f"output error {term[0]} without any source error"
    # (3) completion iff outer and all arrived inners completed
    arrived = [nt[1] for (_, s, nt, _) in acc if s == 0 and nt[0] == "N"]
    disposed_at = next((p for p, e in enumerate(log) if e[0] == "dispose"), None)
    state_done = set()
    want_c = None
    for (p, s, nt, t) in acc:
        if nt[0] == "E":
            break
        if nt[0] == "C":
            state_done.add(s)
        arr_sofar = [a[2][1] for a in acc if a[0] <= p and a[1] == 0 and a[2][0] == "N"]
        if 0 in state_done and all(i in state_done for i in arr_sofar):
            want_c = (p, t)
            break
    got_c = [(p, t) for (p, nt, t) in outs if nt[0] == "C"]
    if got_c:
        if want_c is None or got_c[0][1] != want_c[1] or got_c[0][0] < want_c[0]:
            return f"completed at {got_c[0]} but outer+all inners completed at {want_c}"
    elif want_c is not None and (disposed_at is None or disposed_at > want_c[0]):
        return f"outer and every inner completed at {want_c} but the output did not complete: {got}"
    # (4) subscriptions: only arrived inners, in arrival order (FIFO), at most maxc active at any time
    subs = [e[1] for e in log[:end_pos] if e[0] == "sub" and e[1] != 0]
    if subs != arrived[: len(subs)]:
        return f"inners subscribed in order {subs}, arrived in order {arrived}"
    if case["op"] == "rx_merge":
        listed = [m_[2] for m_ in case["outer"]["msgs"] if m_[1] == "N"]
        if arrived != listed[: len(arrived)] or (len(arrived) < len(listed) and not term and not disposed_at):
            return f"rx.merge was given the sources {listed} (an observable listed twice counts twice) but merged {arrived}"
    if maxc is None and not disposed_at and not term and len(subs) != len(arrived):
        return f"not every arrived inner was subscribed: {subs} of {arrived}"
    active = set()
    for e in log[:end_pos]:
        if e[0] == "sub" and e[1] != 0:
            active.add(e[1])
            if maxc is not None and len(active) > maxc:
                return f"{len(active)} inner subscriptions active with max_concurrent={maxc}: {sorted(active)}"
        elif e[0] == "unsub" or (e[0] == "ev" and e[2][0] != "N"):
            active.discard(e[1])
    # (5) with max_concurrent a free slot is filled at once: an arrived inner waits only while maxc others are active
    # (6) concat_map: ordered concatenation
    if maxc == 1 and not any("same_as" in s_ for s_ in case["inners"].values()):
        seq = [cc.sid_of_value(nt[1]) for (_, nt, _) in outs if nt[0] == "N"]
        rank = {k: i for i, k in enumerate(arrived)}
        rs = [rank.get(k, -1) for k in seq]
        if rs != sorted(rs) or -1 in rs:
            return f"max_concurrent=1 output is not the concatenation in arrival order: {seq} (arrival {arrived})"
    # (7) inners that run on the subscription's scheduler deliver at their virtual times, queued or not
    v = cc.timer_delivery_failure(case["inners"].values(), log)
    if v:
        return v
    v = cc.iter_delivery_failure(case["inners"], log)
    if v:
        return v
    if case["op"] == "flat_map_indexed" and out["idx"] != list(range(len(out["idx"]))):
        return f"flat_map_indexed passed indices {out['idx']}"
    return None


def nontrivial(case, out):
    if "second" in out:
        return len(out["second"]["fresh"]) > 0
    return any(e[0] == "sub" and e[1] != 0 for e in out["log"])


def bucket(case, out):
    if "second" in out:
        yield "second_subscriber"
        return
    sp = out["split"]
    got = cc.outputs(sp)
    yield f"op={case['op']}" + (f"-{case['maxc']}" if "maxc" in case else "")
    yield f"inners={len(case['inners'])}"
    yield "end=" + (got[-1][1][0] if got and got[-1][1][0] != "N" else "open")
    ts = [t for t, _ in sp["events"]]
    yield "simultaneous=" + str(len(ts) != len(set(ts)))
    yield "dispose=" + str(case.get("dispose") is not None)
    yield "mapper_raises=" + str("raise_on" in case)
    yield "callable_form=" + case.get("callable_form", "def")
    if case.get("feedback"):
        yield "feedback_reentrant_outer_emission"
    if case.get("outer", {}).get("mode") == "sync":
        yield "sync_outer" + ("_oracle_only" if cc.outer_delivers_after_end(case, out["log"]) else "")
    if any("same_as" in s_ for s_ in case["inners"].values()):
        yield "same_inner_object_twice"
    if case.get("maxc", 0) > 256:
        yield "max_concurrent>256"
    for s in case["inners"].values():
        yield "inner=" + s["mode"] + ("-rude" if s.get("rude") else "")
    if maxc_of(case) is not None:
        arrived = [e[2][1] for e in out["log"] if e[0] == "ev" and e[1] == 0 and e[2][0] == "N"]
        yield "queued=" + str(len(arrived) > maxc_of(case))
        subs_t = {e[1]: e[2] for e in out["log"] if e[0] == "sub"}
        arr_t = {e[2][1]: e[3] for e in out["log"] if e[0] == "ev" and e[1] == 0 and e[2][0] == "N"}
        if any(case["inners"].get(str(k), {}).get("mode") == "timer" and k in subs_t and subs_t[k] > arr_t[k] for k in arrived):
            yield "queued_timer_inner_started_later"


def shrink(case):
    yield from cc.shrink_ho(case)

"""C07 — slicing an observable behaves like slicing a list (DESIGN.md §5 C07).

* generated cases: hot timelines (completed / failed / open / non-conforming) through `ops.slice(a, b, c)`,
  `source[a:b:c]` and `source[i]`, timed output compared with the Lean pipeline of C05 handler models;
* `extra`: the EXHAUSTIVE table len 0..7 × start,stop ∈ {None, −9..9} × step ∈ {None, 1..8} on `ops.slice`,
  `source[a:b:c]` and `source[i]` (i ∈ −9..9): real code vs Python's own list slicing (oracle), real code vs the
  Lean stage pipeline (correspondence), and Lean `pySlice` vs Python's list slicing (so that the theorem's
  right-hand side is itself tied to Python).
"""
import fw
from fw import enc, dec, err_name

from props import C05

LEAN_TARGETS = ["RxProofs.C07"]
DRIVER = "drv_ops"
DRIVER_ROOT = "Ops"
THEOREMS = [
    "C07.slice_eq_pyslice", "C07.pyslice_eq_index_form", "C07.pipe_eq_eval", "C07.slice_ops_eq", "C07.slice_negative_step",
    "C07.slice_error_passthrough", "C07.getitem_int_nonneg", "C07.getitem_minus_one",
    "C07.slice_asis_stages", "C07.slice_neg_start_counter", "C07.slice_neg_start_counter2",
]
RULE = ("generated: hot timelines of 0..12 elements (completed/error/open/non-conforming) through ops.slice / source[a:b:c] / source[i] "
        "with start, stop in {None, -(len+2)..len+2}, step in {None, 1..4, -1}; timed output vs the Lean pipeline. Exhaustive: len 0..7, "
        "start/stop in {None,-9..9}, step in {None,1..8} for ops.slice and source[a:b:c], i in -9..9 for source[i]. "
        "Non-trivial = the slice is a proper, non-empty part of the input or involves a negative bound or a step > 1.")
ASSUMPTIONS = [
    "single-threaded / virtual-time execution",
    "len(list(source)) <= sys.maxsize (hypothesis hlen of the theorems; stop=None is take(sys.maxsize) in the code)",
    "source[i] is checked as the documented desugaring slice(i, i+1, 1): source[-1] is list[-1:0] = empty (noted, not claimed wrong)",
    "slice_ is modelled WITH the proposed fix fixes/C07_slice_negative_start.patch (scan-tagged take_last for start<0<stop); "
    "the pinned behaviour is `pipeline false` with decide'd counter-examples",
]
VALS = [0, 1, 2, 3, None, "", False, (), 7]


# ----------------------------------------------------------------------------------------- generated, timed
def cases(rng, tier):
    for _ in range(fw.tier_scale(tier, 1200, 20000)):
        alphabet = [enc(v) for v in rng.sample(VALS, rng.choice([2, 3, 4]))]
        inp = C05.gen_timeline(rng, lambda: rng.choice(alphabet))
        n = sum(1 for t, x in inp if x[0] == "N")
        bound = lambda: rng.choice([None, None] + list(range(-(n + 2), n + 3)))  # noqa
        form = rng.choice(["ops", "ops", "getitem", "getitem", "index"])
        case = {"op": "c05", "name": "slice", "form": form, "mode": "sub" if rng.random() < 0.75 else "raw", "tsub": C05.TSUB, "input": inp}
        if form == "index":
            i = rng.randrange(-(n + 2), n + 3)
            case.update(start=i, stop=i + 1, step=1, index=i)
        else:
            case.update(start=bound(), stop=bound(), step=rng.choice([None, None, 1, 1, 2, 2, 3, 4, -1]))
        if case["start"] in (None, 0) and case["stop"] is None and case["step"] in (None, 1):
            case["mode"] = "sub"  # empty pipeline: pipe() returns the source itself, there is no operator to observe raw
        elif rng.random() < 0.3:
            case["mode"] = "feedback"  # re-entrant Subject source: the consumer pushes the next element from inside on_next (oracle only)
        yield case


def make_sliced(case):
    def make(xs):
        from reactivex import operators as ops

        if case["form"] == "ops":
            return xs.pipe(ops.slice(case["start"], case["stop"], case["step"]))
        if case["form"] == "getitem":
            return xs[slice(case["start"], case["stop"], case["step"])]
        return xs[case["index"]]
    return make


def impl(case):
    if case["op"] == "slice_exh":
        return exh_impl(case)
    if case.get("mode") == "feedback":
        return C05.run_feedback(case, make_sliced(case))
    return C05.run_real(case, make_sliced(case))


def n_stages(case):
    """how many operators `_slice.py` chains for this slice (mirrors its sign tests)"""
    start = 0 if case["start"] is None else case["start"]
    stop = case["stop"]
    _stop = (1 << 63) - 1 if stop is None else stop
    step = 1 if case["step"] is None else case["step"]
    if start < 0 < _stop and stop is not None:
        n = 4
    else:
        n = (1 if _stop >= 0 else 0) + (1 if start != 0 else 0)
    return n + (1 if _stop < 0 else 0) + (1 if step > 1 else 0)


def model_request(case):
    if case["op"] == "slice_exh":
        return None
    if case.get("mode") == "feedback" and ((case["step"] is not None and case["step"] < 0) or n_stages(case) != 1):
        return None  # re-entrant runs are modelled for single-operator slices only (RxModel/OpsFb.lean); longer pipelines: oracle only
    return {k: v for k, v in case.items() if k not in ("form", "index")}


def py_slice(xs, case):
    return xs[slice(case["start"], case["stop"], case["step"])]


def oracle(case, out):
    if case["op"] == "slice_exh":
        return exh_oracle(case, out)
    step = case["step"]
    if step is not None and step < 0:
        return None if out == {"ctor": "TypeError"} else f"negative step: expected TypeError, got {out}"
    if "ctor" in out:
        return f"unexpected constructor failure {out}"
    ts, xs, end, tend = C05.conforming(case["input"])
    if "fb" in out:  # re-entrant feedback run: untimed output
        timed = [[0, n] for n in out["fb"]]
        if out["esc"]:
            return f"exception escaped to the emitter: {out['esc']}"
    else:
        timed = out["out"]
    got = C05.cut(timed)
    if case["mode"] != "raw" and got != timed:
        return f"subscriber saw notifications after a terminal: {timed}"
    vals = [n[1] for t, n in got if n[0] == "N"]
    term = got[-1][1] if got and got[-1][1][0] in ("C", "E") else None
    want = py_slice(xs, case)
    if end == ["C"]:
        if vals != want or term != ["C"]:
            return f"list{xs}[{case['start']}:{case['stop']}:{step}] = {want} then completion; got {vals} then {term}"
        return None
    if end is None:
        if term == ["C"]:
            if vals != want:
                return f"completed early with {vals}, expected {want}"
        elif term is not None:
            return f"terminated with {term} although the source did not"
        return None
    # the source failed: the error passes through unless take(stop) already completed the result
    if term == end:
        nonneg = (case["start"] is None or case["start"] >= 0) and (case["stop"] is None or case["stop"] >= 0)
        if nonneg and vals != want:
            return f"before the error {end}: expected {want}, got {vals}"
        return None
    if term == ["C"]:
        if case["stop"] is None or case["stop"] < 0 or len(xs) < case["stop"]:
            return f"source error {end} was swallowed (completed with {vals})"
        if vals != want:
            return f"completed early with {vals}, expected {want}"
        return None
    return f"source failed with {end} but the result ended with {term}"


def nontrivial(case, out):
    if case["op"] == "slice_exh":
        return True
    ts, xs, end, tend = C05.conforming(case["input"])
    if case["step"] is not None and case["step"] < 0:
        return True
    want = py_slice(xs, case)
    neg = any(isinstance(case[k], int) and case[k] < 0 for k in ("start", "stop"))
    return (0 < len(want) < len(xs)) or neg or (case["step"] or 1) > 1


def bucket(case, out):
    if case["op"] == "slice_exh":
        return
    yield "form:" + case["form"]
    yield "mode:" + case["mode"]
    sg = lambda v: "None" if v is None else ("neg" if v < 0 else ("zero" if v == 0 else "pos"))  # noqa
    yield f"start:{sg(case['start'])},stop:{sg(case['stop'])}"
    yield "step:" + ("None" if case["step"] is None else ("neg" if case["step"] < 0 else ("1" if case["step"] == 1 else ">1")))
    ts, xs, end, tend = C05.conforming(case["input"])
    yield "end:" + (end[0] if end else "open")


def shrink(case):
    if case["op"] == "slice_exh":
        if case["len"] > 0:
            c = dict(case); c["len"] -= 1; yield c
        return
    yield from C05.shrink(case)


# ----------------------------------------------------------------------------------------- exhaustive
def _collect(obs):
    out = []
    obs.subscribe(lambda v: out.append(["N", enc(v)]), lambda e: out.append(["E", err_name(e)]), lambda: out.append(["C"]))
    return out


def _built(make):
    """run one form of the slice; an exception raised while the sliced observable is being BUILT (or subscribed) is the
    observed outcome of the case, not a harness failure"""
    try:
        return _collect(make())
    except Exception as e:
        return [["raised-at-build", err_name(e)]]


def exh_impl(case):
    """real code on `from_iterable(range(len))`: ops.slice, source[a:b:c] (and source[i] for index cases)"""
    import reactivex as rx
    from reactivex import operators as ops

    xs = list(range(case["len"]))
    if "index" in case:
        return {"index": _built(lambda: rx.from_iterable(xs)[case["index"]])}
    a, b, c = case["start"], case["stop"], case["step"]
    return {"ops": _built(lambda: rx.from_iterable(xs).pipe(ops.slice(a, b, c))),
            "getitem": _built(lambda: rx.from_iterable(xs)[a:b:c])}


def exh_oracle(case, out):
    xs = list(range(case["len"]))
    if "index" in case:
        i = case["index"]
        want = [["N", v] for v in xs[i:i + 1]] + [["C"]]  # documented desugaring slice(i, i+1, 1)
        return None if out["index"] == want else f"source[{i}] over range({case['len']}): expected {want}, got {out['index']}"
    want = [["N", v] for v in xs[case["start"]:case["stop"]:case["step"]]] + [["C"]]
    for form in ("ops", "getitem"):
        if out[form] != want:
            return f"{form} range({case['len']})[{case['start']}:{case['stop']}:{case['step']}]: expected {want}, got {out[form]}"
    return None


def exh_cases():
    bounds = [None] + list(range(-9, 10))
    for L in range(0, 8):
        for a in bounds:
            for b in bounds:
                for c in [None] + list(range(1, 9)):
                    yield {"op": "slice_exh", "len": L, "start": a, "stop": b, "step": c}
        for i in range(-9, 10):
            yield {"op": "slice_exh", "len": L, "index": i, "start": i, "stop": i + 1, "step": 1}


def extra(rng, tier):
    items = list(exh_cases())
    outs = fw.pmap("props.C07", "exh_impl", items, chunk=512)
    reqs = [{"op": "slice", "start": c["start"], "stop": c["stop"], "step": c["step"], "xs": list(range(c["len"])), "end": ["C"], "fixed": True}
            for c in items]
    failures, pf = [], []
    try:
        models = fw.run_driver(DRIVER, reqs)
    except Exception as e:  # driver not built / crashed: a broken obligation, reported by the runner
        models = None
        pf.append(f"exhaustive slice table: model driver failed: {e}")
    n_oracle = n_corr = 0
    for i, (c, o) in enumerate(zip(items, outs)):
        if isinstance(o, dict) and "harness_exception" in o:
            raise RuntimeError(o["harness_exception"])
        v = exh_oracle(c, o)
        if v:
            n_oracle += 1
            failures.append(fw.Failure("oracle", c, v))
        if models is not None:
            m = models[i]
            xs = list(range(c["len"]))
            real = o["index"] if "index" in c else o["ops"]
            if "pipe" not in m or m["pipe"] != real or m["eval"] != [n[1] for n in m["pipe"] if n[0] == "N"]:
                n_corr += 1
                failures.append(fw.Failure("correspondence", c, {"impl": real, "model": m}))
            elif m["py"] != xs[c["start"]:c["stop"]:c["step"]] or m["pyidx"] != m["py"]:
                n_corr += 1
                failures.append(fw.Failure("correspondence", c, {"python_slice": xs[c["start"]:c["stop"]:c["step"]], "lean_pySlice": m["py"], "lean_pySliceIdx": m["pyidx"]}))
    cov = {"exhaustive": True, "exhaustive_space": "len 0..7 x start,stop in {None,-9..9} x step in {None,1..8} on ops.slice and source[a:b:c]; "
           "i in -9..9 on source[i]", "exhaustive_cases": len(items), "exhaustive_oracle_failures": n_oracle,
           "exhaustive_correspondence_mismatches": n_corr}
    return {"failures": failures, "coverage": cov, "proof_failures": pf}


LEVEL_TEXT = ("Lean theorems: slice_eq_pyslice — for every list, every start/stop (None, negative, zero, positive) and every step >= 1 the stage list "
              "that _slice.py builds (with the fix), evaluated with the C05 list semantics, equals Python's clamp-and-stride xs[start:stop:step]; "
              "slice_ops_eq — the same for the composed C05 handler models run through the real observer/disposal chain on any raw input ending in "
              "completion; slice_error_passthrough; slice_negative_step (TypeError); getitem_int_nonneg / getitem_minus_one for source[i]. "
              "Tied to /repo by an exhaustive table (28 952 cases: real code vs Python slicing, real code vs model, Lean pySlice vs Python slicing) "
              "and timed differential runs on generated hot timelines; 30% of the generated cases use a re-entrant feedback source (consumer pushes the "
              "next element from inside on_next): list-slice oracle for all, model correspondence (C05's proved re-entrant models) for the "
              "single-operator slices.")
LEVEL_NOTE = ("Full for step >= 1 under len <= sys.maxsize. The model is the FIXED slice_ (fixes/C07_slice_negative_start.patch; the fix tags elements "
              "with scan, modelled by scanSeedOp); the pinned behaviour is `pipeline false` with counter-example theorems slice_neg_start_counter(2) "
              "(range(10)[-2:9] -> [7,8], [-3:5] -> [2,3,4]). pySlice is stated as clamp + segment + stride and proved equal to the index comprehension over range(s, e, step) "
              "(pyslice_eq_index_form); that both agree with CPython's own list slicing is checked exhaustively through the driver, not proved "
              "(CPython is outside the model). source[-1] = list[-1:0] = [] is the documented desugaring (not claimed wrong).")

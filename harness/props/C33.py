"""C33 — cancelling an asyncio-scheduled action is effective from any thread (DESIGN.md §5 C33).

Real AsyncIOScheduler / AsyncIOThreadSafeScheduler on a steppable asyncio loop (controlled clock, asyncio's own
`_run_once` unmodified), the loop thread and a scheduling/disposing thread under the interleaving controller.
Correspondence: the observed event sequence (loop pops/collects/timer registration, user schedule / on-self-loop test /
cancels / marshalled cancel / return, clock reaching the due time) is replayed step for step in the Lean model
`Thr2Aio` of the REPAIRED code.  Oracle (property text): the action starts on the loop thread, not before its due time,
and never after dispose() returned.  extra(): enumeration of all schedules with <=2 (quick) / <=3 (thorough)
preemptions at line granularity inside the two scheduler files and asyncio's _run_once/call_* functions.
"""
from __future__ import annotations

import time

import fw
from sched import thr2_aio as A
from sched import thr2_explore as X

LEAN_TARGETS = ["RxProofs.C33"]
DRIVER = "drv_thr2"
DRIVER_ROOT = "Thr2"
THEOREMS = [
    "C33.runs_on_loop_not_early",
    "C33.disposed_then_never_starts_on_loop",
    "C33.disposed_then_never_starts_foreign",
    "C33.disposed_then_never_starts_not_running",
    "C33.start_after_return_is_late",
    "C33.foreign_direct_cancel_leaks",
    "Thr2Aio.fixed_reach_ok",
]
RULE = ("cases = scheduler flavour (AsyncIOScheduler / thread-safe) x immediate|relative schedule x how it was scheduled (loop "
        "callback / other thread while the loop runs / before the loop started) x who disposes (loop callback / other "
        "thread while the loop runs / thread while the loop is not running: never started, or stopped after running and "
        "restarted after the return) x delay (whole ticks, sub-millisecond fractions, zero/negative through schedule_relative) x gap between "
        "schedule and dispose (before, at, after the due time) x schedule (start thread + <=3 preemptions at generated "
        "yield points); non-trivial = a preemption switched threads, or the dispose happened while the loop had work of "
        "this action pending; distinct by canonical JSON. search (coverage.search_*): exhaustive enumeration of <=2 "
        "(quick) / <=3 (thorough) preemptions over all yield points for every configuration.")
ASSUMPTIONS = [
    "asyncio itself is trusted: FIFO ready queue, timer heap, Handle.cancel flag tested when the handle is popped",
    "'starts' means the loop's read of Handle._cancelled when it pops the interval handle (DESIGN.md §8)",
    "loop-not-running case: the loop is not started before dispose() has returned (the property's proviso)",
    "one scheduled action per model instance. Justification: everything dispose() touches is local to the schedule call "
    "that created it (`handle` is a fresh list / a single Handle captured by that call's closures, `sad` a fresh "
    "SingleAssignmentDisposable, the Future a fresh object per dispose call); the scheduler object holds no mutable state "
    "besides the loop reference; so two scheduled actions share only the loop's ready FIFO / timer heap, whose order among "
    "the handles of ONE action the model keeps (rq) and whose other entries never touch those handles. Several "
    "disposing threads for the same disposable go through CompositeDisposable/Disposable (C25/C26: the dispose action runs once)",
    "AsyncIOScheduler (not thread-safe) is claimed only for dispose on the loop thread or with the loop not running",
]
TRUSTED_EXTRA = ["steppable asyncio loop harness/sched/thr2_aio.py (controlled clock, non-blocking selector, logging ready queue)",
                 "thread-interleaving controller harness/sched/thr2_ctl.py"]
LEVEL_TEXT = ("Lean theorems over a finite atomic-step model of one scheduled action (loop thread, user thread, clock, loop "
              "start): for every schedule of any length the action is started only by the loop thread, never before its due "
              "time, and never after dispose() returned in the three cases of the property (on the loop thread; another "
              "thread while the loop runs with the marshalled, awaited cancel; loop not running). Proved by computing the "
              "reachable set in the kernel (decide), checking closure under all actions and safety of every state, plus an "
              "induction over schedules. A decide'd counter-example shows the pinned tree's direct cancel from a foreign "
              "thread leaks the timer. Tied to the code by step-for-step replay of controlled real runs and an enumerative "
              "<=k-preemption search with the property oracle.")
LEVEL_NOTE = ("Model is of the repaired `_on_self_loop_or_not_running` (fix: C33_foreign_thread_marshal.patch); one action, "
              "one disposing thread. asyncio internals (heap order, selector) are abstracted to ready FIFO + due flag; "
              "schedule_absolute is covered only as schedule_relative (it delegates).")

# (flavour, kind, how scheduled, who disposes).  AsyncIOScheduler is not thread-safe: it is scheduled on the loop
# thread or before the loop starts and disposed on the loop thread or while the loop is not running.
CFGS = ([("plain", k, sm, m) for k in ("soon", "rel") for sm in ("onLoop", "pre") for m in ("onLoop", "notRunning")]
        + [("ts", k, sm, m) for k in ("soon", "rel") for sm in ("onLoop", "foreign", "pre")
           for m in ("onLoop", "foreign", "notRunning")])


def scenario(fl, kind, smode, mode, delay, gap):
    return {"fl": fl, "kind": kind, "smode": smode, "mode": mode, "delay": delay, "gap": gap}


def smode_of(case):
    return case.get("smode") or {"onLoop": "onLoop", "foreign": "foreign", "notRunning": "pre"}[case["mode"]]


def cases(rng, tier):
    n = fw.tier_scale(tier, 400, 4000)
    base = {}
    for _ in range(n):
        fl, kind, smode, mode = rng.choice(CFGS + [c for c in CFGS if c[0] == "ts" and c[1] == "rel" and c[3] != "onLoop"] * 3)
        delay = rng.choice([1, 2, 3, 2, 0.0004, 1.0005, 2.25])  # also delays that are not whole milliseconds
        gap = rng.choice([0, 0, int(delay) - 1, int(delay), int(delay) + 1]) if not (mode == "notRunning" and smode == "pre") else 0
        sc = scenario(fl, kind, smode, mode, delay, max(0, gap))
        if kind == "soon" and rng.random() < 0.5:
            sc["via"], sc["delay0"] = "rel", rng.choice([0.0, -1.0, "td0"])
        if fl == "ts" and "foreign" in (smode, mode) and rng.random() < 0.5:
            sc["registered"] = True
        if kind == "rel" and "via" not in sc and rng.random() < 0.4:
            sc["via"] = "abs"  # schedule_absolute, the due instant optionally written in a non-UTC zone
            if rng.random() < 0.7:
                sc["tz"] = rng.choice([-11, -5, -1, 2, 9])
        if fl == "ts" and smode == "foreign" and mode == "foreign":
            r = rng.random()
            if r < 0.25:
                sc["busy"] = True      # the loop thread is held in a slow callback while the user schedules and disposes
            elif r < 0.5:
                sc["handover"] = True  # the loop was first run (and disposed on) by the thread that now is a foreign thread
        k = fw.key(sc)
        if k not in base:
            base[k] = A.run_case(dict(sc, first=0, pre=[]))["steps"]
        S = max(2, base[k])
        nt = 3 if sc.get("handover") else 2
        npre = rng.choice([0, 1, 2, 2, 3])
        steps = sorted(rng.sample(range(S), min(npre, S)))
        sc["first"] = 0 if sc.get("handover") else rng.randrange(2)
        sc["pre"] = [[s, rng.randrange(nt)] for s in steps]
        yield sc


_CACHE = {}


def _run(case):
    k = fw.key(case)
    if k not in _CACHE:
        if len(_CACHE) > 4000:
            _CACHE.clear()
        r = A.run_case(case)
        if r["outcome"] == "hang":  # a loaded machine can starve a run: confirm before calling it a hang
            r = A.run_case(case, wall=40.0)
        _CACHE[k] = r
    return _CACHE[k]


def impl(case):
    r = _run(case)
    return {"outcome": r["outcome"], "events": r["events"], "starts": r["starts"], "returned": r["returned"],
            "late": r["late"], "preempted": r["preempted"], "excs": r["excs"], "sched_clock": r["sched_clock"],
            "delay": r["delay"], "steps": r["steps"]}


def model_request(case):
    r = _run(case)
    return {"op": "aio_replay", "fl": case["fl"], "kind": case["kind"], "smode": smode_of(case), "mode": case["mode"],
            "test": "fixed",
            "sched": [e[0] for e in r["events"]]}


def canon_impl(case, out):
    if out["outcome"] != "ok":
        return {"outcome": out["outcome"]}
    return {"labels": [e[1] for e in out["events"]], "started": bool(out["starts"]), "returned": out["returned"],
            "late": out["late"]}


def canon_model(case, resp):
    if "error" in resp:
        return resp
    return {"labels": resp["labels"], "started": resp["started"], "returned": resp["returned"], "late": resp["late"]}


def verdict(case, out):
    if out["outcome"] == "hang":
        return ("hang", None)
    if out["outcome"] != "ok":
        return ("bad", f"run ended with {out['outcome']}: dispose() or the loop blocked")
    if out["excs"]:
        return ("bad", f"exception in a thread: {out['excs']}")
    if not out["returned"]:
        return ("bad", "dispose() did not return")
    if len(out["starts"]) > 1:
        return ("bad", f"action started {len(out['starts'])} times")
    for s in out["starts"]:
        if not s.get("on_loop", s["thread"] == 0):
            return ("bad", f"action ran on thread {s['thread']}, not on the thread that runs the loop")
        if s.get("inside_schedule_call"):
            return ("bad", "action ran synchronously inside the schedule call instead of being posted to the loop")
        if case["kind"] == "rel" and s["clock"] < out["sched_clock"] + out["delay"]:
            return ("bad", f"action started at clock {s['clock']} before its due time {out['sched_clock'] + out['delay']}")
        if s["after_return"]:
            return ("bad", f"action started (loop clock {s['clock']}) after dispose() had returned")
    return ("ok", None)


def oracle(case, out):
    v, why = verdict(case, out)
    if v == "hang":
        raise RuntimeError("controller watchdog fired (harness hang)")
    return why


def nontrivial(case, out):
    labels = [e[1] for e in out["events"]]
    loop_before_ret = any(e[0] == 0 for e in out["events"][: labels.index("ret") if "ret" in labels else len(labels)])
    return out["outcome"] == "ok" and (out["preempted"] > 0 or loop_before_ret)


def bucket(case, out):
    yield f"cfg:{case['fl']}/{case['kind']}/{smode_of(case)}->{case['mode']}"
    yield "started" if out["starts"] else "never-started"
    labels = [e[1] for e in out["events"]]
    for l in ("test-direct", "test-marshal", "pop1-skip", "pop2-skip", "collect2"):
        if l in labels:
            yield l
    yield f"preemptions:{len(case.get('pre', []))}"


def shrink(case):
    pre = case.get("pre", [])
    for i in range(len(pre)):
        yield dict(case, pre=pre[:i] + pre[i + 1:])


# ----------------------------------------------------------------------------------------------- search
def _run_search(case):
    r = A.run_case(case)
    return r


def _rerun(case):
    return A.run_case(case, wall=40.0)


def explore_batch(batch):
    return X.explore_batch(batch, _run_search, verdict, 2, _rerun)


def extra(rng, tier):
    t0 = time.time()
    quick = tier != "thorough"
    scs = []
    for fl, kind, smode, mode in CFGS:
        gaps = [0] if (mode == "notRunning" and smode == "pre") else ([0, 1, 3] if kind == "rel" else [0, 1])
        for g in gaps:
            scs.append(scenario(fl, kind, smode, mode, 2, g))
        if kind == "soon":  # already-due relative schedule (delay <= 0)
            scs.append(dict(scenario(fl, kind, smode, mode, 2, 0), via="rel", delay0=rng.choice([0.0, -1.0, "td0"])))
        if kind == "rel":   # a delay that is not a whole number of milliseconds
            scs.append(scenario(fl, kind, smode, mode, rng.choice([0.0004, 1.0005]), 2 if mode != "notRunning" or smode != "pre" else 0))
        if fl == "ts" and kind == "rel" and mode == "foreign":  # the disposing thread has the loop registered as its current loop
            for g in (0, 1):
                scs.append(dict(scenario(fl, kind, smode, mode, 2, g), registered=True))
        if kind == "rel":  # schedule_absolute with the due instant written in non-UTC zones
            scs.append(dict(scenario(fl, kind, smode, mode, 2, 1 if not (mode == "notRunning" and smode == "pre") else 0), via="abs", tz=-5))
            scs.append(dict(scenario(fl, kind, smode, mode, 2, 0), via="abs", tz=9))
        if fl == "ts" and smode == "foreign" and mode == "foreign":
            scs.append(dict(scenario(fl, kind, smode, mode, 2, 0), busy=True))
            for g in (0, 1):
                scs.append(dict(scenario(fl, kind, smode, mode, 2, g), handover=True))
    # the two threads only interact when another thread disposes while the loop runs: deep enumeration there;
    # for dispose-on-loop / loop-not-running the user thread merely posts callbacks (single preemptions suffice)
    foreign = [sc for sc in scs if sc["mode"] == "foreign"]
    others = [sc for sc in scs if sc["mode"] != "foreign"]
    b1, i1 = X.plan(foreign, A.run_case, lambda sc: 2, [["op"]] if quick else ["all", ["op"]], batch_runs=400,
                    firsts=None)
    b2, i2 = X.plan(others, A.run_case, lambda sc: 2, [] if quick else [["op"]], batch_runs=400)
    batches, info = b1 + b2, i1 + i2
    res = fw.pmap("props.C33", "explore_batch", batches, chunk=1)
    failures, runs, hang, nontriv = [], 0, 0, 0
    for r in res:
        if "harness_exception" in r:
            raise RuntimeError("explore_batch crashed: " + r["harness_exception"] + r.get("tb", ""))
        runs += r["runs"]
        hang += r["hang"]
        nontriv += r["nontrivial"]
        for b in r["bad"]:
            failures.append(fw.Failure("oracle", b["case"], b["why"]))
    if hang:
        raise RuntimeError(f"{hang} controller runs hit the wall-clock watchdog twice (harness hang)")
    cov = {"search_schedules": runs, "search_schedules_with_preemption": nontriv, "search_scenarios": len(scs),
           "search_rule": ("dispose from another thread: every start order x every single preemption at every yield point x "
                           + ("a second preemption at every line of the two scheduler files" if quick else
                              "a second at every yield point x a third at every line of the two scheduler files")
                           + "; dispose on the loop / loop not running: every single preemption"
                           + ("" if quick else " x a second at every line of the scheduler files")),
           "search_plan": [{k: v for k, v in i.items()} for i in info][:60], "search_wall_s": round(time.time() - t0, 1)}
    return {"failures": failures, "coverage": cov, "proof_failures": []}

"""C21 — a BehaviorSubject hands its current value to every new subscriber (DESIGN.md §5 C21).

Shares the case format, generator, real-code adapter and property-text oracle with C20 (`props/C20.py`), with
`kind = "behavior"` and an arbitrary initial value (None, 0, False, '' ... included)."""
import fw
from props import C20 as base
from props.C20 import impl, model_request, canon_model, oracle, nontrivial, bucket, shrink, ASSUMPTIONS  # noqa: F401

LEAN_TARGETS = ["RxProofs.C21"]
DRIVER = "drv_subj"
DRIVER_ROOT = "Subj"
THEOREMS = [
    "C21.value_is_current",
    "C21.behavior_current_first",
    "C21.behavior_then_like_subject",
    "C21.behavior_late_terminal_only",
    "C21.behavior_after_dispose",
    "C21.behavior_natural",
    "C21.run_reachable",
]
KIND = "behavior"


def cases(rng, tier):
    for _ in range(fw.tier_scale(tier, 4000, 120000)):
        yield base.gen_case(rng, KIND, tier)


RULE = base.RULE.replace("real Subject", "real BehaviorSubject (initial value drawn from the same domain incl. None/0/False/'')")
LEVEL_TEXT = ("Lean theorems over the C20 machine extended with BehaviorSubject.value (updated in _on_next_core, delivered inside _subscribe_core): in "
              "every reachable configuration `value` is the last accepted on_next value or the initial value; a subscriber arriving while the subject is "
              "live (also from inside a callback, mid-delivery) is first handed exactly that value and is a member from then on; broadcasts behave as in "
              "C20; late subscribers get only the accepted terminal. Unbounded histories and reaction scripts (induction over reachability); polymorphic "
              "in the value type, with an explicit naturality theorem (any renaming of values and of the initial value commutes with whole runs). Tied to the real code by differential execution and an independent property-text oracle.")
LEVEL_NOTE = ('Stated per step (subscription, delivery-loop turn) plus invariants over all reachable configurations, not as one closed formula for a whole history. Error broadcasts reaching an observer without on_error handler (default_error raises into the emitter, the rest of the loop is skipped) are modelled and compared but treated as outside the quantifier of the property by the oracle. Re-entrant emission from callbacks and thread interleavings are not modelled (single-threaded histories, as the property quantifies). User conventions: one subscription per observer id; reaction actions wrapped in try/except. len(subject.observers) is compared with the model only.')

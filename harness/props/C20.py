"""C20 — a Subject broadcasts to exactly the observers subscribed at the time (DESIGN.md §5 C20).

This module also carries the machinery shared by C21 (BehaviorSubject) and C23 (AsyncSubject): the case
format, the generator, the real-code adapter and the property-text oracle for the three *synchronous*
subjects.  C22 (ReplaySubject, scheduler-driven) has its own module.

Case format
-----------
{"op": "subj", "kind": "subject"|"behavior"|"async", "init": <encoded value> (behavior only),
 "observers": [{"err": bool,                       # has an on_error handler
                "react": [[n, [action, ...]], ...]} # at its n-th callback invocation (0-based) do the actions
               , ...],                              # index in the list = observer id
 "calls": [["sub", i] | ["unsub", i] | ["next", v] | ["error", name] | ["completed"] | ["dispose"], ...]}
action = ["unsub", j] | ["sub", j] | ["dispose"]

Conventions of the *user* (identical in the adapter, the Lean model and the oracle; they are choices about the
environment, not about the library):
  * an observer id is subscribed at most once — a second "sub i" (top level or reaction) is ignored;
  * "unsub j" is ignored while the user holds no subscription handle for j (subscribe has not returned, or raised);
  * a callback performs its reaction actions after recording the notification; each action is individually wrapped
    in try/except and an exception it raises is recorded in the list `xs` as [observer, name];
  * a callback never emits into the subject (re-entrant emission is outside the property's quantifier).

Output: {"logs": [[entry, ...] per observer], "xs": [[i, name], ...], "raised": [null | name per call], "nobs": [n per call]};
entry = ["N", v] | ["E", name] | ["C"]; xs = exceptions caught by reacting callbacks, in order (who, what);
nobs = len(subject.observers) after each call (the anchored state; compared with the model, not judged by the oracle).
"""
import fw
from fw import InjectedError, enc, err_name

LEAN_TARGETS = ["RxProofs.C20"]
DRIVER = "drv_subj"
DRIVER_ROOT = "Subj"
THEOREMS = [
    "C20.snapshot_is_members",
    "C20.stopped_iff_detached",
    "C20.subject_broadcast_exact",
    "C20.received_in_call_order",
    "C20.flat_history_closed_form",
    "C20.unsub_reactions_closed_form",
    "C20.unsub_reactions_enough_fuel",
    "C20.log_is_received",
    "C20.detached_observer_silent",
    "C20.late_gets_terminal_only",
    "C20.late_handlerless_raises",
    "C20.after_dispose_raises",
    "C20.subject_natural",
    "C20.run_reachable",
]
KIND = "subject"

VALS = [None, 0, False, "", 1, 2, 3, "a", True, 0.0, (), [], {}]


# ------------------------------------------------------------------------------------------- generator
def gen_actions(rng, nobs, me, p_sub=0.3):
    acts = []
    for _ in range(rng.choice([1, 1, 1, 2, 2, 3])):
        r = rng.random()
        if r < 0.55:
            # unsubscribe myself, a later observer (it may still be waiting for this very notification), or anybody
            q = rng.random()
            j = me if q < 0.3 else rng.randrange(me, nobs) if q < 0.7 else rng.randrange(nobs)
            acts.append(["unsub", j])
        elif r < 0.55 + p_sub:
            acts.append(["sub", rng.randrange(nobs)])
        else:
            acts.append(["dispose"])
    return acts


def gen_case(rng, kind, tier):
    big = tier == "thorough"
    nobs = rng.choice([1, 2, 2, 3, 3, 4, 4, 5, 6])
    style = rng.choice(["plain", "react", "react", "midunsub", "midunsub", "dispose", "disposesub", "lateterm", "handlerless"])
    observers = []
    for i in range(nobs):
        err = True
        if style == "handlerless":
            err = rng.random() < 0.5
        elif style == "disposesub":
            err = rng.random() < 0.6
        elif rng.random() < 0.1:
            err = False
        react = []
        if style == "midunsub":
            # early observers unsubscribe later ones (or themselves) at one of their first notifications
            if i < nobs - 1 and rng.random() < 0.7:
                k = rng.choice([0, 0, 1, 1, 2])
                acts = [["unsub", rng.randrange(i + 1, nobs)]]
                if rng.random() < 0.3:
                    acts.append(["unsub", rng.choice([i, rng.randrange(nobs)])])
                if rng.random() < 0.25:
                    acts.append(["sub", rng.randrange(nobs)])
                react.append([k, acts])
        elif style == "disposesub":
            if rng.random() < 0.5:
                k = rng.choice([0, 0, 1, 2])
                acts = [["dispose"]] if rng.random() < 0.8 else []
                for _ in range(rng.choice([1, 1, 2])):
                    acts.append(["sub", rng.randrange(nobs)])
                react.append([k, acts])
        elif style != "plain" and rng.random() < (0.6 if style == "react" else 0.35):
            for n in sorted({rng.choice([0, 0, 1, 1, 2, 3, 4]) for _ in range(rng.choice([1, 1, 2, 3]))}):
                acts = gen_actions(rng, nobs, i)
                if style != "dispose":
                    acts = [a for a in acts if a[0] != "dispose" or rng.random() < 0.25]
                if acts:
                    react.append([n, acts])
        observers.append({"err": err, "react": react})
    ncalls = rng.choice([0, 1, 2, 3, 5, 8, 12, 20, 30] + ([45, 60] if big else []))
    if style in ("midunsub", "disposesub"):
        ncalls = max(ncalls, nobs + 2)
    calls = []
    # observers subscribed up front (the rest subscribe later / by reaction / never)
    unsubbed = list(range(nobs))
    if style == "midunsub":
        unsubbed.reverse()          # subscribe in id order so that "later" observers come later in the snapshot
        upfront = nobs if rng.random() < 0.8 else rng.randrange(0, nobs + 1)
    else:
        rng.shuffle(unsubbed)
        upfront = rng.randrange(0, min(nobs, 4) + 1)
    for _ in range(upfront):
        if unsubbed and len(calls) < ncalls:
            calls.append(["sub", unsubbed.pop()])
    p_term = {"plain": 0.05, "react": 0.05, "midunsub": 0.06, "dispose": 0.05, "disposesub": 0.05, "lateterm": 0.25,
              "handlerless": 0.15}[style]
    p_disp = {"plain": 0.02, "react": 0.02, "midunsub": 0.01, "dispose": 0.15, "disposesub": 0.03, "lateterm": 0.03,
              "handlerless": 0.08}[style]
    if kind == "async":
        p_term = min(0.3, p_term * 3)   # nothing is delivered before the end: terminate more often
    while len(calls) < ncalls:
        r = rng.random()
        if r < p_term:
            calls.append(["completed"] if rng.random() < 0.5 else ["error", f"e{rng.randrange(3)}"])
        elif r < p_term + p_disp:
            calls.append(["dispose"])
        elif r < p_term + p_disp + 0.17:
            if unsubbed and rng.random() < 0.85:
                calls.append(["sub", unsubbed.pop()])
            else:
                calls.append(["sub", rng.randrange(nobs)])  # mostly a duplicate: ignored by convention
        elif r < p_term + p_disp + (0.22 if style == "midunsub" else 0.30):
            calls.append(["unsub", rng.randrange(nobs)])
        else:
            calls.append(["next", enc(rng.choice(VALS))])
    if kind == "async" and calls and rng.random() < 0.5 and not any(c[0] in ("completed", "error") for c in calls):
        calls.insert(rng.randrange(len(calls) // 2, len(calls) + 1), ["completed"] if rng.random() < 0.7 else ["error", "e0"])
    case = {"op": "subj", "kind": kind, "observers": observers, "calls": calls}
    if kind == "behavior":
        case["init"] = enc(rng.choice(VALS))
    return case


def cases(rng, tier):
    for _ in range(fw.tier_scale(tier, 4000, 120000)):
        yield gen_case(rng, KIND, tier)


# ------------------------------------------------------------------------------------------- real code
class _Env:
    """the user: observers with reaction scripts around one real subject"""

    def __init__(self, case, subject):
        self.case = case
        self.subject = subject
        n = len(case["observers"])
        self.logs = [[] for _ in range(n)]
        self.xs = []
        self.cbs = [0] * n
        self.handles = [None] * n
        self.seen = [False] * n
        self.react = [{k: acts for k, acts in o["react"]} for o in case["observers"]]

    def callback(self, i, entry):
        self.logs[i].append(entry)
        k = self.cbs[i]
        self.cbs[i] += 1
        for act in self.react[i].get(k, ()):
            try:
                self.do(act)
            except Exception as e:  # noqa  the user's own try/except around each reaction action
                self.xs.append([i, err_name(e)])

    def do(self, act):
        if act[0] == "sub":
            self.sub(act[1])
        elif act[0] == "unsub":
            h = self.handles[act[1]]
            if h is not None:
                h.dispose()
        elif act[0] == "dispose":
            self.subject.dispose()
        else:
            raise ValueError(act)

    def sub_kwargs(self, i):
        """extra keyword arguments of observer i's subscribe() call (C22: a scheduler of the subscriber's own)"""
        return {}

    def sub(self, i):
        if self.seen[i]:
            return
        self.seen[i] = True
        kw = {}
        if self.case["observers"][i]["err"]:
            kw["on_error"] = lambda e, i=i: self.callback(i, ["E", err_name(e)])
        kw.update(self.sub_kwargs(i))
        self.handles[i] = self.subject.subscribe(
            lambda v, i=i: self.callback(i, ["N", enc(v)]), on_completed=lambda i=i: self.callback(i, ["C"]), **kw)


def make_subject(case):
    from reactivex.subject import AsyncSubject, BehaviorSubject, Subject

    k = case["kind"]
    if k == "subject":
        return Subject()
    if k == "behavior":
        return BehaviorSubject(fw.dec(case["init"]))
    if k == "async":
        return AsyncSubject()
    raise ValueError(k)


def impl(case):
    subject = make_subject(case)
    env = _Env(case, subject)
    raised, nobs = [], []
    for c in case["calls"]:
        try:
            if c[0] == "next":
                subject.on_next(fw.dec(c[1]))
            elif c[0] == "error":
                subject.on_error(InjectedError(c[1]))
            elif c[0] == "completed":
                subject.on_completed()
            else:
                env.do(c)
            raised.append(None)
        except Exception as e:  # noqa  what the caller of this history call sees
            raised.append(err_name(e))
        nobs.append(len(subject.observers))   # the anchored state `observers` (compared with the model only, not judged by the oracle)
    return {"logs": env.logs, "xs": env.xs, "raised": raised, "nobs": nobs}


def canon_model(case, resp):
    if isinstance(resp, dict) and resp.get("oof") is False:
        resp = {k: v for k, v in resp.items() if k != "oof"}
    return resp


def model_request(case):
    return case


# ------------------------------------------------------------------------------------------- oracle
# Written from the property text: keep, per observer, whether it "is subscribed" (has subscribed, has not been
# unsubscribed, the subject has not terminated / been disposed since) and recompute who must receive what.
# Deliberately different in shape from the Lean model: recursive Python over sets, no observer list surgery, no
# AutoDetachObserver/InnerSubscription state.
class _Spec:
    def __init__(self, case):
        self.case = case
        self.kind = case["kind"]
        n = len(case["observers"])
        self.logs = [[] for _ in range(n)]
        self.xs = []
        self.outside = False     # a handler-less observer made a broadcast raise: outside the property's quantifier from there on
        self.stats = set()
        self.depth = 0           # > 0 while inside a callback
        self.count = [0] * n
        self.react = [{k: acts for k, acts in o["react"]} for o in case["observers"]]
        self.err = [o["err"] for o in case["observers"]]
        self.attempted = set()   # ids whose (single) subscription was attempted
        self.order = []          # ids in order of successful live subscription
        self.subscribed = set()  # currently subscribed (will receive the next broadcast)
        self.silenced = set()    # unsubscribed or already given a terminal: never hears anything again
        self.has_handle = set()
        self.terminal = None     # the terminal notification the subject has accepted
        self.disposed = False
        self.value = fw.dec(case["init"]) if self.kind == "behavior" else None
        self.has_value = self.kind == "behavior"

    class Raised(Exception):
        def __init__(self, name):
            self.name = name

    def give(self, i, entry):
        """hand one notification to observer i (unless it has been silenced)"""
        if i in self.silenced:
            self.stats.add("skipped-detached")
            return
        if entry[0] != "N":
            self.silenced.add(i)
            self.subscribed.discard(i)
            if entry[0] == "E" and not self.err[i]:
                raise _Spec.Raised(entry[1])  # no on_error handler: the error is raised to whoever delivered it
        self.logs[i].append(entry)
        k = self.count[i]
        self.count[i] += 1
        self.depth += 1
        for act in self.react[i].get(k, ()):
            try:
                self.do(act)
            except _Spec.Raised as r:
                self.xs.append([i, r.name])
        self.depth -= 1

    def do(self, act):
        if act[0] == "sub":
            self.sub(act[1])
        elif act[0] == "unsub":
            if act[1] in self.has_handle:
                if self.depth and act[1] in self.subscribed:
                    self.stats.add("unsub-live-observer-in-callback")
                self.silenced.add(act[1])
                self.subscribed.discard(act[1])
        elif act[0] == "dispose":
            if self.depth and not self.disposed:
                self.stats.add("dispose-in-callback")
            self.disposed = True
            self.subscribed = set()

    def sub(self, i):
        if i in self.attempted:
            return
        self.attempted.add(i)
        if self.depth:
            self.stats.add("sub-in-callback")
        if self.disposed:
            self.stats.add("sub-after-dispose" + ("" if self.err[i] else "-handlerless"))
            # "after dispose(), ... subscribing raise[s] DisposedException": through subscribe's fail path
            if self.err[i]:
                self.give(i, ["E", "DisposedException"])
                self.has_handle.add(i)
                return
            self.silenced.add(i)
            raise _Spec.Raised("DisposedException")
        if self.terminal is not None:
            self.stats.add("late-subscribe")
            # "an observer subscribing after termination receives only the terminal notification"
            if self.kind == "async" and self.terminal[0] == "C" and self.has_value:
                self.give(i, ["N", enc(self.value)])
            self.give(i, self.terminal)
            self.has_handle.add(i)
            return
        self.subscribed.add(i)
        self.order.append(i)
        if self.kind == "behavior":
            self.give(i, ["N", enc(self.value)])
        self.has_handle.add(i)

    def emit(self, c):
        if self.disposed:
            raise _Spec.Raised("DisposedException")
        if self.terminal is not None:
            return
        audience = [i for i in self.order if i in self.subscribed]  # subscribed when the call is made
        if c[0] == "next":
            if self.kind == "async":
                self.value, self.has_value = fw.dec(c[1]), True
                return
            if self.kind == "behavior":
                self.value = fw.dec(c[1])
            for i in audience:
                self.give(i, ["N", c[1]])
            return
        self.terminal = ["C"] if c[0] == "completed" else ["E", c[1]]
        self.subscribed = set()
        try:
            for i in audience:
                if self.kind == "async" and c[0] == "completed" and self.has_value:
                    self.give(i, ["N", enc(self.value)])
                self.give(i, self.terminal)
        except _Spec.Raised:
            # an observer without on_error handler = a raising callback: what the other observers get is not
            # constrained by the property; the correspondence still compares model and code on it
            self.outside = True
            raise

    def run(self):
        raised = []
        for c in self.case["calls"]:
            try:
                if c[0] in ("next", "error", "completed"):
                    self.emit(c)
                else:
                    self.do(c)
                raised.append(None)
            except _Spec.Raised as r:
                raised.append(r.name)
        return {"logs": self.logs, "xs": self.xs, "raised": raised}


def oracle(case, out):
    spec = _Spec(case)
    exp = spec.run()
    if spec.outside:
        return None
    out = {k: v for k, v in out.items() if k != "nobs"}
    if fw.key(exp) != fw.key(out):
        for i, (a, b) in enumerate(zip(exp["logs"], out["logs"])):
            if fw.key(a) != fw.key(b):
                return f"observer {i}: expected {a} got {b}"
        return f"raised/caught: expected {exp['raised']} {exp['xs']} got {out['raised']} {out['xs']}"
    return None


def nontrivial(case, out):
    kinds = {c[0] for c in case["calls"]}
    return len(kinds) >= 2 and (any(out["logs"]) or any(out["raised"]))


def bucket(case, out):
    yield "kind:" + case["kind"]
    yield f"nobs:{len(case['observers'])}"
    n = len(case["calls"])
    yield "calls:" + ("0" if n == 0 else "1-5" if n <= 5 else "6-12" if n <= 12 else "13-30" if n <= 30 else ">30")
    if any(o["react"] for o in case["observers"]):
        yield "has-reactions"
    if out["xs"]:
        yield "reaction-raised"
    for r in set(out["raised"]):
        if r:
            yield "raised:" + ("Disposed" if r == "DisposedException" else "error")
    if any(not o["err"] for o in case["observers"]):
        yield "handlerless-observer"
    spec = _Spec(case)
    spec.run()
    for st in sorted(spec.stats):
        yield st
    if spec.outside:
        yield "outside-quantifier(handlerless broadcast)"
    if any(c[0] == "next" and not fw.dec(c[1]) for c in case["calls"]):
        yield "falsy-value"
    if case["kind"] == "behavior" and not fw.dec(case["init"]):
        yield "falsy-initial"


def shrink(case):
    for i in range(len(case["calls"])):
        c = dict(case)
        c["calls"] = case["calls"][:i] + case["calls"][i + 1:]
        yield c
    for i, o in enumerate(case["observers"]):
        if o["react"]:
            for k in range(len(o["react"])):
                c = dict(case)
                c["observers"] = [dict(x) for x in case["observers"]]
                c["observers"][i]["react"] = o["react"][:k] + o["react"][k + 1:]
                yield c


RULE = ("call histories of 0..30 calls (thorough: ..60) of sub/unsub/next/error/completed/dispose over 1..6 observers, each with a finite "
        "reaction script (at its n-th notification: unsubscribe itself/another, subscribe a new observer, dispose the subject), with and "
        "without an on_error handler, values incl. None/0/False/''/0.0/()/[]/{}; driven into the real Subject through Observable.subscribe; "
        "compared: per-observer notification sequence and the exception raised to the caller of each call; "
        "non-trivial = at least two call kinds and at least one delivery or raised exception")
ASSUMPTIONS = ["single-threaded call histories (what the property quantifies over); the lock is re-entrant and uncontended",
               "callbacks do not emit into the subject re-entrantly (only unsubscribe / subscribe / dispose from inside callbacks)",
               "user conventions of the harness: one subscription per observer id; reaction actions individually wrapped in try/except"]
LEVEL_TEXT = ("Lean theorems over a small-step model of Subject + per-observer AutoDetachObserver/SingleAssignmentDisposable/InnerSubscription "
              "with an explicit agenda (delivery loops over the snapshot copy, callbacks re-entering the subject): for every configuration reachable by "
              "any history and any reaction scripts (induction over the reachability relation, no bounds) the observer list equals the declaratively "
              "defined list of observers subscribed at the time; an observer reached by the loop is handed the notification iff it has not been "
              "unsubscribed/terminated meanwhile; what an observer was handed is a subsequence of the accepted notifications in call order and no call "
              "is handed twice; detached observers stay silent forever; late subscribers get exactly the accepted terminal; after dispose emitting raises "
              "DisposedException and subscribing fails through subscribe's fail path (raised without on_error, delivered with). For flat histories "
              "(callbacks only record) a closed form: each observer's final log = its own three-state reading of the history; for histories whose "
              "callbacks unsubscribe themselves or other observers (any number, at any invocation) a second closed form: final logs, observer list and "
              "detached set = a plain recursive function of the history that walks the members as they were at the call and applies each callback's "
              "unsubscriptions at once (unsub_reactions_closed_form; the run never runs out of fuel: unsub_reactions_enough_fuel). Value-naturality "
              "(any renaming g commutes with whole runs: None/0/False/'' are ordinary). Tied to the real code by differential execution of generated "
              "histories (per-observer sequences, exceptions per call and per reacting callback, len(subject.observers) after each call) and an "
              "independent property-text oracle.")
LEVEL_NOTE = ("For histories with reactions the exactness statement is per step of the delivery loop plus invariants over all reachable configurations; "
              "closed formulas for a whole history are proved for reaction-free configurations (flat_history_closed_form) and for callbacks that only "
              "unsubscribe, every observer having on_error (unsub_reactions_closed_form); callbacks that subscribe or dispose have the per-step statements only. "
              "Error broadcasts reaching an observer without on_error handler (default_error raises into the emitter and the rest of the loop is skipped) "
              "are modelled and compared but treated as outside the property's quantifier (a raising callback) by the oracle. Re-entrant emission from "
              "callbacks and real thread interleavings are not modelled (single-threaded histories, as the property quantifies). "
              "User conventions: one subscription per observer id; reaction actions wrapped in try/except. len(subject.observers) is compared with the "
              "model only (a divergence there alone is reported as a broken correspondence without failing input, not as a property violation).")

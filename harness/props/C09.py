"""C09 — exceptions raised by user callbacks are delivered as on_error (DESIGN.md §5 C09).

Two kinds of cases:
  * kind "model": operators whose handlers are modelled in Lean (drv_agg) run over a Subject / hot observable with finite-table
    callbacks (raising entries); full output *and* the exceptions escaping from `subject.on_next` / the scheduler are compared
    with the model (which models `distinct` as repaired);
  * kind "inject": the large catalogue, independent of any model: a pipeline built from one catalogued operator, an exception
    injected at the k-th invocation of one of its callbacks; oracle = the property text.
"""
import fw
from fw import FnTab, InjectedError, dec, enc, err_name
from props import C06

LEAN_TARGETS = ["RxProofs.C09"]
DRIVER = "drv_agg"
DRIVER_ROOT = "Agg"
PROCS = 8
THEOREMS = [
    "C09.raise_delivered", "C09.stopped_iff_terminated", "C09.live_source", "C09.no_escape_pipe",
    "C09.no_escape_map", "C09.no_escape_filter", "C09.no_escape_take_while", "C09.no_escape_distinct", "C09.distinct_comparer_raise",
    "C09.distinct_unfixed_escapes", "C09.no_escape_find", "C09.no_escape_scan", "C09.no_escape_reduce", "C09.no_escape_extrema",
    "C09.no_escape_min_max", "C09.no_escape_to_dict", "C09.no_escape_hashing", "C09.no_escape_contains", "C09.no_escape_predicate_forms",
    "C09.no_escape_key_forms", "C09.no_escape_sequence_equal",
    "C09.map_raise_end_to_end", "C09.reduce_raise_end_to_end", "C09.contains_raise_end_to_end",
    # generic end-to-end theorem (A)+(B) => delivery, closed under pipe, and its instances for the whole family
    "C09.raise_end_to_end", "C09.pipe_raise_end_to_end", "C09.filter_raise_end_to_end", "C09.take_while_raise_end_to_end",
    "C09.distinct_key_raise_end_to_end", "C09.distinct_comparer_raise_end_to_end", "C09.find_raise_end_to_end",
    "C09.scan_raise_end_to_end", "C09.reduce_state_raise_end_to_end", "C09.extrema_key_raise_end_to_end",
    "C09.extrema_comparer_raise_end_to_end", "C09.to_dict_raise_end_to_end", "C09.predicate_forms_raise_end_to_end",
    "C09.all_raise_end_to_end", "C09.contains_pipe_raise_end_to_end", "C09.key_forms_raise_end_to_end",
    # multi-source / higher-order operators over the comb / win families' machines
    "C09.comb_raise_delivered", "C09.no_escape_projection", "C09.no_escape_catch_handler", "C09.no_escape_seq_factory",
    "C09.group_by_until_raise_paths", "C09.group_by_until_failure_path",
]
RULE = ("inject: for every catalogued (operator, callback) an exception (InjectedError, StopIteration, KeyError, TypeError, ValueError, AttributeError, "
        "IndexError, ZeroDivisionError, RuntimeError, AssertionError, LookupError, a custom Exception subclass, and the "
        "library's own SequenceContainsNoElementsError / DisposedException / WouldBlockException / ArgumentOutOfRangeException) raised at the k-th "
        "invocation (k = 0..4) of that callback - the very exception object must reach the subscriber -, over "
        "Subjects (escape = exception out of subject.on_next), hot and cold TestScheduler observables (escape = exception out of the "
        "scheduler), generated timelines for main/second/inner sources; model: finite-table callbacks with raising entries over a Subject "
        "or hot observable for the operators modelled in Lean, comparing timed output and escapes. non-trivial = the injected/raising "
        "callback invocation actually happened. group_by(_until) / window_when / window_toggle / group_join also run with a subscriber that "
        "subscribes to every emitted group/window itself (durations never/long/short, failure at the 2nd+ invocation while earlier groups "
        "are open, source continuing): after the failure every such group must have terminated and receive nothing more")
ASSUMPTIONS = [
    "single-threaded / virtual-time execution",
    "downstream (subscriber) callbacks return normally: the property is about user-supplied functions of the pipeline",
    "an exception raised after the subscriber already received a terminal cannot be delivered (C01) and is only required not to escape",
]
TRUSTED_EXTRA = ["the injection wrapper (counts invocations of each user callback, raises at the k-th) and the escape recorder "
                 "(try/except around subject.on_next and around TestScheduler.start)"]

MODEL_OPS = ["map", "filter", "take_while", "distinct", "scan", "reduce", "min_by", "max_by", "to_dict", "find", "contains",
             "count", "first", "last", "single", "some", "all", "sum", "average", "min", "max", "sequence_equal"]


# =========================================================================== model cases
def gen_model(rng, op):
    if op == "sequence_equal":
        c = C06.gen_seq(rng)
        while "cmp" not in c:
            c = C06.gen_seq(rng)
        c["kind"] = "model"
        return c
    if op in ("map", "filter", "take_while", "distinct", "find"):
        src, sub = C06.gen_src(rng, C06.VALS_EQ if op == "distinct" else C06.VALS)
        c = {"op": op, "src": src}
        praise = rng.choice([0.1, 0.3, 0.5])
        if op == "map":
            c["fn"] = C06.tab1(rng, sub, C06.RES, praise, "map")
        elif op == "filter":
            c["fn"] = C06.tab1(rng, sub, C06.TRUTH, praise, "pred")
        elif op == "take_while":
            c["fn"] = C06.tab1(rng, sub, [True, 1, "a", True, False, 0], praise, "pred")
            c["inclusive"] = rng.random() < 0.5
        elif op == "find":
            idx = list(range(0, 9))
            c["fn"] = {"tab": C06.tab2(rng, sub, idx, lambda a, b: rng.choice([False, 0, None, False, True]), praise / 3, "pred"), "dflt": False}
            c["yield_index"] = rng.random() < 0.5
        elif op == "distinct":
            keys = rng.sample([0, 1, False, "a", None, 0.0, (1,)], rng.choice([2, 3]))
            if rng.random() < 0.6:
                c["key"] = C06.tab1(rng, sub, keys, praise / 2, "key")
                kdom = C06.uniq(keys + [dec(c["key"]["dflt"])])
            else:
                kdom = sub
            if rng.random() < 0.7:
                c["cmp"] = {"tab": C06.tab2(rng, kdom, kdom, lambda a, b: (a == b) if rng.random() < 0.7 else rng.choice(C06.TRUTH), praise / 2, "cmp"),
                            "dflt": False}
    else:
        c = C06.gen_single(rng, op)
        while c.get("unhashable"):  # TypeError of set.add / dict assignment is not a user callback (C06's business)
            c = C06.gen_single(rng, op)
    c["kind"] = "model"
    c["mode"] = rng.choice(["subject", "subject", "hot"])
    return c


def model_request(case):
    if case["kind"] != "model":
        return None
    c = {k: v for k, v in case.items() if k not in ("mode", "cmp_kind", "rank", "cmp_sym", "kind")}
    c["lag"] = False
    if case.get("mode") == "subject":
        c["src"] = [[i, m[1]] for i, m in enumerate(case["src"])]
    return c


def build_model_op(case):
    from reactivex import operators as ops

    op = case["op"]
    if op == "map":
        return ops.map(C06.fn(case["fn"]))
    if op == "filter":
        return ops.filter(C06.fn(case["fn"]))
    if op == "take_while":
        return ops.take_while(C06.fn(case["fn"]), case["inclusive"])
    if op == "distinct":
        return ops.distinct(C06.fn(case.get("key")), C06.fn(case.get("cmp")))
    if op == "find":
        tab = C06.fn(case["fn"])
        pred = lambda x, i, s: tab(x, i)  # noqa: E731
        return ops.find_index(pred) if case["yield_index"] else ops.find(pred)
    return C06.build(case)


def impl_model(case):
    from reactivex.subject import Subject
    from reactivex.testing import TestScheduler

    if case["op"] == "sequence_equal" or case["mode"] == "hot":
        if case["op"] == "sequence_equal":
            return C06.impl(case)
        oper = build_model_op(case)
        sched = TestScheduler()
        src = sched.create_hot_observable(*C06.recorded(case["src"]))
        msgs, escaped = C06.run_sched(sched, lambda: src.pipe(oper))
        return {"out": fw.messages_json(msgs), "escaped": escaped}
    oper = build_model_op(case)
    subj = Subject()
    cur = [None]
    out, escaped = [], []
    subj.pipe(oper).subscribe(
        lambda v: out.append([cur[0], ["N", enc(v)]]),
        lambda e: out.append([cur[0], ["E", err_name(e)]]),
        lambda: out.append([cur[0], ["C"]]))
    for i, (_, n) in enumerate(case["src"]):
        cur[0] = i
        try:
            if n[0] == "N":
                subj.on_next(dec(n[1]))
            elif n[0] == "C":
                subj.on_completed()
            else:
                subj.on_error(InjectedError(n[1]))
        except Exception as e:  # noqa: escaped out of subject.on_next
            escaped.append(err_name(e))
    return {"out": out, "escaped": escaped}


# =========================================================================== injection catalogue
class _Watchdog(BaseException):
    pass


EXC_KINDS = ["injected", "StopIteration", "KeyError", "Custom", "NoElements", "Disposed", "WouldBlock", "ArgumentOutOfRange",
             "TypeError", "ValueError", "AttributeError", "IndexError", "ZeroDivisionError", "RuntimeError", "AssertionError", "LookupError"]
BUILTIN_EXC = {"TypeError": TypeError, "ValueError": ValueError, "AttributeError": AttributeError, "IndexError": IndexError,
               "ZeroDivisionError": ZeroDivisionError, "RuntimeError": RuntimeError, "AssertionError": AssertionError,
               "LookupError": LookupError}


class CustomError(Exception):
    pass


def make_exc(kind, name):
    """the exception object a user callback raises: also classes the library itself raises / catches internally"""
    from reactivex.internal import exceptions as X

    if kind == "injected":
        return InjectedError(name)
    if kind == "StopIteration":
        return StopIteration(name)
    if kind == "KeyError":
        return KeyError(name)
    if kind == "Custom":
        return CustomError(name)
    if kind == "NoElements":
        return X.SequenceContainsNoElementsError()
    if kind == "Disposed":
        return X.DisposedException()
    if kind == "WouldBlock":
        return X.WouldBlockException()
    if kind == "ArgumentOutOfRange":
        return X.ArgumentOutOfRangeException()
    if kind in BUILTIN_EXC:
        return BUILTIN_EXC[kind](name)
    raise ValueError(kind)


class Ctx:
    def __init__(self, case):
        from reactivex.testing import TestScheduler

        self.case = case
        self.sched = TestScheduler()
        self.st = {"calls": {}, "fired": False, "fired_at": None, "term_before": None, "after": 0}
        self.out = []
        self.terminated = False
        self.escaped = []
        self.subjects = []
        self.hots = []
        self.groups = []
        self.last_err = None

    # ---- sources
    def source(self, key):
        from reactivex.subject import Subject

        msgs = self.case[key]
        mode = self.case["mode"]
        if mode == "hot":
            o = self.sched.create_hot_observable(*C06.recorded(msgs))
            self.hots.append(o)
            return o
        if mode == "cold":
            o = self.sched.create_cold_observable(*C06.recorded([[t - 200, n] for t, n in msgs]))
            self.hots.append(o)
            return o
        subj = Subject()
        for t, n in msgs:
            self.sched.schedule_absolute(t, self._push(subj, t, n))
        return subj

    def _push(self, subj, t, n):
        def act(s, state):
            try:
                if n[0] == "N":
                    subj.on_next(dec(n[1]))
                elif n[0] == "C":
                    subj.on_completed()
                else:
                    subj.on_error(InjectedError(n[1]))
            except Exception as e:  # noqa: escaped out of subject.on_next / on_error / on_completed
                self.escaped.append(["subject", int(t), err_name(e)])
        return act

    def inner(self, tag=0):
        """a fresh cold inner observable (duration / projection result)"""
        msgs = [[dt, n] for dt, n in self.case["inner"]]
        return self.sched.create_cold_observable(*C06.recorded(msgs))

    def duration(self):
        """duration / closing observable for the *_groups entries: never, a long timer, or the generated inner timeline"""
        import reactivex as rx
        d = self.case.get("dur", "inner")
        if d == "never":
            return rx.never()
        if d == "long":
            return rx.timer(400)
        return self.inner()

    def cold(self, key="a"):
        return self.sched.create_cold_observable(*C06.recorded([[max(1, t - 200), n] for t, n in self.case[key]]))

    # ---- callbacks
    def cb(self, name, f):
        target, k = self.case["cb"], self.case["k"]
        st = self.st

        def g(*args):
            idx = st["calls"].get(name, 0)
            st["calls"][name] = idx + 1
            if st["fired"]:
                st["after"] += 1
            if name == target and idx == k and not st["fired"]:
                st["fired"] = True
                st["fired_at"] = int(self.sched.clock)
                st["term_before"] = self.terminated
                st["exc_obj"] = make_exc(self.case.get("exc", "injected"), f"inj_{name}_{k}")
                raise st["exc_obj"]
            return f(*args)
        return g

    # ---- subscriber
    def on_next(self, v):
        self.out.append([int(self.sched.clock), ["N"]])
        if self.case["entry"] in GROUP_ENTRIES:
            # the subscriber subscribes to every emitted group / window on its own (not through merge_all): these
            # subscriptions outlive the outer one and keep the operator's RefCountDisposable alive
            inner = v[1] if isinstance(v, tuple) else v
            g = {"opened": int(self.sched.clock), "log": [], "terminated": False}
            self.groups.append(g)

            def term(kind):
                def f(*a):
                    g["terminated"] = True
                    g["log"].append([int(self.sched.clock), kind])
                return f
            inner.subscribe(lambda x: g["log"].append([int(self.sched.clock), "N"]), term("E"), term("C"), scheduler=self.sched)

    def on_error(self, e):
        self.terminated = True
        self.last_err = e
        self.out.append([int(self.sched.clock), ["E", err_name(e)]])

    def on_completed(self):
        self.terminated = True
        self.out.append([int(self.sched.clock), ["C"]])


def _merge_all():
    from reactivex import operators as ops
    return ops.merge_all()


def catalogue():
    """name -> (callback names, builder(ctx) -> Observable).  Every builder wraps each user callback with ctx.cb(name, default)."""
    import reactivex as rx
    from reactivex import operators as ops
    from reactivex.disposable import Disposable
    from reactivex.subject import Subject

    E = {}

    def single(name, cbs, mk):
        E[name] = (cbs, lambda c: c.source("a").pipe(mk(c)))

    single("map", ["mapper"], lambda c: ops.map(c.cb("mapper", lambda x: x)))
    single("map_indexed", ["mapper"], lambda c: ops.map_indexed(c.cb("mapper", lambda x, i: x)))
    single("filter", ["predicate"], lambda c: ops.filter(c.cb("predicate", lambda x: x != 1)))
    single("filter_indexed", ["predicate"], lambda c: ops.filter_indexed(c.cb("predicate", lambda x, i: i != 1)))
    single("take_while", ["predicate"], lambda c: ops.take_while(c.cb("predicate", lambda x: x != 3)))
    single("take_while_inclusive", ["predicate"], lambda c: ops.take_while(c.cb("predicate", lambda x: x != 3), True))
    single("take_while_indexed", ["predicate"], lambda c: ops.take_while_indexed(c.cb("predicate", lambda x, i: i < 4)))
    single("skip_while", ["predicate"], lambda c: ops.skip_while(c.cb("predicate", lambda x: x == 0)))
    single("skip_while_indexed", ["predicate"], lambda c: ops.skip_while_indexed(c.cb("predicate", lambda x, i: i < 2)))
    single("distinct", ["key_mapper", "comparer"],
           lambda c: ops.distinct(c.cb("key_mapper", lambda x: x), c.cb("comparer", lambda a, b: a == b)))
    single("distinct_until_changed", ["key_mapper", "comparer"],
           lambda c: ops.distinct_until_changed(c.cb("key_mapper", lambda x: x), c.cb("comparer", lambda a, b: a == b)))
    single("scan", ["accumulator"], lambda c: ops.scan(c.cb("accumulator", lambda a, x: a + x)))
    single("scan_seed", ["accumulator"], lambda c: ops.scan(c.cb("accumulator", lambda a, x: a + x), 0))
    single("reduce", ["accumulator"], lambda c: ops.reduce(c.cb("accumulator", lambda a, x: a + x)))
    single("reduce_seed", ["accumulator"], lambda c: ops.reduce(c.cb("accumulator", lambda a, x: a + x), 0))
    single("min_by", ["key_mapper", "comparer"],
           lambda c: ops.min_by(c.cb("key_mapper", lambda x: x), c.cb("comparer", lambda a, b: a - b)))
    single("max_by", ["key_mapper", "comparer"],
           lambda c: ops.max_by(c.cb("key_mapper", lambda x: x), c.cb("comparer", lambda a, b: a - b)))
    single("min", ["comparer"], lambda c: ops.min(c.cb("comparer", lambda a, b: a - b)))
    single("max", ["comparer"], lambda c: ops.max(c.cb("comparer", lambda a, b: a - b)))
    single("to_dict", ["key_mapper", "element_mapper"],
           lambda c: ops.to_dict(c.cb("key_mapper", lambda x: x), c.cb("element_mapper", lambda x: x)))
    single("find", ["predicate"], lambda c: ops.find(c.cb("predicate", lambda x, i, s: x == 3)))
    single("find_index", ["predicate"], lambda c: ops.find_index(c.cb("predicate", lambda x, i, s: x == 3)))
    single("count", ["predicate"], lambda c: ops.count(c.cb("predicate", lambda x: x != 1)))
    single("first", ["predicate"], lambda c: ops.first(c.cb("predicate", lambda x: x == 3)))
    single("first_or_default", ["predicate"], lambda c: ops.first_or_default(c.cb("predicate", lambda x: x == 3), 9))
    single("last", ["predicate"], lambda c: ops.last(c.cb("predicate", lambda x: x != 1)))
    single("last_or_default", ["predicate"], lambda c: ops.last_or_default(9, c.cb("predicate", lambda x: x != 1)))
    single("single", ["predicate"], lambda c: ops.single(c.cb("predicate", lambda x: x == 3)))
    single("single_or_default", ["predicate"], lambda c: ops.single_or_default(c.cb("predicate", lambda x: x == 3), 9))
    single("some", ["predicate"], lambda c: ops.some(c.cb("predicate", lambda x: x == 3)))
    single("all", ["predicate"], lambda c: ops.all(c.cb("predicate", lambda x: x != 3)))
    single("contains", ["comparer"], lambda c: ops.contains(3, c.cb("comparer", lambda a, b: a == b)))
    single("sum", ["key_mapper"], lambda c: ops.sum(c.cb("key_mapper", lambda x: x)))
    single("average", ["key_mapper"], lambda c: ops.average(c.cb("key_mapper", lambda x: x)))
    single("starmap", ["mapper"], lambda c: rx.compose(ops.map(lambda x: (x, x)), ops.starmap(c.cb("mapper", lambda a, b: a + b))))
    single("starmap_indexed", ["mapper"],
           lambda c: rx.compose(ops.map(lambda x: (x, x)), ops.starmap_indexed(c.cb("mapper", lambda a, b, i: a + i))))
    single("do_action", ["on_next", "on_error", "on_completed"],
           lambda c: ops.do_action(c.cb("on_next", lambda x: None), c.cb("on_error", lambda e: None), c.cb("on_completed", lambda: None)))
    single("group_by", ["key_mapper", "element_mapper"],
           lambda c: rx.compose(ops.group_by(c.cb("key_mapper", lambda x: x % 2), c.cb("element_mapper", lambda x: x)), ops.merge_all()))
    single("group_by_subject_mapper", ["subject_mapper"],
           lambda c: rx.compose(ops.group_by(lambda x: x % 2, None, c.cb("subject_mapper", lambda: Subject())), ops.merge_all()))
    single("group_by_until", ["key_mapper", "element_mapper", "duration_mapper"],
           lambda c: rx.compose(ops.group_by_until(c.cb("key_mapper", lambda x: x % 2), c.cb("element_mapper", lambda x: x),
                                                   c.cb("duration_mapper", lambda g: c.inner())), ops.merge_all()))
    single("group_by_groups", ["key_mapper", "element_mapper", "subject_mapper"],
           lambda c: ops.group_by(c.cb("key_mapper", lambda x: x % 3), c.cb("element_mapper", lambda x: x), c.cb("subject_mapper", lambda: Subject())))
    single("group_by_until_groups", ["key_mapper", "element_mapper", "duration_mapper", "subject_mapper"],
           lambda c: ops.group_by_until(c.cb("key_mapper", lambda x: x % 3), c.cb("element_mapper", lambda x: x),
                                        c.cb("duration_mapper", lambda g: c.duration()), c.cb("subject_mapper", lambda: Subject())))
    single("window_when_windows", ["closing_mapper"], lambda c: ops.window_when(c.cb("closing_mapper", lambda: rx.timer(12))))
    single("partition", ["predicate"], lambda c: (lambda src: rx.merge(*ops.partition(c.cb("predicate", lambda x: x != 1))(src))))
    single("flat_map", ["mapper"], lambda c: ops.flat_map(c.cb("mapper", lambda x: c.inner())))
    single("flat_map_indexed", ["mapper"], lambda c: ops.flat_map_indexed(c.cb("mapper", lambda x, i: c.inner())))
    single("flat_map_latest", ["mapper"], lambda c: ops.flat_map_latest(c.cb("mapper", lambda x: c.inner())))
    single("switch_map", ["mapper"], lambda c: ops.switch_map(c.cb("mapper", lambda x: c.inner())))
    single("switch_map_indexed", ["mapper"], lambda c: ops.switch_map_indexed(c.cb("mapper", lambda x, i: c.inner())))
    single("concat_map", ["mapper"], lambda c: ops.concat_map(c.cb("mapper", lambda x: c.inner())))
    single("expand", ["mapper"], lambda c: rx.compose(ops.expand(c.cb("mapper", lambda x: c.inner() if x < 100 else rx.empty())), ops.take(20)))
    single("delay_with_mapper", ["delay_duration_mapper"], lambda c: ops.delay_with_mapper(c.cb("delay_duration_mapper", lambda x: c.inner())))
    single("delay_with_mapper_sub", ["delay_duration_mapper"],
           lambda c: ops.delay_with_mapper(rx.timer(5), c.cb("delay_duration_mapper", lambda x: c.inner())))
    single("throttle_with_mapper", ["mapper"], lambda c: ops.throttle_with_mapper(c.cb("mapper", lambda x: c.inner())))
    single("timeout_with_mapper", ["timeout_duration_mapper"],
           lambda c: ops.timeout_with_mapper(rx.timer(500), c.cb("timeout_duration_mapper", lambda x: rx.timer(500))))
    single("window_when", ["closing_mapper"], lambda c: rx.compose(ops.window_when(c.cb("closing_mapper", lambda: rx.timer(25))), ops.merge_all()))
    single("buffer_when", ["closing_mapper"], lambda c: ops.buffer_when(c.cb("closing_mapper", lambda: rx.timer(25))))
    E["window_toggle"] = (["closing_mapper"], lambda c: c.source("a").pipe(
        ops.window_toggle(c.source("b"), c.cb("closing_mapper", lambda x: rx.timer(15))), ops.merge_all()))
    E["window_toggle_windows"] = (["closing_mapper"], lambda c: c.source("a").pipe(
        ops.window_toggle(c.source("b"), c.cb("closing_mapper", lambda x: c.duration()))))
    E["group_join_windows"] = (["left_duration_mapper", "right_duration_mapper"], lambda c: c.source("a").pipe(
        ops.group_join(c.source("b"), c.cb("left_duration_mapper", lambda x: c.duration()), c.cb("right_duration_mapper", lambda x: c.duration()))))
    E["buffer_toggle"] = (["closing_mapper"], lambda c: c.source("a").pipe(
        ops.buffer_toggle(c.source("b"), c.cb("closing_mapper", lambda x: rx.timer(15)))))
    E["group_join"] = (["left_duration_mapper", "right_duration_mapper"], lambda c: c.source("a").pipe(
        ops.group_join(c.source("b"), c.cb("left_duration_mapper", lambda x: rx.timer(20)), c.cb("right_duration_mapper", lambda x: rx.timer(20))),
        ops.flat_map(lambda t: t[1])))
    E["join"] = (["left_duration_mapper", "right_duration_mapper"], lambda c: c.source("a").pipe(
        ops.join(c.source("b"), c.cb("left_duration_mapper", lambda x: rx.timer(20)), c.cb("right_duration_mapper", lambda x: rx.timer(20)))))
    E["sequence_equal"] = (["comparer"], lambda c: c.source("a").pipe(ops.sequence_equal(c.source("b"), c.cb("comparer", lambda a, b: True))))
    E["sequence_equal_iterable"] = (["comparer"], lambda c: c.source("a").pipe(
        ops.sequence_equal([0, 1, 2, 3, 0, 1], c.cb("comparer", lambda a, b: True))))
    E["sequence_equal_generator"] = (["comparer"], lambda c: c.source("a").pipe(
        ops.sequence_equal((v for v in [0, 1, 2, 3, 0, 1]), c.cb("comparer", lambda a, b: True))))
    E["catch_handler"] = (["handler"], lambda c: c.source("a").pipe(ops.catch(c.cb("handler", lambda e, s: c.inner()))))
    E["on_error_resume_next"] = (["factory1", "factory2"], lambda c: rx.on_error_resume_next(
        c.source("a"), c.cb("factory1", lambda e: c.inner()), c.cb("factory2", lambda e: c.inner())))
    E["using"] = (["resource_factory", "observable_factory"], lambda c: rx.using(
        c.cb("resource_factory", lambda: Disposable()), c.cb("observable_factory", lambda r: c.source("a"))))
    E["defer"] = (["factory"], lambda c: rx.defer(c.cb("factory", lambda s: c.source("a"))))
    E["case"] = (["mapper"], lambda c: rx.case(c.cb("mapper", lambda: 1), {1: c.source("a")}))
    E["if_then"] = (["condition"], lambda c: rx.if_then(c.cb("condition", lambda: True), c.source("a")))
    E["generate"] = (["condition", "iterate"], lambda c: rx.generate(0, c.cb("condition", lambda x: x < 5), c.cb("iterate", lambda x: x + 1)))
    E["generate_with_relative_time"] = (["condition", "iterate", "time_mapper"], lambda c: rx.generate_with_relative_time(
        0, c.cb("condition", lambda x: x < 5), c.cb("iterate", lambda x: x + 1), c.cb("time_mapper", lambda x: c.case.get("delay", 10))))
    E["while_do"] = (["condition"], lambda c: c.cold().pipe(ops.while_do(c.cb("condition", lambda s: c.st["calls"].get("condition", 0) <= 3))))
    E["do_while"] = (["condition"], lambda c: c.cold().pipe(ops.do_while(c.cb("condition", lambda s: c.st["calls"].get("condition", 0) <= 2))))
    E["for_in"] = (["mapper"], lambda c: rx.for_in([1, 2, 3], c.cb("mapper", lambda x: c.inner())))
    E["publish_mapper"] = (["mapper"], lambda c: c.source("a").pipe(ops.publish(c.cb("mapper", lambda o: o))))
    E["replay_mapper"] = (["mapper"], lambda c: c.source("a").pipe(ops.replay(mapper=c.cb("mapper", lambda o: o), scheduler=c.sched)))
    E["multicast_mapper"] = (["subject_factory", "mapper"], lambda c: c.source("a").pipe(ops.multicast(
        subject_factory=c.cb("subject_factory", lambda s: Subject()), mapper=c.cb("mapper", lambda o: o))))
    E["create"] = (["subscribe"], lambda c: rx.create(c.cb("subscribe", lambda o, s: c.source("a").subscribe(o, scheduler=s))))
    E["start"] = (["func"], lambda c: rx.start(c.cb("func", lambda: 1), c.sched))
    E["to_async"] = (["func"], lambda c: rx.to_async(c.cb("func", lambda: 1), c.sched)())
    return E


NEEDS_ERROR_SOURCE = {"catch_handler", "on_error_resume_next"}
GROUP_ENTRIES = {"group_by_groups", "group_by_until_groups", "window_when_windows", "window_toggle_windows", "group_join_windows"}
_CAT_NAMES = None


def cat_names():
    global _CAT_NAMES
    if _CAT_NAMES is None:
        _CAT_NAMES = {k: v[0] for k, v in catalogue().items()}
    return _CAT_NAMES


def gen_timeline(rng, force_error=False, maxlen=6, force_complete=False, minlen=1):
    t = 200
    msgs = []
    for _ in range(max(minlen, rng.choice([1, 2, 3, 4, 5, maxlen]))):
        t += rng.choice([1, 5, 10, 10, 15])
        msgs.append([t, ["N", rng.choice([0, 1, 2, 3, 3])]])
    t += rng.choice([1, 10, 20])
    r = rng.random()
    if force_complete:
        msgs.append([t, ["C"]])
    elif force_error or r < 0.15:
        msgs.append([t, ["E", "src"]])
    elif r < 0.8:
        msgs.append([t, ["C"]])
    return msgs


def gen_inject(rng, entry, cbname):
    inner = []
    dt = 0
    for _ in range(rng.choice([0, 1, 1, 2])):
        dt += rng.choice([1, 5, 10])
        inner.append([dt, ["N", 100 + rng.randrange(3)]])
    dt += rng.choice([1, 5, 10])
    if rng.random() < 0.8:
        inner.append([dt, ["C"]])
    c = {"kind": "inject", "entry": entry, "cb": cbname, "k": rng.choice([0, 0, 1, 1, 2, 3, 4]),
         "mode": rng.choice(["subject", "subject", "hot", "cold"]),
         "a": gen_timeline(rng, entry in NEEDS_ERROR_SOURCE or (cbname == "on_error"), force_complete=(cbname == "on_completed")),
         "b": gen_timeline(rng), "inner": inner}
    r = rng.random()  # StopIteration / KeyError are over-weighted: iterator- and mapping-based operators catch them internally
    c["exc"] = "injected" if r < 0.3 else ("StopIteration" if r < 0.45 else ("KeyError" if r < 0.55 else rng.choice(EXC_KINDS[3:])))
    if any(w in cbname for w in ("comparer", "key", "predicate", "mapper", "accumulator")) and rng.random() < 0.35:
        # built-in classes a library is tempted to catch around comparisons / conversions ("incomparable", "not a number")
        c["exc"] = rng.choice(["TypeError", "TypeError", "ValueError", "ValueError", "AttributeError", "ZeroDivisionError"])
    if entry == "generate_with_relative_time":
        c["delay"] = rng.choice([0, 0, 5, 10])
    if entry in GROUP_ENTRIES:
        # the failure has to come while an earlier group/window is still open and subscribed, and the source must go on
        c["k"] = rng.choice([0, 1, 1, 1, 2, 2, 3])
        c["dur"] = rng.choice(["never", "never", "long", "inner"])
        c["mode"] = rng.choice(["subject", "hot", "hot"])
        c["a"] = gen_timeline(rng, maxlen=9, minlen=4)
        c["b"] = gen_timeline(rng, maxlen=9, minlen=4)
    return c


def cases(rng, tier):
    per = fw.tier_scale(tier, 60, 800)
    for op in MODEL_OPS:
        for _ in range(per):
            yield gen_model(rng, op)
    per_cb = fw.tier_scale(tier, 14, 150)
    for entry, cbs in cat_names().items():
        for cbname in cbs:
            for _ in range(per_cb * (3 if entry in GROUP_ENTRIES else 1)):
                yield gen_inject(rng, entry, cbname)


def _run_inject(case):
    ctx = Ctx(case)
    build = catalogue()[case["entry"]][1]
    holder = {}

    def do_sub(s, st):
        obs = build(ctx)
        holder["sub"] = obs.subscribe(ctx.on_next, ctx.on_error, ctx.on_completed, scheduler=ctx.sched)

    def do_disp(s, st):
        if "sub" in holder:
            holder["sub"].dispose()

    ctx.sched.schedule_absolute(200, do_sub)
    ctx.sched.schedule_absolute(1000, do_disp)
    for _ in range(60):
        try:
            ctx.sched.start()
            break
        except _Watchdog:
            raise
        except BaseException as e:  # noqa: an exception escaped into the scheduler (AssertionError included)
            ctx.escaped.append(["scheduler", int(ctx.sched.clock), err_name(e)])
    INF = 9223372036854775807
    open_subs = []
    for h in ctx.hots:
        for s in h.subscriptions:
            open_subs.append([int(s.subscribe), None if s.unsubscribe >= INF else int(s.unsubscribe)])
    st = ctx.st
    return {"out": ctx.out, "escaped": ctx.escaped, "fired": st["fired"], "fired_at": st["fired_at"], "term_before": st["term_before"],
            "calls_after_fire": st["after"], "calls": st["calls"], "subs": open_subs, "groups": ctx.groups,
            "same_obj": ctx.last_err is not None and ctx.last_err is st.get("exc_obj")}


def _with_alarm(fn, arg, secs):
    """run fn(arg) under a CPU-time watchdog (SIGPROF: user+system time of this process, so a stalled VM or an overloaded
    host cannot trip it; a runaway pipeline burns CPU and does).  impl runs in the main thread of the check process / of a
    forked pool worker."""
    import signal

    def on_alarm(signum, frame):
        raise _Watchdog()
    try:
        old = signal.signal(signal.SIGPROF, on_alarm)
    except ValueError:  # not in a main thread: fall back to the forked watchdog
        tag, res = fw.run_with_timeout(fn, (arg,), secs * 3)
        return res if tag == "ok" else None
    signal.setitimer(signal.ITIMER_PROF, secs)
    try:
        return fn(arg)
    except _Watchdog:
        return None
    finally:
        signal.setitimer(signal.ITIMER_PROF, 0)
        signal.signal(signal.SIGPROF, old)


def impl(case):
    if case["kind"] == "model":
        return impl_model(case)
    for _ in range(2):  # a real runaway repeats
        res = _with_alarm(_run_inject, case, 15.0)
        if res is not None:
            return res
    raise RuntimeError("watchdog: the pipeline did not finish within 15 s of CPU time, twice in a row")


def canon_model(case, resp):
    return C06.canon_model(case, resp)


# =========================================================================== oracle
def oracle(case, out):
    if out["escaped"]:
        return f"exception escaped to the emitter/scheduler: {out['escaped'][:3]}"
    seq = [n for _, n in out["out"]]
    if any(n[0] in ("E", "C") for n in seq[:-1]):
        return f"ill-formed output {seq}"
    if case["kind"] == "model":
        return None
    if out["fired"] and not out["term_before"]:
        name = f"inj_{case['cb']}_{case['k']}" + (f" ({case['exc']})" if case.get("exc", "injected") != "injected" else "")
        if not seq or seq[-1][0] != "E" or not out["same_obj"]:
            return f"injected {name} @{out['fired_at']} did not reach the subscriber as on_error (the very exception object): subscriber saw {out['out'][-3:]}"
        if out["out"][-1][0] != out["fired_at"]:
            return f"injected {name} raised @{out['fired_at']} but on_error delivered @{out['out'][-1][0]}"
        if out["calls_after_fire"]:
            return f"pipeline not stopped: {out['calls_after_fire']} user-callback invocation(s) after the failure (calls {out['calls']})"
        for sub, unsub in out["subs"]:
            if unsub is None or unsub > out["fired_at"]:
                return f"source subscription {sub}..{unsub} not released at the failure (@{out['fired_at']})"
        for i, g in enumerate(out.get("groups", [])):
            late = [x for x in g["log"] if x[0] > out["fired_at"]]
            if not g["terminated"]:
                return f"group/window {i} (opened @{g['opened']}) subscribed by the subscriber never terminated after the failure @{out['fired_at']}: {g['log'][-3:]}"
            if late:
                return f"group/window {i} still received {late[:3]} after the failure @{out['fired_at']}"
    for i, g in enumerate(out.get("groups", [])):
        kinds = [x[1] for x in g["log"]]
        if any(k in ("E", "C") for k in kinds[:-1]):
            return f"group/window {i} saw an ill-formed sequence {g['log']}"
    return None


def classify(case, why):
    if case["kind"] == "inject":
        if case["entry"] == "generate_with_relative_time" and "AssertionError" in why:
            return "C09-gwrt-assert"
        return f"C09-{case['entry']}-{case['cb']}"
    if case["op"] == "distinct":
        return "C09-distinct-comparer"
    return None


def nontrivial(case, out):
    if case["kind"] == "inject":
        return bool(out["fired"])
    if not out["out"] or out["out"][-1][1][0] != "E":
        return False
    nm = out["out"][-1][1][1]  # the subscriber ended with an error that came from a callback (table entry or built-in +, -, float())
    return not (nm in ("s0", "s1", "s2", "r0", "late", "SequenceContainsNoElementsError", "Exception"))


def bucket(case, out):
    yield "kind:" + case["kind"]
    yield "mode:" + case.get("mode", "hot")
    if case["kind"] == "inject":
        yield "entry:" + case["entry"]
        if out.get("groups") and out["fired"] and any(g["opened"] < out["fired_at"] for g in out["groups"]):
            yield "fired-with-open-subscribed-group"
        yield "fired" if out["fired"] else "not-fired"
        if out["fired"]:
            yield "fired:" + ("after-terminal" if out["term_before"] else "live")
            yield f"k:{case['k']}"
            yield "exc:" + case.get("exc", "injected")
    else:
        yield "op:" + case["op"]
        o = out["out"]
        if o and o[-1][1][0] == "E":
            yield "model:ends-with-error"


def shrink(case):
    if case["kind"] == "model":
        yield from C06.shrink(case)
        return
    for fld in ("a", "b", "inner"):
        for i in range(len(case[fld])):
            c = dict(case)
            c[fld] = case[fld][:i] + case[fld][i + 1:]
            yield c
    if case["mode"] != "subject":
        c = dict(case)
        c["mode"] = "subject"
        yield c


LEVEL_TEXT = ("Lean theorems (all inputs, all callbacks, no bound): for every operator of the aggregating family and the re-stated "
              "map/filter/take_while/distinct(repaired)/find handlers, no handler ever lets an exception propagate to the emitter (escapes = []), a "
              "raising callback invocation makes exactly the downstream call on_error(e), and (generic raise_delivered) such a call made while the "
              "source is live and the subscriber not terminated extends the subscriber's sequence by exactly that on_error, after which the run is "
              "stopped; a decided counter-example shows the pinned distinct handler escaping. The model is tied to /repo by differential execution "
              "over Subjects / hot observables; the rest of the catalogue (≈75 operator entries, ≈110 (operator, callback) pairs × k) is checked on "
              "the real code by an injection oracle written from the property text.")
LEVEL_NOTE = ("Lean part covers: map, filter, take_while, distinct (as repaired by fixes/C09_distinct_comparer.patch), find, scan, reduce, min_by/max_by/"
              "min/max, to_dict, contains, count/first/last/single(+_or_default)/some/all with predicate, sum/average with key mapper, sequence_equal. "
              "(B) is stated per handler state; the generic raise_end_to_end / pipe_raise_end_to_end theorems turn (A)+(B) into the end-to-end statement "
              "for any operator and any pipe, instantiated for every operator of the family. Over the comb/win builders' machines (imported read-only): "
              "raising projection of flat_map/concat_map/switch_map, catch handler, source factories of on_error_resume_next/concat/catch/while_do/"
              "for_in (exactly on_error e, all live sources closed in container order, machine stopped, nothing emitted afterwards) and all four "
              "mapper-raise paths of group_by_until (= errorAll: outer on_error, every open group's writer stopped, nothing escaped; release of the "
              "source subscription is NOT proved here — it needs the RefCount invariant, checked by the oracle). window_when / using raise paths "
              "are covered by the win builder's C18/C40 theorems, not re-proved here. Everything else in the catalogue "
              "(group_by_until, flat_map/switch_map/concat_map, delay/throttle/timeout_with_mapper, window_when/toggle, group_join/join, using, "
              "defer/case/if_then, generate(+relative time), while_do/do_while/for_in, catch, on_error_resume_next, do_action, starmap, publish/replay/"
              "multicast mappers, create/start/to_async, expand, partition …) is oracle-only (exploration on generated timelines, k ≤ 4). Downstream "
              "callbacks are assumed not to raise.")

"""Cold synchronous pipelines on the DEFAULT (current-thread / trampoline) scheduler, disposed from inside the k-th notification
(C03: "on a single thread").  Virtual time re-checks cancellation per item, so stale-cancellation bugs of the trampoline
(and producers that keep running user callbacks after dispose) only show here.

A case is {"op": "tramp", "tree": T, "k": k}; k = ordinal (0-based) of the subscriber notification during which the subscriber
disposes its subscription; k = -1 disposes right after subscribe() returned (before any queued producer step); k = None never.

T is a nested list:
  leaves   ["of", n] ["iter", n] ["range", n] ["gen", n] ["ret"] ["empty"] ["throw"] ["rep", n]   (n elements, tagged by leaf id)
  n-ary    ["merge", T...] ["concat", T...] ["zip", T...] ["clatest", T...] ["catch", T...] ["oern", T...] ["fjoin", T...] ["amb", T...] ["wlf", T...]
  unary    ["map", T] ["filter", T] ["fmap", T] ["cmap", T] ["smap", T] ["expand", T] ["scan", T] ["take", n, T] ["defer", T] ["repeat", T] ["retry", T]
           ["swith", T] ["do", T] ["duc", T] ["fin", T]
Every user-supplied function logs ["cb", name] when it runs; the subscriber logs ["N", v] / ["E", name] / ["C"].
"""
from __future__ import annotations

import threading

FLAT_LEAVES = ("of", "iter", "range", "gen")


def _leaf(tree, env, cb):
    import reactivex as rx

    ids = env["ids"]
    kind = tree[0]
    i = ids[0]
    ids[0] += 1
    n = tree[1] if len(tree) > 1 else 0
    base = 100 * i
    if kind == "of":
        return rx.of(*[base + j for j in range(n)])
    if kind == "iter":
        def gen():
            for j in range(n):
                cb(f"pull{i}")
                yield base + j
            cb(f"pull{i}")
        # a generator can be iterated once: one per subscription
        return rx.defer(lambda _: rx.from_iterable(gen()))
    if kind == "range":
        return rx.range(base, base + n)
    if kind == "gen":
        def cond(s):
            cb(f"cond{i}")
            return s < base + n

        def it(s):
            cb(f"iter{i}")
            return s + 1
        return rx.generate(base, cond, it)
    if kind == "ret":
        return rx.return_value(base)
    if kind == "empty":
        return rx.empty()
    if kind == "throw":
        return rx.throw(ValueError(f"leaf{i}"))
    if kind == "rep":
        return rx.repeat_value(base, n)
    raise ValueError(kind)


def _build(tree, env):
    import reactivex as rx
    from reactivex import operators as ops

    log, ids = env["log"], env["ids"]

    def cb(name):
        log.append(["cb", name])

    kind = tree[0]
    if kind in ("of", "iter", "range", "gen", "ret", "empty", "throw", "rep"):
        i = ids[0]
        leaf = _leaf(tree, env, cb)

        def opened(_):
            log.append(["sub", i])
            return leaf
        # every leaf subscription is logged when opened and when released (finally_action runs when its subscription is disposed)
        return rx.defer(opened).pipe(ops.finally_action(lambda: log.append(["rel", i])))
    if kind in ("merge", "concat", "zip", "clatest", "catch", "oern", "fjoin", "amb", "wlf"):
        first = ids[0]
        kids = [_build(t, env) for t in tree[1:]]
        env.setdefault("spans", []).append((kind, first, ids[0] - 1))   # ids of everything below this combinator
        if kind == "merge":
            return rx.merge(*kids)
        if kind == "concat":
            return rx.concat(*kids)
        if kind == "zip":
            return rx.zip(*kids).pipe(ops.map(lambda t: list(t)))
        if kind == "clatest":
            return rx.combine_latest(*kids).pipe(ops.map(lambda t: list(t)))
        if kind == "catch":
            return rx.catch(*kids)
        if kind == "fjoin":
            return rx.fork_join(*kids).pipe(ops.map(lambda t: list(t)))
        if kind == "amb":
            return rx.amb(*kids)
        if kind == "wlf":
            return kids[0].pipe(ops.with_latest_from(*kids[1:]), ops.map(lambda t: list(t))) if len(kids) > 1 else kids[0]
        if kind == "oern":
            j = ids[0]
            ids[0] += 1

            def mk(o):
                def factory(_exc):
                    cb(f"factory{j}")
                    return o
                return factory
            return rx.on_error_resume_next(*[mk(o) for o in kids])
    j = ids[0]
    ids[0] += 1
    if kind == "take":
        return _build(tree[2], env).pipe(ops.take(tree[1]))
    src = _build(tree[1], env)
    env.setdefault("spans", []).append((kind, j, ids[0] - 1))   # ids of this node and everything below it
    if kind == "map":
        def f(x):
            cb(f"map{j}")
            return x
        return src.pipe(ops.map(f))
    if kind == "filter":
        def p(x):
            cb(f"filter{j}")
            return True
        return src.pipe(ops.filter(p))
    if kind in ("fmap", "cmap", "smap"):
        def m(x):
            cb(f"{kind}{j}")
            return rx.of(x, x)
        return src.pipe({"fmap": ops.flat_map, "cmap": ops.concat_map, "smap": ops.switch_map}[kind](m))
    if kind == "expand":
        seen = [0]

        def e(x):
            cb(f"expand{j}")
            seen[0] += 1
            return rx.of(x) if seen[0] <= 4 else rx.empty()
        return src.pipe(ops.expand(e))
    if kind == "scan":
        def acc(a, x):
            cb(f"scan{j}")
            return x
        return src.pipe(ops.scan(acc, 0))
    if kind == "defer":
        def fac(_):
            cb(f"defer{j}")
            return src
        return rx.defer(fac)
    if kind == "repeat":
        return src.pipe(ops.repeat(2))
    if kind == "retry":
        return src.pipe(ops.retry(2))
    if kind == "swith":
        return src.pipe(ops.start_with(-1))
    if kind == "do":
        return src.pipe(ops.do_action(lambda x: cb(f"do{j}"), lambda e: cb(f"doE{j}"), lambda: cb(f"doC{j}")))
    if kind == "duc":
        def key(x):
            cb(f"duc{j}")
            return x
        return src.pipe(ops.distinct_until_changed(key))
    if kind == "fin":
        return src.pipe(ops.finally_action(lambda: log.append(["fin", j])))
    raise ValueError(kind)


def _run_once(tree, k):
    from reactivex.scheduler import CurrentThreadScheduler

    log = []
    env = {"log": log, "ids": [0]}
    st = {"n": 0, "sub": None, "want": False, "mark": None, "escaped": None}
    obs = _build(tree, env)

    def do_dispose():
        st["sub"].dispose()
        st["mark"] = len(log)   # everything logged from here on happened after dispose() returned

    def note(ev):
        log.append(ev)
        if k is not None and st["n"] == k and st["mark"] is None:
            if st["sub"] is not None:
                do_dispose()
            else:
                st["want"] = True   # notification delivered inside subscribe(): dispose as soon as the handle exists
        st["n"] += 1

    def outer(_s, _state=None):
        st["sub"] = obs.subscribe(lambda v: note(["N", v]), lambda e: note(["E", type(e).__name__]), lambda: note(["C"]))
        if st["want"] or k == -1:
            do_dispose()

    def body():
        try:
            CurrentThreadScheduler.singleton().schedule(outer)
        except BaseException as e:  # noqa: BLE001
            st["escaped"] = type(e).__name__

    t = threading.Thread(target=body)   # a fresh thread: a fresh thread-local trampoline
    t.start()
    t.join(20)
    return {"log": log, "mark": st["mark"], "escaped": st["escaped"], "hung": t.is_alive(), "spans": env.get("spans", [])}


def run(case):
    base = _run_once(case["tree"], None)
    out = _run_once(case["tree"], case["k"])
    out["base_len"] = len(base["log"])
    out["base"] = base["log"]
    return out


def oracle(case, out):
    if out.get("hung"):
        return "pipeline did not finish within 20 s"
    m = out["mark"]
    if m is None:
        return released(out)
    # finally actions are release callbacks: when the terminating notification was delivered inside an inner subscribe() call they
    # run as soon as that subscription is handed over (same call stack, right after dispose() returned) - that is C40's business
    late = [e for e in out["log"][m:] if e[0] not in ("fin", "rel")]
    if late:
        return f"after dispose() returned (during notification {case['k']}): {late[:4]} ran/was delivered"
    return released(out)


def released(out):
    """sources freed: once the run is over (terminal delivered or subscription disposed, trampoline drained) every leaf subscription
    that was opened has been released exactly once."""
    log = out["log"]
    ended = out["mark"] is not None or any(e[0] in ("E", "C") for e in log)
    if not ended or out.get("hung") or out.get("escaped"):
        return None
    opened, rel = {}, {}
    for e in log:
        if e[0] == "sub":
            opened[e[1]] = opened.get(e[1], 0) + 1
        elif e[0] == "rel":
            rel[e[1]] = rel.get(e[1], 0) + 1
    for i in sorted(set(opened) | set(rel)):
        if opened.get(i, 0) != rel.get(i, 0):
            return f"leaf {i}: {opened.get(i, 0)} subscription(s) opened, {rel.get(i, 0)} released by the end of the run"
    return None


def _ident(ev):
    if ev[0] == "fin":
        return ev[1]
    if ev[0] == "cb":
        name = ev[1]
        i = len(name)
        while i and name[i - 1].isdigit():
            i -= 1
        return int(name[i:])
    return None


def classify(case, why):
    """Known finding C03-expand-immediate-sources: `expand` hands ImmediateScheduler to the sources it subscribes when the
    subscriber supplied none (reactivex/operators/_expand.py: `scheduler = scheduler or ImmediateScheduler.singleton()`), so a
    synchronous source runs to completion INSIDE expand's `work.subscribe(...)`, before `sad.disposable` is assigned: a dispose
    issued from inside a notification cannot reach it, and the source's callbacks and expand's own mapper (called after
    `observer.on_next(value)` returned) keep running.  Only late events that belong to an expand node or its sources qualify."""
    out = run(case)
    if out["mark"] is None:
        return None
    late = [ev for ev in out["log"][out["mark"]:] if ev[0] not in ("fin", "rel")]
    if not late:
        return None
    # Known finding C03-subscribe-loop-after-sync-terminal: combine_latest / zip / fork_join / with_latest_from / amb subscribe their sources in
    # a loop; when an earlier source terminates the result synchronously inside its subscribe() (throw/empty on the immediate scheduler)
    # and the subscriber disposes inside that notification, the loop still subscribes the remaining sources (and releases them at once):
    # only leaf-subscription markers below such a combinator qualify.
    loops = [(a, b) for kind, a, b in out["spans"] if kind in ("clatest", "zip", "fjoin", "wlf", "amb")]
    expands = [(a, b) for kind, a, b in out["spans"] if kind == "expand"]
    node_span = {a: (a, b) for kind, a, b in out["spans"] if kind not in N_ARY or kind == "oern"}
    hit = set()
    for ev in late:
        i = ev[1] if ev[0] == "sub" else _ident(ev)
        if i is None:
            return None
        # expand finding: the event belongs to an expand node, to its sources, or to a stage between an expand and the subscriber
        # (those stages sit inside expand's synchronous subscribe and are not connected to the subscription chain yet either)
        sp = node_span.get(i, (i, i))
        if any(a <= i <= b or (sp[0] <= a <= sp[1]) for a, b in expands):
            hit.add("C03-expand-immediate-sources")
        # loop finding: a subscribe-time event (leaf subscription marker, defer factory) below a looping combinator
        elif (ev[0] == "sub" or (ev[0] == "cb" and ev[1].startswith("defer"))) and any(a <= i <= b for a, b in loops):
            hit.add("C03-subscribe-loop-after-sync-terminal")
        else:
            return None
    return sorted(hit)[0] if hit else None


def nontrivial(case, out):
    m = out["mark"]
    return m is not None and len(events(out["base"])) > len(events(out["log"][:m]))


def flat(tree):
    return tree[0] == "merge" and all(t[0] in FLAT_LEAVES for t in tree[1:])


# ---------------------------------------------------------------- generation
N_ARY = ["merge", "concat", "zip", "clatest", "catch", "oern", "fjoin", "amb", "wlf"]
UNARY = ["map", "filter", "fmap", "cmap", "smap", "expand", "scan", "defer", "repeat", "retry", "swith", "do", "duc", "fin"]
LEAVES = ["of", "iter", "range", "gen", "ret", "empty", "throw", "rep"]


def gen_tree(rng, depth):
    r = rng.random()
    if depth <= 0 or r < 0.3:
        kind = rng.choice(LEAVES if rng.random() < 0.5 else list(FLAT_LEAVES))
        return [kind, rng.randrange(0, 4)] if kind in ("of", "iter", "range", "gen", "rep") else [kind]
    if r < 0.7:
        return [rng.choice(N_ARY)] + [gen_tree(rng, depth - 1) for _ in range(rng.randrange(1, 4))]
    if r < 0.75:
        return ["take", rng.randrange(0, 4), gen_tree(rng, depth - 1)]
    return [rng.choice(UNARY), gen_tree(rng, depth - 1)]


def gen_flat(rng):
    return ["merge"] + [[rng.choice(FLAT_LEAVES), rng.randrange(0, 4)] for _ in range(rng.randrange(0, 5))]


def events(log):
    """the log without the harness's own open/release markers"""
    return [e for e in log if e[0] not in ("sub", "rel")]


def count_notifications(tree):
    return sum(1 for e in _run_once(tree, None)["log"] if e[0] in ("N", "E", "C"))

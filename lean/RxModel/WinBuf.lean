import RxModel.Win
/-!
# WinBuf — buffers = window ∘ flat_map(to_list)  (`reactivex/operators/_buffer.py`, `_bufferwithtime.py`,
`_bufferwithtimeorcount.py`) and the generic runner of a window machine

`buffer_x = source.pipe(window_x, flat_map(to_list()))` (+ `filter(len > 0)` for `buffer_with_count`).
The view below is the L1 fold of `to_list` (one accumulator per inner window) composed with `merge_all`
(`is_stopped`, `len(group)`): it consumes the window machine's log — the `to_list` observer of a window is
subscribed inside the outer `on_next`, exactly like the harness' recorder — and produces what the buffer
subscriber sees.  When the view delivers a terminal, the downstream `AutoDetachObserver` disposes the whole
chain (outer subscription and every inner one): the runner feeds a `dispose true` event at that point.
-/

namespace Win

/-- a window machine: timed step, its log, the due time of its armed timer (if it owns one). -/
structure Mach (σ α : Type) where
  step : σ → Nat → Ev α → σ
  log : σ → List (Nat × Out α)
  pending : σ → Option Nat := fun _ => none

inductive BOut (α : Type) where
  | outer (n : Notif (List α))
  | sub (k : Nat) | unsub (k : Nat) | escaped (e : Err)
deriving Repr, BEq, DecidableEq

/-- the elements the subscriber of window `id` (the harness' recorder, or `to_list`'s observer) has received so far. -/
def itemsOf {α : Type} (l : List (Nat × Out α)) (id : Nat) : List α :=
  l.filterMap fun
    | (_, .win i (.next x)) => if i = id then some x else none
    | _ => none

/-- the terminal of window `id` has been delivered to its subscriber. -/
def endLogged {α : Type} (l : List (Nat × Out α)) (id : Nat) : Prop :=
  ∃ t n, (t, Out.win id n) ∈ l ∧ n.isTerminal = true

structure BufView (α : Type) where
  seen : List (Nat × Out α) := []     -- the window-level notifications consumed so far
  active : Nat := 0                   -- len(group) - 1 : inner to_list subscriptions still running
  outerDone : Bool := false           -- merge_all is_stopped
  stopped : Bool := false             -- downstream AutoDetachObserver
  out : List (Nat × BOut α) := []
deriving Repr

namespace BufView
variable {α : Type}

def emit (v : BufView α) (t : Nat) (o : BOut α) : BufView α := { v with out := v.out ++ [(t, o)] }

/-- one entry of the window log.  `to_list` of window `id` has accumulated exactly the elements its observer
received (`itemsOf`), and emits them when the window completes.  `nonEmpty` = the `filter(len > 0)` of
`buffer_with_count`. -/
def feed (nonEmpty : Bool) (v0 : BufView α) (ent : Nat × Out α) : BufView α :=
  let v := { v0 with seen := v0.seen ++ [ent] }
  match ent with
  | (t, .sub k) => v.emit t (.sub k)
  | (t, .unsub k) => v.emit t (.unsub k)
  | (t, .escaped e) => v.emit t (.escaped e)
  | (_, .outer (.next _)) =>
    if v.stopped || v.outerDone then v else { v with active := v.active + 1 }
  | (_, .win _ (.next _)) => v
  | (t, .win id .completed) =>
    if v.stopped then v
    else
      let l := itemsOf v0.seen id
      let v := if nonEmpty && l.isEmpty then v else v.emit t (.outer (.next l))
      let v := { v with active := v.active - 1 }
      if v.outerDone && v.active == 0 then { v.emit t (.outer .completed) with stopped := true } else v
  | (t, .win _ (.error e)) =>
    if v.stopped then v else { v.emit t (.outer (.error e)) with stopped := true }
  | (t, .outer .completed) =>
    if v.stopped || v.outerDone then v
    else
      let v := { v with outerDone := true }
      if v.active == 0 then { v.emit t (.outer .completed) with stopped := true } else v
  | (t, .outer (.error e)) =>
    if v.stopped || v.outerDone then v else { v.emit t (.outer (.error e)) with stopped := true }

end BufView

namespace Mach
variable {σ α : Type}

/-- window run: events in order; an armed timer fires before an event only if it is due strictly earlier
(hot sources and the harness' dispose action were scheduled first, so they win a tie); after the last
event the timers run on until `horizon`. -/
def run (m : Mach σ α) (horizon : Nat) : Nat → σ → List (Nat × Ev α) → σ
  | 0, s, _ => s
  | fuel + 1, s, [] =>
    match m.pending s with
    | some d => if d ≤ horizon then run m horizon fuel (m.step s d .tick) [] else s
    | none => s
  | fuel + 1, s, (t, e) :: es =>
    match m.pending s with
    | some d => if d < t then run m horizon fuel (m.step s d .tick) ((t, e) :: es) else run m horizon fuel (m.step s t e) es
    | none => run m horizon fuel (m.step s t e) es

/-- after a step: push the new log entries through the view; a terminal delivered downstream disposes everything. -/
def bufAfter (m : Mach σ α) (nonEmpty : Bool) (n0 : Nat) (t : Nat) (s : σ) (v : BufView α) : σ × BufView α :=
  let v' := ((m.log s).drop n0).foldl (BufView.feed nonEmpty) v
  if v'.stopped && !v.stopped then
    let s' := m.step s t (.dispose true)
    (s', ((m.log s').drop (m.log s).length).foldl (BufView.feed nonEmpty) v')
  else (s, v')

/-- buffer run: the same machine with the `flat_map(to_list)` view downstream. -/
def runBuf (m : Mach σ α) (nonEmpty : Bool) (horizon : Nat) : Nat → σ × BufView α → List (Nat × Ev α) → σ × BufView α
  | 0, sv, _ => sv
  | fuel + 1, (s, v), [] =>
    match m.pending s with
    | some d => if d ≤ horizon then runBuf m nonEmpty horizon fuel (bufAfter m nonEmpty (m.log s).length d (m.step s d .tick) v) [] else (s, v)
    | none => (s, v)
  | fuel + 1, (s, v), (t, e) :: es =>
    let e := match e with | .dispose _ => Ev.dispose true | e => e
    match m.pending s with
    | some d =>
      if d < t then runBuf m nonEmpty horizon fuel (bufAfter m nonEmpty (m.log s).length d (m.step s d .tick) v) ((t, e) :: es)
      else runBuf m nonEmpty horizon fuel (bufAfter m nonEmpty (m.log s).length t (m.step s t e) v) es
    | none => runBuf m nonEmpty horizon fuel (bufAfter m nonEmpty (m.log s).length t (m.step s t e) v) es

/-- the buffer subscriber's log for a machine started in `s0` at `t0` (whose initial log is fed first; a terminal
delivered during `subscribe` disposes the returned subscription as soon as it is assigned). -/
def bufLog (m : Mach σ α) (nonEmpty : Bool) (horizon fuel t0 : Nat) (s0 : σ) (evs : List (Nat × Ev α)) : List (Nat × BOut α) :=
  (runBuf m nonEmpty horizon fuel (bufAfter m nonEmpty 0 t0 s0 {}) evs).2.out

end Mach

def Cnt.mach (count skip : Nat) : Mach (Cnt α) α where
  step s t e := Cnt.step count skip { s with b := { s.b with now := t } } e
  log s := s.b.log

end Win

namespace Win

/-- run a machine over an explicit event list (timer firings are explicit `.tick` events). -/
def Mach.fold {σ α : Type} (m : Mach σ α) (s : σ) (evs : List (Nat × Ev α)) : σ :=
  evs.foldl (fun s te => m.step s te.1 te.2) s

/-- **The routing specification.** `routed m base openOf s evs id` = the source elements of `evs` that arrive while
the operator still listens to the source and has window `id` in its open set `openOf` (and `id` is a window that
was not terminated already) — in arrival order. -/
def routed {σ α : Type} (m : Mach σ α) (base : σ → Base α) (openOf : σ → List Nat) :
    σ → List (Nat × Ev α) → Nat → List α
  | _, [], _ => []
  | s, (t, e) :: es, id =>
    (match e with
     | .src 0 (.next x) =>
       if (base s).live.contains 0 ∧ id ∈ openOf s ∧ id < (base s).wins.length ∧ (base s).endedOf id = none then [x] else []
     | _ => []) ++ routed m base openOf (m.step s t e) es id

end Win

namespace Win

/-- the explicit schedule `Mach.run` follows: the input events with the machine's timer firings inserted. -/
def Mach.sched {σ α : Type} (m : Mach σ α) (horizon : Nat) : Nat → σ → List (Nat × Ev α) → List (Nat × Ev α)
  | 0, _, _ => []
  | fuel + 1, s, [] =>
    match m.pending s with
    | some d => if d ≤ horizon then (d, .tick) :: sched m horizon fuel (m.step s d .tick) [] else []
    | none => []
  | fuel + 1, s, (t, e) :: es =>
    match m.pending s with
    | some d =>
      if d < t then (d, .tick) :: sched m horizon fuel (m.step s d .tick) ((t, e) :: es)
      else (t, e) :: sched m horizon fuel (m.step s t e) es
    | none => (t, e) :: sched m horizon fuel (m.step s t e) es

end Win

/-!
# Struct.Captures — capture table of mutable objects (C04, C44) and the frame model

`RxGen/Captures.lean` is regenerated from `/repo/reactivex` by `harness/xlate/captures.py` on every
run: one `Entry` per mutable object of every operator / factory, with the scope level that creates
it and the deepest scope level that mutates or consumes it.

Levels: 0 = factory call (`ops.x(...)`, `rx.range(...)`), 1 = application to a source
(`op(source)`, body of a `@curry_flip` function), 2 = subscription (function given to
`Observable(...)` / `defer`), 3 = event (handlers, scheduled actions, callbacks).

`coldOk` (C04) and `factoryOk` (C44) are the decidable row checks, including the explicit,
justified allow-lists.  `Sys` is the abstract model ⟨shared state, per-instance state⟩ on which
the frame theorems (`RxProofs/Lemmas/StructFrame.lean`) are proved.
-/

namespace Struct.Captures

inductive Kind where
  | oneshot | subject | container | disposable | cell | object | unknown
deriving DecidableEq, Repr

structure Entry where
  file : String
  func : String
  path : String
  name : String
  kind : Kind
  created : Nat
  used : Option Nat
  escapes : Bool
  isOperator : Bool
deriving DecidableEq, Repr

def Entry.usedAtLeast (e : Entry) (l : Nat) : Bool :=
  match e.used with
  | some u => decide (l ≤ u)
  | none => false

/-- created above the subscription level and mutated/consumed at or below it, or escaping into an
observable / operator constructor -/
def coldBad (e : Entry) : Bool := decide (e.created < 2) && (e.usedAtLeast 2 || e.escapes)

/-- created when the operator function is built and mutated/consumed when it is applied,
subscribed or run, or escaping into an operator constructor -/
def factoryBad (e : Entry) : Bool :=
  e.isOperator && e.created == 0 && (e.usedAtLeast 1 || e.escapes)

/-- C04 excludes multicasting by its statement ("publish/share/replay/ref_count and subjects are
excluded"): the state of these files is shared between subscriptions on purpose (C24 is about it). -/
def multicastFiles : List String :=
  ["operators/_publish.py", "operators/_publishvalue.py", "operators/_replay.py", "operators/_multicast.py",
   "operators/connectable/_refcount.py", "observable/connectableobservable.py"]

/-- The explicit allow-list of C04, `(file, scope path, object)`; each entry re-verified by
reading the code (justification beside it). -/
def coldAllow : List (String × String × String) :=
  [ -- `hot` is the marble *hot* observable: one timeline shared by all subscribers, by definition
    ("observable/marbles.py", "hot", "observers"),
    ("observable/marbles.py", "hot", "is_stopped"),
    -- `gen = infinite()`: an endless counter iterated as `for _ in gen` — its values are discarded
    -- and it never ends, so which subscription advances it is unobservable
    ("operators/_repeat.py", "repeat_", "gen"),
    -- `duration = scheduler.to_timedelta(duration)`: `Scheduler.to_timedelta` is a classmethod that
    -- returns a timedelta unchanged, so every write after the first stores the value already there
    ("operators/_skiplastwithtime.py", "skip_last_with_time_", "duration"),
    ("operators/_takelastwithtime.py", "take_last_with_time_", "duration"),
    -- `to_future(source)` is not an observable: it subscribes once, when applied, and returns a Future
    ("operators/_tofuture.py", "to_future_/to_future", "has_value"),
    ("operators/_tofuture.py", "to_future_/to_future", "last_value"),
    -- `to_async(f)(*args)` / `start(f)` run `f` immediately and hand out the AsyncSubject: hot by definition
    ("observable/toasync.py", "to_async_/wrapper", "subject") ]

/-- The allow-list of C44 (`(file, scope path, object)`): the idempotent `to_timedelta` write above. -/
def factoryAllow : List (String × String × String) :=
  [ ("operators/_skiplastwithtime.py", "skip_last_with_time_", "duration") ]

def coldOk (e : Entry) : Bool :=
  !coldBad e || multicastFiles.contains e.file || coldAllow.contains (e.file, e.path, e.name)

def factoryOk (e : Entry) : Bool :=
  !factoryBad e || factoryAllow.contains (e.file, e.path, e.name)

/-- rows of the table that violate C04 / C44 (what the driver reports to the harness) -/
def coldViolations (t : List Entry) : List Entry := t.filter (fun e => !coldOk e)
def factoryViolations (t : List Entry) : List Entry := t.filter (fun e => !factoryOk e)

/-- allow-list entries must be *used*: a stale entry (the code no longer has that object, or it is
no longer flagged) is reported, so that the list cannot silently outlive its justification -/
def staleAllow (t : List Entry) (allow : List (String × String × String)) (bad : Entry → Bool) :
    List (String × String × String) :=
  let flagged := (t.filter bad).map (fun e => (e.file, e.path, e.name))
  allow.filter (fun a => !flagged.contains a)

end Struct.Captures

/-! ## The frame model -/
namespace Struct.Frame

/-- A family of instances sharing one state: `G` is the shared state (the built-time state `Σ` of an
observable for C04; the factory-time state of an operator function for C44), `L` the state of one
instance (one subscription; one application to a source), `A` what can happen to an instance
(a notification from upstream at a time relative to the instance's creation, a timer, a dispose,
for C44 also subscribe/connect), `O` what it emits. -/
structure Sys (G L A O : Type) where
  create : G → L × G
  step : G → L → A → G × L × List O
  /-- what an instance emits while it is being created (`start_with` values, `empty()` of `take(0)`) -/
  createOut : G → List O := fun _ => []

inductive Act (A : Type) where
  | create (i : Nat)
  | act (i : Nat) (a : A)
deriving Repr, DecidableEq

/-- instance store -/
def lookup {L} : List (Nat × L) → Nat → Option L
  | [], _ => none
  | (j, l) :: m, i => if j = i then some l else lookup m i

def update {L} (m : List (Nat × L)) (i : Nat) (l : L) : List (Nat × L) := (i, l) :: m

variable {G L A O : Type}

/-- the whole family, any interleaving of creations (subscriptions) and per-instance actions -/
def runG (s : Sys G L A O) : G → List (Nat × L) → List (Act A) → List (Nat × O)
  | _, _, [] => []
  | g, m, .create i :: rest =>
    (s.createOut g).map (fun o => (i, o)) ++ runG s (s.create g).2 (update m i (s.create g).1) rest
  | g, m, .act i a :: rest =>
    match lookup m i with
    | none => runG s g m rest
    | some l =>
      (s.step g l a).2.2.map (fun o => (i, o)) ++ runG s (s.step g l a).1 (update m i (s.step g l a).2.1) rest

def outputsOf (i : Nat) (r : List (Nat × O)) : List O :=
  r.filterMap (fun p => if p.1 = i then some p.2 else none)

/-- one instance alone: `none` = (re)create, `some a` = action -/
def runI (s : Sys G L A O) (g : G) : Option L → List (Option A) → List O
  | _, [] => []
  | _, none :: rest => s.createOut g ++ runI s g (some (s.create g).1) rest
  | none, some _ :: rest => runI s g none rest
  | some l, some a :: rest => (s.step g l a).2.2 ++ runI s g (some (s.step g l a).2.1) rest

/-- what instance `i` sees of a global schedule -/
def restrict (i : Nat) : List (Act A) → List (Option A)
  | [] => []
  | .create j :: rest => if j = i then none :: restrict i rest else restrict i rest
  | .act j a :: rest => if j = i then some a :: restrict i rest else restrict i rest

/-- one action of the family, returning the new shared state and store too -/
def stepG (s : Sys G L A O) (g : G) (m : List (Nat × L)) : Act A → G × List (Nat × L) × List (Nat × O)
  | .create i => ((s.create g).2, update m i (s.create g).1, (s.createOut g).map (fun o => (i, o)))
  | .act i a =>
    match lookup m i with
    | none => (g, m, [])
    | some l => ((s.step g l a).1, update m i (s.step g l a).2.1, (s.step g l a).2.2.map (fun o => (i, o)))

/-- a whole family as ONE instance of a family one level up (C44: an application of an operator to a
source, with all the subscriptions made to the result): the shared state is the same `G`, the
instance state is the store of the inner instances, its actions are the inner family's actions. -/
def Sys.lift (s : Sys G L A O) : Sys G (List (Nat × L)) (Act A) (Nat × O) where
  create := fun g => ([], g)
  step := fun g m a => stepG s g m a

/-- frame condition: the shared state is never written -/
def Framed (s : Sys G L A O) : Prop :=
  (∀ g, (s.create g).2 = g) ∧ (∀ g l a, (s.step g l a).1 = g)

end Struct.Frame

import RxModel.Core
/-!
# Synchronous producers (C03 `fromIterable_polls`, C14)

`from_iterable_` (`reactivex/observable/fromiterable.py`): one scheduled action runs
`while not disposed: value = next(iterator); observer.on_next(value)`; the flag is set by the
`Disposable(dispose)` it returns.  `disposedDuring i` says whether the downstream disposes the
subscription during its `i`-th `on_next` (early termination by take/first/…, or the user).
Result: the notifications emitted and the number of `next(iterator)` calls (pulls).
-/
namespace Pipe

def fromIter {α} (disposedDuring : Nat → Bool) : Nat → Bool → List α → List (Notif α) × Nat
  | _, true, _ => ([], 0)                                   -- `while not disposed` fails: no further pull
  | _, false, [] => ([.completed], 1)                       -- next() raises StopIteration → on_completed
  | i, false, x :: xs =>
    let r := fromIter disposedDuring (i + 1) (disposedDuring i) xs
    (.next x :: r.1, r.2 + 1)

end Pipe

import RxModel.TimedBase
/-!
# TimedRate — rate-limiting operators (C16)

`_throttlefirst.py`, `_debounce.py` (`debounce_`), `_sample.py`.  Two-stream runs as in `TimedWin.lean`.
The timers of debounce are armed inside `on_next`, the sampler is subscribed after the source: in every case the
source message wins a tie against the timer (`due < t` is the test for "the timer runs first").
-/

namespace Timed

/-! ## throttle_first
```
last_on_next = None
on_next(x): now = scheduler.now
            if not last_on_next or now - last_on_next >= duration: last_on_next = now; emit
```
(`on_error` / `on_completed` are the observer's own.)  `now - last >= w` is written `last + w ≤ now`.
`subscribe` raises `ValueError` for a duration `<= 0`; `Observable.subscribe` turns that into `on_error`. -/
def tfOnNext {α} (w now : Nat) (last : Option Nat) (x : α) : Option Nat × List (Notif α) :=
  match last with
  | none => (some now, [.next x])
  | some l => if l + w ≤ now then (some now, [.next x]) else (some l, [])

def tfRun {α} (w : Nat) : Option Nat → TL α → TL α
  | _, [] => []
  | last, (t, .next x) :: rest => at_ t (tfOnNext w t last x).2 ++ tfRun w (tfOnNext w t last x).1 rest
  | _, (t, n) :: _ => [(t, n)]

def throttleFirst {α} (w sub : Nat) (msgs : TL α) : TL α :=
  if w = 0 then [(sub, .error "ValueError")] else tfRun w none msgs

/-! ## debounce
```
cancelable = SerialDisposable(); has_value=[False]; value=[None]; _id=[0]
on_next(x):   has_value=True; value=x; _id+=1; current_id=_id; cancelable.disposable = schedule_relative(duetime, action)
   action:    if has_value and _id == current_id: observer.on_next(value)
              has_value = False
on_error(e):  cancelable.dispose(); observer.on_error(e); has_value=False; _id+=1
on_completed: cancelable.dispose(); if has_value: observer.on_next(value)
              observer.on_completed(); has_value=False; _id+=1
``` -/
structure DebSt (α : Type) where
  id : Nat := 0
  hasValue : Bool := false
  value : Option α := none
  timer : Option (Nat × Nat) := none       -- (due, current_id) held by the SerialDisposable

def debEmit {α} (s : DebSt α) : List (Notif α) :=
  match s.value with
  | some v => [.next v]
  | none => []

def debOnNext {α} (d now : Nat) (s : DebSt α) (x : α) : DebSt α :=
  { id := s.id + 1, hasValue := true, value := some x, timer := some (now + d, s.id + 1) }

def debAction {α} (s : DebSt α) (cur : Nat) : DebSt α × List (Notif α) :=
  ({ s with hasValue := false, timer := none }, if s.hasValue && s.id == cur then debEmit s else [])

def debOnError {α} (s : DebSt α) (e : Err) : DebSt α × List (Notif α) :=
  ({ s with timer := none, hasValue := false, id := s.id + 1 }, [.error e])

def debOnCompleted {α} (s : DebSt α) : DebSt α × List (Notif α) :=
  ({ s with timer := none, hasValue := false, id := s.id + 1 },
   (if s.hasValue then debEmit s else []) ++ [.completed])

/-- run the pending timer if the scheduler reaches it before a source message at `t` -/
def debAdvance {α} (s : DebSt α) (t : Nat) : DebSt α × TL α :=
  match s.timer with
  | some (due, cur) => if due < t then ((debAction s cur).1, at_ due (debAction s cur).2) else (s, [])
  | none => (s, [])

def debRun {α} (d : Nat) : DebSt α → TL α → TL α
  | s, [] =>
    match s.timer with
    | some (due, cur) => at_ due (debAction s cur).2
    | none => []
  | s, (t, n) :: rest =>
    (debAdvance s t).2 ++
      match n with
      | .next x => debRun d (debOnNext d t (debAdvance s t).1 x) rest
      | .error e => at_ t (debOnError (debAdvance s t).1 e).2
      | .completed => at_ t (debOnCompleted (debAdvance s t).1).2

/-! ## sample
```
at_end=False; has_value=False; value=None
sample_subscribe (sampler on_next AND on_completed): if has_value: has_value=False; observer.on_next(value)
                                                     if at_end: observer.on_completed()
on_next(v): has_value=True; value=v          on_completed: at_end=True        on_error / sampler on_error: observer.on_error
```
`tf` = the sampler's events were scheduled before the source's (only: cold source, hot sampler); otherwise the
source wins a tie.  The sampler is given as its list of events (`sample(period)`: `interval(period)`, ticks at `sub + k·period` below the
disposal time; `sample(observable)`: the sampler's elements and completion are ticks, its error an error). -/
inductive SampEv where
  | tick
  | err (e : Err)
deriving Repr, DecidableEq

structure SampSt (α : Type) where
  hasValue : Bool := false
  value : Option α := none
  atEnd : Bool := false

def sampTick {α} (s : SampSt α) : SampSt α × List (Notif α) :=
  ({ s with hasValue := false },
   (if s.hasValue then (match s.value with | some v => [Notif.next v] | none => []) else [])
     ++ (if s.atEnd then [.completed] else []))

def sampOnNext {α} (s : SampSt α) (v : α) : SampSt α := { s with hasValue := true, value := some v }
def sampOnCompleted {α} (s : SampSt α) : SampSt α := { s with atEnd := true }

def sampRun {α} (tf : Bool) : SampSt α → TL α → List (Nat × SampEv) → TL α
  | _, [], [] => []
  | s, (t, n) :: rest, [] =>
    match n with
    | .next v => sampRun tf (sampOnNext s v) rest []
    | .error e => [(t, .error e)]
    | .completed => sampRun tf (sampOnCompleted s) [] []        -- the source's subscription is stopped
  | s, [], (k, ev) :: ticks =>
    match ev with
    | .tick => at_ k (sampTick s).2 ++ (if s.atEnd then [] else sampRun tf (sampTick s).1 [] ticks)
    | .err e => [(k, .error e)]
  | s, (t, n) :: rest, (k, ev) :: ticks =>
    if timerBefore tf k t then                      -- the sampler's event runs first (ties: `timerBefore`)
      match ev with
      | .tick => at_ k (sampTick s).2 ++ (if s.atEnd then [] else sampRun tf (sampTick s).1 ((t, n) :: rest) ticks)
      | .err e => [(k, .error e)]
    else
      match n with
      | .next v => sampRun tf (sampOnNext s v) rest ((k, ev) :: ticks)
      | .error e => [(t, .error e)]
      | .completed => sampRun tf (sampOnCompleted s) [] ((k, ev) :: ticks)
termination_by _ msgs ticks => msgs.length + ticks.length

/-- ticks of `interval(p)` subscribed at `sub`, disposed at `stop`: `sub + p, sub + 2p, … < stop` (`p ≥ 1`) -/
def intervalTicks (sub p stop : Nat) : List (Nat × SampEv) :=
  ((List.range (stop - sub)).filter (fun i => decide (0 < i) && decide (i % p = 0))).map (fun i => (sub + i, .tick))

/-- the events of a sampler observable as seen by its subscription -/
def samplerEvents {α} (seen : TL α) : List (Nat × SampEv) :=
  seen.map (fun m => match m.2 with | .error e => (m.1, .err e) | _ => (m.1, .tick))

/-! ## Declarative rules -/

/-- throttle_first: an emitted element opens a window of length `w`; elements arriving inside it are dropped, the
first one at or after its end is emitted (and opens the next window); a terminal passes at once. -/
def tfSpec {α} (w : Nat) : TL α → TL α
  | [] => []
  | (t, .next x) :: rest =>
    (t, .next x) :: tfSpec w (rest.dropWhile (fun m => isNext m.2 && decide (m.1 < t + w)))
  | (t, n) :: _ => [(t, n)]
termination_by l => l.length
decreasing_by
  simp only [List.length_cons]
  exact Nat.lt_succ_of_le (List.dropWhile_sublist _).length_le

/-- debounce: look at the notification following an element at `t`: later than `t + d` (or none) — the element is
emitted at `t + d`; a completion within `t + d` — it is flushed at the completion; an element or an error within
`t + d` — it is dropped. -/
def debSpec {α} (d : Nat) : TL α → TL α
  | [] => []
  | (t, .error e) :: _ => [(t, .error e)]
  | (t, .completed) :: _ => [(t, .completed)]
  | (t, .next x) :: rest =>
    match rest with
    | [] => [(t + d, .next x)]
    | (t', n') :: _ =>
      if t + d < t' then (t + d, .next x) :: debSpec d rest
      else match n' with
        | .completed => (t', .next x) :: debSpec d rest
        | _ => debSpec d rest

/-- the latest element of a window (`pend` if the window has none) -/
def latestOf {α} (pend : Option α) (pre : TL α) : Option α :=
  (nexts pre).foldl (fun _ e => some e.2) pend

def emitAt {α} (k : Nat) : Option α → TL α
  | some v => [(k, .next v)]
  | none => []

/-- sample: at a tick `k` look at the source notifications not yet consumed that precede the tick (`t ≤ k`; `t < k` if
the sampler wins ties): an error among them was delivered at its own time and ends everything; otherwise the latest
element among them (if any; `pend` = an element already waiting) is emitted at `k`, followed by the completion if the
source completed in that window. -/
def sampSpec {α} (tf : Bool) : Option α → TL α → List (Nat × SampEv) → TL α
  | _, msgs, [] =>
    match firstTerminal msgs with
    | some (t, .error e) => [(t, .error e)]
    | _ => []
  | pend, msgs, (k, ev) :: ticks =>
    let pre := msgs.takeWhile (fun m => !timerBefore tf k m.1)
    let post := msgs.dropWhile (fun m => !timerBefore tf k m.1)
    match firstTerminal pre with
    | some (t, .error e) => [(t, .error e)]
    | some (_, .completed) =>
      (match ev with
       | .tick => emitAt k (latestOf pend pre) ++ [(k, .completed)]
       | .err e => [(k, .error e)])
    | _ =>
      match ev with
      | .tick => emitAt k (latestOf pend pre) ++ sampSpec tf none post ticks
      | .err e => [(k, .error e)]

end Timed

import RxModel.AggBase
/-!
# Agg.Ops — handlers of the aggregating operators, as written in `reactivex/operators/_*.py`

Primitive subscribe bodies are mirrored handler by handler; everything that the library builds by
`source.pipe(a, b, …)` is modelled as the same composition (`⨾`).  User callbacks are
`… → Except Err _`; predicates return the *truthiness* of what the Python predicate returned.
-/

namespace Agg

/-! ### `_map.py: map_` -/
def mapO {α β} (f : α → Except Err β) : Op α β where
  σ := Unit
  init := ()
  onNext s x :=
    match f x with                         -- try: result = _mapper(value)
    | .error e => emit s [.error e]        -- except Exception as err: obv.on_error(err)
    | .ok v => emit s [.next v]            -- else: obv.on_next(result)
  onError s e := emit s [.error e]
  onCompleted s := emit s [.completed]

/-! ### `_filter.py: filter_` -/
def filterO {α} (p : α → Except Err Bool) : Op α α where
  σ := Unit
  init := ()
  onNext s x :=
    match p x with                         -- try: should_run = predicate(value)
    | .error e => emit s [.error e]        -- except: observer.on_error(ex); return
    | .ok b => if b then emit s [.next x] else emit s []
  onError s e := emit s [.error e]
  onCompleted s := emit s [.completed]

/-! ### `_scan.py: scan_` = `defer(λ: source.pipe(map(projection)))`
State = `(has_accumulation, accumulation)` as an `Option`; `inj` is the `cast` of the first element
when there is no seed. -/
def scanProj {α β} (f : β → α → Except Err β) (seed : Option β) (inj : α → β) (s : Option β) (x : α) : Except Err β :=
  match s with
  | some acc => f acc x                    -- if has_accumulation: accumulation = accumulator(accumulation, x)
  | none =>
    match seed with
    | some sd => f sd x                    -- accumulator(seed, x) if has_seed
    | none => .ok (inj x)                  -- else x

def scanO {α β} (f : β → α → Except Err β) (seed : Option β) (inj : α → β) : Op α β where
  σ := Option β
  init := none
  onNext s x :=
    match scanProj f seed inj s x with     -- map's try around projection(x)
    | .error e => emit s [.error e]
    | .ok v => emit (some v) [.next v]     -- has_accumulation = True; return accumulation
  onError s e := emit s [.error e]
  onCompleted s := emit s [.completed]

/-! ### `_lastordefault.py: last_or_default_async(source, has_default, default_value)`
`dflt = some d` ⇔ `has_default` with `default_value = d`; state = `(value[0], seen_value[0])`. -/
def lastOrDefaultO {α} (dflt : Option α) : Op α α where
  σ := Option α × Bool
  init := (dflt, false)                    -- value = [default_value]; seen_value = [False]
  onNext _ x := emit (some x, true) []
  onError s e := emit s [.error e]
  onCompleted s :=
    if !s.2 && dflt.isNone then emit s [.error errNoElements]
    else match s.1 with
      | some v => emit s [.next v, .completed]
      | none => emit s []                  -- unreachable: seen ∨ has_default

/-! ### `_firstordefault.py: first_or_default_async_(has_default, default_value)` — state `done` (as repaired by ace7822:
the match is recorded before it is emitted; afterwards every notification of the source is ignored) -/
def firstOrDefaultO {α} (dflt : Option α) : Op α α where
  σ := Bool
  init := false
  onNext done x := if done then emit done [] else emit true [.next x, .completed]   -- done = True; on_next(x); on_completed()
  onError done e := if done then emit done [] else emit done [.error e]
  onCompleted done :=
    if done then emit done []
    else match dflt with
      | none => emit done [.error errNoElements]
      | some d => emit done [.next d, .completed]

/-! ### `_singleordefault.py: single_or_default_async_(has_default, default_value)` -/
def singleOrDefaultO {α} (dflt : Option α) : Op α α where
  σ := Option α × Bool
  init := (dflt, false)
  onNext s x :=
    if s.2 then emit s [.error errException]     -- 'Sequence contains more than one element'
    else emit (some x, true) []
  onError s e := emit s [.error e]
  onCompleted s :=
    if !s.2 && dflt.isNone then emit s [.error errNoElements]
    else match s.1 with
      | some v => emit s [.next v, .completed]
      | none => emit s []

/-! ### `_minby.py: extrema_by(source, key_mapper, comparer)`
State = `((has_value, last_key) as Option, items)`. -/
def extremaStep {α κ} (key : α → Except Err κ) (cmp : κ → κ → Except Err Int) (s : Option κ × List α) (x : α) :
    Except Err (Option κ × List α) :=
  match key x with                                   -- try: key = key_mapper(x)
  | .error e => .error e                             -- except: observer.on_error(ex); return
  | .ok k =>
    match s.1 with
    | none => .ok (some k, s.2 ++ [x])               -- comparison = 0; has_value = True; last_key = key; items.append(x)
    | some lk =>
      match cmp k lk with                            -- try: comparison = comparer(key, last_key)
      | .error e => .error e                         -- except: observer.on_error(ex1); return
      | .ok c =>
        let s1 : Option κ × List α := if c > 0 then (some k, []) else s       -- last_key = key; items[:] = []
        .ok (if c ≥ 0 then (s1.1, s1.2 ++ [x]) else s1)                        -- items.append(x)

def extremaByO {α κ} (key : α → Except Err κ) (cmp : κ → κ → Except Err Int) : Op α (List α) where
  σ := Option κ × List α
  init := (none, [])
  onNext s x :=
    match extremaStep key cmp s x with
    | .error e => emit s [.error e]
    | .ok s' => emit s' []
  onError s e := emit s [.error e]
  onCompleted s := emit s [.next s.2, .completed]

/-- `min_by`: `extrema_by(source, key_mapper, lambda x, y: -cmp(x, y))` -/
def minByO {α κ} (key : α → Except Err κ) (cmp : κ → κ → Except Err Int) : Op α (List α) :=
  extremaByO key (fun x y => (cmp x y).map (fun c => -c))
/-- `max_by`: `extrema_by(source, key_mapper, cmp)` -/
def maxByO {α κ} (key : α → Except Err κ) (cmp : κ → κ → Except Err Int) : Op α (List α) :=
  extremaByO key cmp

/-- `_min.py: first_only` -/
def firstOnly {α} : List α → Except Err α
  | [] => .error errNoElements
  | x :: _ => .ok x

def minO {α} (cmp : α → α → Except Err Int) : Op α α := minByO (fun x => .ok x) cmp ⨾ mapO firstOnly
def maxO {α} (cmp : α → α → Except Err Int) : Op α α := maxByO (fun x => .ok x) cmp ⨾ mapO firstOnly

/-! ### `_toiterable.py`, `_toset.py`, `_todict.py` -/
def toListO {α} : Op α (List α) where
  σ := List α
  init := []
  onNext s x := emit (s ++ [x]) []
  onError s e := emit s [.error e]
  onCompleted s := emit [] [.next s, .completed]

/-- `set.add` under Python equality `eq` (an element equal to a member is not added; the member stays) -/
def setAdd {α} (eq : α → α → Bool) (s : List α) (x : α) : List α :=
  if s.any (fun y => eq y x) then s else s ++ [x]

def toSetO {α} (eq : α → α → Bool) : Op α (List α) where
  σ := List α
  init := []
  onNext s x := emit (setAdd eq s x) []
  onError s e := emit s [.error e]
  onCompleted s := emit s [.next s, .completed]

/-- `m[key] = element` on an insertion-ordered dict: an equal key keeps its position and key object -/
def dictSet {κ ν} (eq : κ → κ → Bool) : List (κ × ν) → κ → ν → List (κ × ν)
  | [], k, v => [(k, v)]
  | (k', v') :: m, k, v => if eq k' k then (k', v) :: m else (k', v') :: dictSet eq m k v

def dictStep {α κ ν} (eq : κ → κ → Bool) (key : α → Except Err κ) (elem : α → Except Err ν) (m : List (κ × ν)) (x : α) :
    Except Err (List (κ × ν)) :=
  match key x with                                   -- try: key = key_mapper(x) except: on_error; return
  | .error e => .error e
  | .ok k =>
    match elem x with                                -- try: element = element_mapper(x) except: on_error; return
    | .error e => .error e
    | .ok v => .ok (dictSet eq m k v)                -- m[key] = element

def toDictO {α κ ν} (eq : κ → κ → Bool) (key : α → Except Err κ) (elem : α → Except Err ν) : Op α (List (κ × ν)) where
  σ := List (κ × ν)
  init := []
  onNext s x :=
    match dictStep eq key elem s x with
    | .error e => emit s [.error e]
    | .ok s' => emit s' []
  onError s e := emit s [.error e]
  onCompleted s := emit [] [.next s, .completed]

/-! ### unhashable elements / keys — **as repaired** (`fixes/C06_toset_todict_unhashable.patch`)
`to_set`: `try: s.add(x) except Exception as ex: observer.on_error(ex); return`; `to_dict`: the same guard around
`m[key] = element` (after both mappers).  An unhashable value makes Python raise `TypeError`; it is delivered as `on_error`
at that element, like `set(xs)` / the dict comprehension raise.  `toSetO` / `toDictO` are these operators on hashable input. -/
def setStepH {α} (hashable : α → Bool) (eq : α → α → Bool) (s : List α) (x : α) : Except Err (List α) :=
  if hashable x then .ok (setAdd eq s x) else .error "TypeError"

def toSetHO {α} (hashable : α → Bool) (eq : α → α → Bool) : Op α (List α) where
  σ := List α
  init := []
  onNext s x :=
    match setStepH hashable eq s x with          -- try: s.add(x)
    | .error e => emit s [.error e]              -- except Exception as ex: observer.on_error(ex); return
    | .ok s' => emit s' []
  onError s e := emit s [.error e]
  onCompleted s := emit s [.next s, .completed]

def dictStepH {α κ ν} (hashable : κ → Bool) (eq : κ → κ → Bool) (key : α → Except Err κ) (elem : α → Except Err ν)
    (m : List (κ × ν)) (x : α) : Except Err (List (κ × ν)) :=
  match key x with
  | .error e => .error e
  | .ok k =>
    match elem x with
    | .error e => .error e
    | .ok v => if hashable k then .ok (dictSet eq m k v) else .error "TypeError"   -- try: m[key] = element except: on_error

def toDictHO {α κ ν} (hashable : κ → Bool) (eq : κ → κ → Bool) (key : α → Except Err κ) (elem : α → Except Err ν) :
    Op α (List (κ × ν)) where
  σ := List (κ × ν)
  init := []
  onNext s x :=
    match dictStepH hashable eq key elem s x with
    | .error e => emit s [.error e]
    | .ok s' => emit s' []
  onError s e := emit s [.error e]
  onCompleted s := emit [] [.next s, .completed]

/-! ### AsIs (before the repair): `s.add` was the `on_next` handler itself and `m[key] = element` was outside the `try` blocks:
the `TypeError` propagated to the emitter, the element was skipped, the subscriber was not told and the run went on.
Used only by the witness theorem `C06.to_set_unhashable_asis`. -/
def toSetAsIsO {α} (hashable : α → Bool) (eq : α → α → Bool) : Op α (List α) where
  σ := List α
  init := []
  onNext s x := if hashable x then emit (setAdd eq s x) [] else ⟨s, [], some "TypeError"⟩
  onError s e := emit s [.error e]
  onCompleted s := emit s [.next s, .completed]

def toDictAsIsO {α κ ν} (hashable : κ → Bool) (eq : κ → κ → Bool) (key : α → Except Err κ) (elem : α → Except Err ν) :
    Op α (List (κ × ν)) where
  σ := List (κ × ν)
  init := []
  onNext s x :=
    match key x with
    | .error e => emit s [.error e]
    | .ok k =>
      match elem x with
      | .error e => emit s [.error e]
      | .ok v => if hashable k then emit (dictSet eq s k v) [] else ⟨s, [], some "TypeError"⟩
  onError s e := emit s [.error e]
  onCompleted s := emit [] [.next s, .completed]

/-! ### `_some.py: some_` (without predicate) — state `done` (as repaired by 13a6126: the decision is recorded before it is
emitted; afterwards every notification of the source is ignored) -/
def someOp {α} : Op α Bool where
  σ := Bool
  init := false
  onNext done _ := if done then emit done [] else emit true [.next true, .completed]
  onError done e := if done then emit done [] else emit done [.error e]
  onCompleted done := if done then emit done [] else emit true [.next false, .completed]

/-! ## Compositions, exactly as the library pipes them -/

/-- `_reduce.py`: `scan(acc, seed) | last_or_default(seed)` with a seed, `scan(acc) | last()` without -/
def reduceO {α β} (f : β → α → Except Err β) (seed : Option β) (inj : α → β) : Op α β :=
  match seed with
  | some sd => scanO f (some sd) inj ⨾ lastOrDefaultO (some sd)
  | none => scanO f none inj ⨾ lastOrDefaultO none

/-- `_count.py`: `reduce(lambda n, _: n + 1, seed=0)`, after `filter(predicate)` if given -/
def countAllO {α} : Op α Nat := reduceO (fun n _ => .ok (n + 1)) (some 0) (fun _ => 0)
def countO {α} (pred : Option (α → Except Err Bool)) : Op α Nat :=
  match pred with
  | some p => filterO p ⨾ countAllO
  | none => countAllO

/-- `_sum.py`: `reduce(seed=0, accumulator=prev + cur)`, after `map(key_mapper)` if given -/
def sumPlainO {β} (add : β → β → Except Err β) (zero : β) : Op β β := reduceO add (some zero) id
def sumByO {α β} (key : α → Except Err β) (add : β → β → Except Err β) (zero : β) : Op α β :=
  mapO key ⨾ sumPlainO add zero

/-- `_average.py`: `map(key_mapper_) | scan(accumulator, AverageValue(0,0)) | last() | map(mapper)`.
`AverageValue` = `(sum, count)`; the final quotient `s.sum / float(s.count)` is kept as the exact
pair `(sum, count)` (a rational). -/
def avgAcc (prev : Int × Nat) (cur : Int) : Except Err (Int × Nat) := .ok (prev.1 + cur, prev.2 + 1)
def avgMapper (s : Int × Nat) : Except Err (Int × Nat) :=
  if s.2 == 0 then .error errException else .ok s
def averageO {α} (key : α → Except Err Int) : Op α (Int × Nat) :=
  mapO key ⨾ scanO avgAcc (some (0, 0)) (fun c => (c, 1)) ⨾ lastOrDefaultO none ⨾ mapO avgMapper

/-- `first(predicate)` = `filter(predicate) | first()`; `first()` = `first_or_default_async_(False)` -/
def firstO {α} (pred : Option (α → Except Err Bool)) : Op α α :=
  match pred with
  | some p => filterO p ⨾ firstOrDefaultO none
  | none => firstOrDefaultO none
def firstOrDefaultPO {α} (pred : Option (α → Except Err Bool)) (d : α) : Op α α :=
  match pred with
  | some p => filterO p ⨾ firstOrDefaultO (some d)
  | none => firstOrDefaultO (some d)
def lastO {α} (pred : Option (α → Except Err Bool)) : Op α α :=
  match pred with
  | some p => filterO p ⨾ lastOrDefaultO none
  | none => lastOrDefaultO none
def lastOrDefaultPO {α} (pred : Option (α → Except Err Bool)) (d : α) : Op α α :=
  match pred with
  | some p => filterO p ⨾ lastOrDefaultO (some d)
  | none => lastOrDefaultO (some d)
def singleO {α} (pred : Option (α → Except Err Bool)) : Op α α :=
  match pred with
  | some p => filterO p ⨾ singleOrDefaultO none
  | none => singleOrDefaultO none
def singleOrDefaultPO {α} (pred : Option (α → Except Err Bool)) (d : α) : Op α α :=
  match pred with
  | some p => filterO p ⨾ singleOrDefaultO (some d)
  | none => singleOrDefaultO (some d)

/-- `some(predicate)` = `filter(predicate) | some()` -/
def someO {α} (pred : Option (α → Except Err Bool)) : Op α Bool :=
  match pred with
  | some p => filterO p ⨾ someOp
  | none => someOp

def notB (b : Bool) : Except Err Bool := .ok (!b)

/-- `_all.py`: `filter(lambda v: not predicate(v)) | some() | map(lambda b: not b)` -/
def allO {α} (p : α → Except Err Bool) : Op α Bool :=
  filterO (fun v => (p v).map (fun b => !b)) ⨾ someOp ⨾ mapO notB

/-- `_contains.py`: `filter(lambda v: comparer(v, value)) | some()` -/
def containsO {α} (value : α) (cmp : α → α → Except Err Bool) : Op α Bool :=
  filterO (fun v => cmp v value) ⨾ someOp

/-- `_isempty.py`: `some() | map(lambda b: not b)` -/
def isEmptyO {α} : Op α Bool := someOp ⨾ mapO notB

end Agg

import RxModel.Core
/-!
# L2 trace combinators — the shared frame (DESIGN.md §4 L2)

A multi-source operator is a deterministic machine over **tagged input events**.  One run of the
real operator — whatever the scheduler, hot or cold sources — is one finite list of events
`src k n` ("source subscription `k` delivered notification `n`"), `tick` (a scheduler hop owned by
the operator ran: only the sequential family has one) and `dispose` (the subscriber disposed the
subscription it got back).  The machine answers with effects `emit n | sub k | unsub k`.

The frame contains what is common to all operators:

* `Plumb.live` — the open source subscriptions, in the order in which the disposable returned by
  `subscribe` (a `CompositeDisposable` / `SerialDisposable` tree) disposes them;
* `Plumb.done` — the downstream `AutoDetachObserver` is stopped (a terminal went out, or `dispose`);
* the **uniform event rule** (`step`): an event for a source that is not live is ignored (that
  source's own `AutoDetachObserver` is stopped / its subscription closed); otherwise (1) the
  operator's handler runs and its actions are interpreted in order — a terminal emitted downstream
  makes the downstream `AutoDetachObserver` dispose the returned disposable, closing every live
  subscription in container order, at that point of the handler; (2) if the notification was a
  terminal, source `k`'s own `AutoDetachObserver` then disposes its subscription (closing `k` if still
  open).
-/

namespace Comb

/-- observable effects of one step -/
inductive Eff (β : Type) where
  | emit (n : Notif β)
  | sub (k : Nat)
  | unsub (k : Nat)
deriving Repr, BEq, DecidableEq

/-- what a handler does, in program order -/
inductive Act (β : Type) where
  | emit (n : Notif β)     -- observer.on_next / on_error / on_completed
  | sub (k : Nat)          -- put a fresh holder into the container, subscribe source k, assign
  | unsub (k : Nat)        -- container.remove(holder) / serial replacement: dispose k's holder
deriving Repr, BEq, DecidableEq

inductive Ev (ι : Type) where
  | src (k : Nat) (n : Notif ι)
  | tick
  | dispose
deriving Repr, BEq, DecidableEq

structure Plumb where
  done : Bool := false
  live : List Nat := []
deriving Repr, BEq, DecidableEq

namespace Plumb

/-- interpretation of one handler action against the plumbing -/
def act {β} (p : Plumb) : Act β → Plumb × List (Eff β)
  | .emit n =>
    if p.done then (p, [])
    else if n.isTerminal then ({ done := true, live := [] }, Eff.emit n :: p.live.map Eff.unsub)
    else (p, [Eff.emit n])
  | .sub k =>
    -- container already disposed: the holder is disposed on `add`, the subscription on assignment
    if p.done then (p, [Eff.sub k, Eff.unsub k])
    else ({ p with live := p.live ++ [k] }, [Eff.sub k])
  | .unsub k =>
    if k ∈ p.live then ({ p with live := p.live.erase k }, [Eff.unsub k]) else (p, [])

def acts {β} : Plumb → List (Act β) → Plumb × List (Eff β)
  | p, [] => (p, [])
  | p, a :: as =>
    let r := p.act a
    let r' := acts r.1 as
    (r'.1, r.2 ++ r'.2)

/-- `dispose()` of the disposable returned by `subscribe` (through the subscriber's `AutoDetachObserver`). -/
def dispose {β} (p : Plumb) : Plumb × List (Eff β) :=
  ({ done := true, live := [] }, p.live.map Eff.unsub)

end Plumb

/-- An operator: per-source handler and the handler of its own scheduled action (`tick`).
The handlers see `done` only where the code reads a flag set by the returned disposable
(`is_disposed` in concat / catch). -/
structure Machine (σ ι β : Type) where
  handler : σ → Nat → Notif ι → σ × List (Act β)
  tick : σ → Bool → σ × List (Act β) := fun s _ => (s, [])

structure St (σ : Type) where
  s : σ
  p : Plumb := {}

/-- the uniform event rule -/
def step {σ ι β} (m : Machine σ ι β) (st : St σ) : Ev ι → St σ × List (Eff β)
  | .src k n =>
    if k ∈ st.p.live then
      let h := m.handler st.s k n
      let r := st.p.acts h.2
      if n.isTerminal then
        let r' := r.1.act (β := β) (.unsub k)
        (⟨h.1, r'.1⟩, r.2 ++ r'.2)
      else (⟨h.1, r.1⟩, r.2)
    else (st, [])
  | .tick =>
    let h := m.tick st.s st.p.done
    let r := st.p.acts h.2
    (⟨h.1, r.1⟩, r.2)
  | .dispose =>
    let r := st.p.dispose
    (⟨st.s, r.1⟩, r.2)

/-- per-event effect lists -/
def runE {σ ι β} (m : Machine σ ι β) : St σ → List (Ev ι) → List (List (Eff β))
  | _, [] => []
  | st, e :: es => (step m st e).2 :: runE m (step m st e).1 es

def final {σ ι β} (m : Machine σ ι β) : St σ → List (Ev ι) → St σ
  | st, [] => st
  | st, e :: es => final m (step m st e).1 es

/-- all effects of a run, in order -/
def run {σ ι β} (m : Machine σ ι β) (st : St σ) (es : List (Ev ι)) : List (Eff β) :=
  (runE m st es).flatten

/-- the notifications that reach the subscriber -/
def emits {β} : List (Eff β) → List (Notif β)
  | [] => []
  | .emit n :: r => n :: emits r
  | _ :: r => emits r

/-- the values that reach the subscriber -/
def outVals {β} : List (Eff β) → List β
  | [] => []
  | .emit (.next v) :: r => v :: outVals r
  | _ :: r => outVals r

/-- pointwise update -/
def upd {γ} (f : Nat → γ) (i : Nat) (v : γ) : Nat → γ := fun j => if j = i then v else f j

/-- subscription phase of the static n-ary operators: `n` sources subscribed in index order and held
by one `CompositeDisposable` in index order. -/
def startAll {σ} (s : σ) (n : Nat) : St σ := ⟨s, { done := false, live := List.range n }⟩

end Comb

/-! ## Observation functions used by the property statements -/
namespace Comb

/-- The notifications that found their source subscription open, i.e. what the per-subscription
`AutoDetachObserver`s hand to the operator's handlers ("delivered" notifications), in trace order. -/
def accepted {σ ι β} (m : Machine σ ι β) : St σ → List (Ev ι) → List (Nat × Notif ι)
  | _, [] => []
  | st, e :: es =>
    (match e with
     | .src k n => if k ∈ st.p.live then [(k, n)] else []
     | _ => []) ++ accepted m (step m st e).1 es

/-- the elements delivered by source `i` -/
def valsOf {ι} (acc : List (Nat × Notif ι)) (i : Nat) : List ι :=
  acc.filterMap (fun kn => if kn.1 = i then (match kn.2 with | .next v => some v | _ => none) else none)

/-- subscribe effects, in order -/
def subsOf {β} : List (Eff β) → List Nat
  | [] => []
  | .sub k :: r => k :: subsOf r
  | _ :: r => subsOf r

def unsubsOf {β} : List (Eff β) → List Nat
  | [] => []
  | .unsub k :: r => k :: unsubsOf r
  | _ :: r => unsubsOf r

end Comb

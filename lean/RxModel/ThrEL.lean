/-!
# Thr.EL — atomic-step model of `EventLoopScheduler`

Mirrors `reactivex/scheduler/eventloopscheduler.py` (+ `scheduleditem.py`; `NewThreadScheduler` and
`ThreadPoolScheduler` use it with `exit_if_empty=True`, one instance per scheduled action).

Threads: any number of *client* threads, each executing a program (a list of `Op`s: schedule /
schedule_relative / schedule_absolute with an action body, cancel, dispose, tick), plus the loop
threads the scheduler itself creates (`_ensure_thread`).  Action bodies are DATA (lists of `Op`s) and
are executed by the loop thread with the same step function, so actions can schedule, cancel, dispose.

One transition = one atomic step:
  * `act (schedX …)`  `schedule*` reads `self.now`, computes `dt`                           → `chk`
  * `chk`             `if self._is_disposed: raise DisposedException()` (unlocked read)      → `enq` | raised
  * `enq`             `with self._condition: if dt <= self.now: ready_list.append(si) else: queue.enqueue(si);
                       notify(); _ensure_thread()`   (may create + start the loop thread)
  * `act (cancel k)`  `Disposable(si.cancel).dispose()`: sets the item's cancelled flag
  * `act dispose`     `with self._condition: if not disposed: disposed = True; notify()`
  * `loop top`        `with self._condition: if disposed: return; time = now; <merge ready_list and the due part of queue>`
  * `loop exec`       `item = ready.popleft(); if not item.is_cancelled(): item.invoke()`   (the `is_cancelled()`
                       read is the linearisation point of "the action starts")
  * `loop check`      `with self._condition: if ready_list: continue / elif queue: wait(seconds) / elif exit_if_empty:
                       _thread = None; return / else: wait()`
  * `loop waitU/waitT` the condition wait returns (untimed: only after a notify; timed: any time)
The condition variable is modelled by one slot `wstate` (sound because at most one loop thread exists,
`C31.loop_single_thread_serial`).  Time: integer microseconds; `dt` µs pass before each step (arbitrary).
-/

namespace Thr.EL

inductive Op where
  | sched (lbl : Nat) (body : List Op)
  | schedRel (lbl : Nat) (d : Int) (body : List Op)
  | schedAbs (lbl : Nat) (t : Int) (body : List Op)
  | cancel (lbl : Nat)
  | dispose
  | tick (d : Nat)
deriving Repr

structure Item where
  id : Nat
  due : Int
  seq : Nat      -- ghost: global submission order (the order of the locked `enq` sections)
  imm : Bool     -- went to `_ready_list` (due at submission) rather than to the timed `_queue`
  body : List Op
deriving Repr

inductive LPh where
  | top | exec | check | waitU | waitT
deriving Repr, DecidableEq

inductive Frame where
  | act (id : Option Nat) (ops : List Op)
  | chk (id : Option Nat) (it : Item) (ops : List Op)
  | enq (id : Option Nat) (it : Item) (ops : List Op)
  | loop (ph : LPh) (ready : List Item)
deriving Repr

inductive WS where
  | none | waitingU | waitingT | notified
deriving Repr, DecidableEq

/-- events, newest first in `Sh.log`; the first field is the thread -/
inductive Ev where
  | sched (t id : Nat) (due clk : Int)
  | raised (t id : Nat)                                   -- DisposedException
  | passed (t id : Nat)                                   -- `_is_disposed` read false
  | enq (t id seq : Nat) (imm : Bool) (spawn : Option Nat)    -- locked submission; spawn = loop thread created
  | cancel (t id : Nat)
  | dispose (t : Nat) (first : Bool)
  | collect (t : Nat) (ids : List Nat) (time : Int)
  | exitDisposed (t : Nat)
  | start (t id : Nat) (due : Int) (seq : Nat) (imm : Bool) (clk : Int)
  | skip (t id : Nat) (due : Int) (seq : Nat) (imm : Bool)
  | fin (t id : Nat)
  | cont (t : Nat)                                        -- check: ready_list not empty → continue
  | waitT (t : Nat) (till : Int)
  | recheck (t : Nat)                                     -- check: queue head already due → loop again
  | waitU (t : Nat)
  | exitEmpty (t : Nat)
  | woke (t : Nat)
deriving Repr, DecidableEq

structure Sh where
  clock : Int := 0
  disposed : Bool := false
  readyList : List Item := []
  queue : List Item := []
  thread : Option Nat := none
  wstate : WS := .none
  cancelled : List Nat := []
  nsched : Nat := 0
  log : List Ev := []
deriving Repr

structure Th where
  stack : List Frame
deriving Repr

/-- stable priority queue -/
def enqueue : List Item → Item → List Item
  | [], it => [it]
  | x :: xs, it => if x.due ≤ it.due then x :: enqueue xs it else it :: x :: xs

/-- the merge loop of `run`: returns (gathered, remaining queue); the ready list is always emptied. -/
def merge (time : Int) : List Item → List Item → List Item × List Item
  | [], rl => (rl, [])
  | q :: qs, rl =>
    let a := rl.takeWhile (fun r => decide (q.due > r.due))
    let rl' := rl.dropWhile (fun r => decide (q.due > r.due))
    if q.due > time then (a ++ rl', q :: qs)
    else
      let (g, rest) := merge time qs rl'
      (a ++ q :: g, rest)

def notify (w : WS) : WS :=
  match w with
  | .waitingU => .notified
  | .waitingT => .notified
  | w => w

/-- one atomic step of thread `me`; `nth` = number of threads so far (= id of a thread created now).
Returns the new shared state, the thread's new state and whether a loop thread is to be added. -/
def thStep (xie : Bool) (me nth : Nat) (sh : Sh) (th : Th) : Sh × Th × Bool :=
  match th.stack with
  | [] => (sh, th, false)
  | .act id [] :: rest =>
    ({ sh with log := match id with | some i => .fin me i :: sh.log | none => sh.log }, { stack := rest }, false)
  | .act id (op :: ops) :: rest =>
    match op with
    | .tick d => ({ sh with clock := sh.clock + d }, { stack := .act id ops :: rest }, false)
    | .cancel k =>
      ({ sh with cancelled := k :: sh.cancelled, log := .cancel me k :: sh.log }, { stack := .act id ops :: rest }, false)
    | .dispose =>
      if sh.disposed then ({ sh with log := .dispose me false :: sh.log }, { stack := .act id ops :: rest }, false)
      else ({ sh with disposed := true, wstate := notify sh.wstate, log := .dispose me true :: sh.log },
            { stack := .act id ops :: rest }, false)
    | .sched l body =>
      ({ sh with log := .sched me l sh.clock sh.clock :: sh.log },
        { stack := .chk id ⟨l, sh.clock, 0, false, body⟩ ops :: rest }, false)
    | .schedRel l d body =>
      ({ sh with log := .sched me l (sh.clock + max d 0) sh.clock :: sh.log },
        { stack := .chk id ⟨l, sh.clock + max d 0, 0, false, body⟩ ops :: rest }, false)
    | .schedAbs l t body =>
      ({ sh with log := .sched me l t sh.clock :: sh.log }, { stack := .chk id ⟨l, t, 0, false, body⟩ ops :: rest }, false)
  | .chk id it ops :: rest =>
    if sh.disposed then ({ sh with log := .raised me it.id :: sh.log }, { stack := .act id ops :: rest }, false)
    else ({ sh with log := .passed me it.id :: sh.log }, { stack := .enq id it ops :: rest }, false)
  | .enq id it ops :: rest =>
    let imm := decide (it.due ≤ sh.clock)
    let it' := { it with seq := sh.nsched, imm := imm }
    let spawn := sh.thread.isNone
    ({ sh with
        readyList := if imm then sh.readyList ++ [it'] else sh.readyList,
        queue := if imm then sh.queue else enqueue sh.queue it',
        wstate := notify sh.wstate,
        thread := if spawn then some nth else sh.thread,
        nsched := sh.nsched + 1,
        log := .enq me it.id sh.nsched imm (if spawn then some nth else none) :: sh.log },
      { stack := .act id ops :: rest }, spawn)
  | .loop .top ready :: rest =>
    if sh.disposed then ({ sh with log := .exitDisposed me :: sh.log }, { stack := rest }, false)
    else
      let (g, q') := merge sh.clock sh.queue sh.readyList
      ({ sh with readyList := [], queue := q', log := .collect me (g.map (·.id)) sh.clock :: sh.log },
        { stack := .loop .exec (ready ++ g) :: rest }, false)
  | .loop .exec [] :: rest => (sh, { stack := .loop .check [] :: rest }, false)
  | .loop .exec (it :: ready) :: rest =>
    if it.id ∈ sh.cancelled then
      ({ sh with log := .skip me it.id it.due it.seq it.imm :: sh.log }, { stack := .loop .exec ready :: rest }, false)
    else
      ({ sh with log := .start me it.id it.due it.seq it.imm sh.clock :: sh.log },
        { stack := .act (some it.id) it.body :: .loop .exec ready :: rest }, false)
  | .loop .check ready :: rest =>
    match sh.readyList with
    | _ :: _ => ({ sh with log := .cont me :: sh.log }, { stack := .loop .top ready :: rest }, false)
    | [] =>
      match sh.queue with
      | it :: _ =>
        if it.due > sh.clock then
          ({ sh with wstate := .waitingT, log := .waitT me it.due :: sh.log }, { stack := .loop .waitT ready :: rest }, false)
        else ({ sh with log := .recheck me :: sh.log }, { stack := .loop .top ready :: rest }, false)
      | [] =>
        if xie then ({ sh with thread := none, log := .exitEmpty me :: sh.log }, { stack := rest }, false)
        else ({ sh with wstate := .waitingU, log := .waitU me :: sh.log }, { stack := .loop .waitU ready :: rest }, false)
  | .loop .waitU ready :: rest =>
    if sh.wstate = .notified then
      ({ sh with wstate := .none, log := .woke me :: sh.log }, { stack := .loop .top ready :: rest }, false)
    else (sh, th, false)
  | .loop .waitT ready :: rest =>
    ({ sh with wstate := .none, log := .woke me :: sh.log }, { stack := .loop .top ready :: rest }, false)

structure Sys where
  sh : Sh := {}
  ths : List Th
deriving Repr

/-- `dt` µs pass, then thread `i` makes one step. -/
def Sys.step (xie : Bool) (s : Sys) (i dt : Nat) : Sys :=
  match s.ths[i]? with
  | none => s
  | some th =>
    let (sh', th', spawn) := thStep xie i s.ths.length { s.sh with clock := s.sh.clock + dt } th
    { sh := sh', ths := if spawn then s.ths.set i th' ++ [{ stack := [.loop .top []] }] else s.ths.set i th' }

def Sys.run (xie : Bool) (s : Sys) (sched : List (Nat × Nat)) : Sys :=
  sched.foldl (fun s p => s.step xie p.1 p.2) s

def Sys.init (progs : List (List Op)) (clock : Int := 0) : Sys :=
  { sh := { clock }, ths := progs.map fun p => { stack := [.act none p] } }

end Thr.EL

import RxModel.Disp
/-!
# Nested containers under threads: a CompositeDisposable holding a SerialDisposable holding leaves

The composite initially holds exactly one item, the serial.  Threads call `composite.dispose()`,
`composite.remove(serial)`, `serial.dispose()` and `serial.disposable = leaf_v` concurrently.  The serial's
`dispose()` is *nested*: it runs on the thread that disposes / removes it from the composite, after that thread left
the composite's lock block (`for disp in current_disposable: disp.dispose()`), so its own lock block and its
call-out interleave with everything else.  Same step granularity and event log as `RxModel/Disp.lean`
(`lock 0` = the composite's lock, `lock 1` = the serial's).
-/
namespace Disp

inductive NOp where
  | dispC              -- composite.dispose()
  | removeS            -- composite.remove(serial)
  | dispS              -- serial.dispose()  (called directly)
  | setS (v : Nat)     -- serial.disposable = leaf_v
deriving Repr, DecidableEq

structure NSh where
  cDisposed : Bool := false
  cHasS : Bool := true                 -- the serial is in the composite's list
  sDisposed : Bool := false
  sCurrent : Option Nat := none
  cnt : Nat → Nat := fun _ => 0        -- dispose counter of every leaf
  given : Nat → Nat := fun _ => 0      -- ghost: assignments of leaf i to the serial
  viaC : Nat := 0                      -- ghost: serial.dispose() lock blocks executed on behalf of the composite
  cCalls : Nat := 0                    -- ghost: composite.dispose() calls that got past their first step(s)
  log : List Ev := []

inductive NPc where
  | idle
  | cChk                               -- composite.dispose(): unlocked pre-check passed
  | rChk                               -- composite.remove(serial): unlocked pre-check passed
  | callS (r : RV)                     -- left the composite's lock block owing `serial.dispose()`, then return r
  | pend (l : List Nat) (r : RV)       -- inside a serial method, after its lock block: leaves still to dispose
deriving Repr, DecidableEq

abbrev NTh := NPc × List NOp

def NSh.out (s : NSh) (ev : Ev) (l : List Nat) (r : RV) (p : List NOp) : NSh × NTh :=
  match l with
  | [] => ({ s with log := s.log ++ [ev, .ret r] }, (.idle, p))
  | _ :: _ => ({ s with log := s.log ++ [ev] }, (.pend l r, p))

/-- `SerialDisposable.dispose` lock block (locked test-and-set, swap `current` out) -/
def NSh.serDispose (s : NSh) (viaC : Bool) (r : RV) (p : List NOp) : NSh × NTh :=
  if s.sDisposed then NSh.out { s with viaC := s.viaC + viaC.toNat } (.lock 1) [] r p
  else NSh.out { s with sDisposed := true, sCurrent := none, viaC := s.viaC + viaC.toNat } (.lock 1) s.sCurrent.toList r p

def nStep (s : NSh) : NTh → NSh × NTh
  | (.idle, []) => (s, (.idle, []))
  | (.idle, .dispC :: p) =>
    if s.cDisposed then ({ s with cCalls := s.cCalls + 1, log := s.log ++ [.rd true, .ret .unit] }, (.idle, p))
    else ({ s with log := s.log ++ [.rd false] }, (.cChk, p))
  | (.cChk, p) =>
    -- with self.lock: self.is_disposed = True; current = self.disposable; self.disposable = []
    if s.cHasS then ({ s with cDisposed := true, cHasS := false, cCalls := s.cCalls + 1, log := s.log ++ [.lock 0] }, (.callS .unit, p))
    else ({ s with cDisposed := true, cCalls := s.cCalls + 1, log := s.log ++ [.lock 0, .ret .unit] }, (.idle, p))
  | (.idle, .removeS :: p) =>
    if s.cDisposed then ({ s with log := s.log ++ [.rd true, .ret (.bool false)] }, (.idle, p))
    else ({ s with log := s.log ++ [.rd false] }, (.rChk, p))
  | (.rChk, p) =>
    if s.cHasS then ({ s with cHasS := false, log := s.log ++ [.lock 0] }, (.callS (.bool true), p))
    else ({ s with log := s.log ++ [.lock 0, .ret (.bool false)] }, (.idle, p))
  | (.callS r, p) => s.serDispose true r p
  | (.idle, .dispS :: p) => s.serDispose false .unit p
  | (.idle, .setS v :: p) =>
    if s.sDisposed then NSh.out { s with given := bump s.given v } (.lock 1) [v] .unit p
    else NSh.out { s with sCurrent := some v, given := bump s.given v } (.lock 1) s.sCurrent.toList .unit p
  | (.pend [] r, p) => ({ s with log := s.log ++ [.ret r] }, (.idle, p))
  | (.pend [i] r, p) => ({ s with cnt := bump s.cnt i, log := s.log ++ [.disp i, .ret r] }, (.idle, p))
  | (.pend (i :: j :: l) r, p) => ({ s with cnt := bump s.cnt i, log := s.log ++ [.disp i] }, (.pend (j :: l) r, p))

def nInit (progs : List (List NOp)) : Sys NSh NTh := ⟨{}, progs.map fun p => (.idle, p)⟩

end Disp

import RxModel.Core
/-!
# WinFin — `using`, `finally_action`, `do_finally`, `do_action` and the `do_*` variants (C40)

Mirrors, line by line,
* `reactivex/observable/using.py`            (`using_`)
* `reactivex/operators/_finallyaction.py`    (`finally_action_`)
* `reactivex/operators/_do.py`               (`do_action_`, `do_`, `do_after_next`, `do_on_subscribe`,
                                              `do_on_dispose`, `do_on_terminate`, `do_after_terminate`, `do_finally`)
together with the plumbing they run on: `Observable.subscribe` (`set_disposable`, `fail`),
`AutoDetachObserver` + its `SingleAssignmentDisposable`, `Disposable` (idempotent),
`CompositeDisposable` (dispose items in order, once), `reactivex.throw`.

One subscription `op(source).subscribe(on_next, on_error, on_completed)` is a machine over a *history*:

* the **subscribe phase** (`SyncPhase`): the source emits notifications inside its `subscribe` body and
  then either returns its subscription or raises;
* afterwards any list of events `Ev`: source notifications (conforming or not) and `dispose` of the
  handle returned by `subscribe` (anywhere, any number of times).

There are two `AutoDetachObserver`s: `D` (downstream: wraps the user's callbacks; created by the
operator's own `Observable.subscribe`) and `U` (upstream: wraps the operator's handlers; created by
`source.subscribe(...)` inside the operator).  The state keeps their flags; every Python procedure
is a function `P = St → St × Option Err` (new state, exception escaping the procedure); the
observable effects are appended to `St.log` in the order in which they happen.
User callbacks raise according to arbitrary `subRaises / actRaises : Nat → Bool` (indexed by invocation).
-/

namespace WinFin

inductive Oper where
  | using | finallyAction | doFinally | doAction | doAfterNext | doOnSubscribe | doOnDispose
  | doOnTerminate | doAfterTerminate
deriving Repr, DecidableEq

/-- which user callback of the operator ran -/
inductive ActK where
  | next | error | completed | afterNext | subscribe | dispose | terminate | afterTerminate | fin
  | resf | obsf
deriving Repr, DecidableEq

/-- observable effects, in order -/
inductive Eff (α : Type) where
  | emit (n : Notif α) (raised : Bool)                     -- a downstream user callback ran (and raised?)
  | act (k : ActK) (arg : Option (Notif α)) (raised : Bool) -- a callback of the operator ran (and raised?)
  | resDispose                                             -- `resource.dispose()` was called
  | srcDispose                                             -- the source's subscription was disposed
  | escape (e : Err)                                       -- an exception reached the emitter / the caller
deriving Repr, BEq, DecidableEq

inductive ResK where
  | some | none | raise
deriving Repr, DecidableEq

/-- everything that is fixed for one subscription -/
structure Cfg where
  oper : Oper
  subRaises : Nat → Bool := fun _ => false     -- k-th downstream callback invocation raises
  actRaises : Nat → Bool := fun _ => false     -- k-th invocation of an operator callback raises
  cbErr : Nat → Err := fun _ => "cb"           -- the exception raised by them
  actErr : Nat → Err := fun _ => "act"
  hasNext : Bool := true                       -- do_action: which callbacks were given
  hasError : Bool := true
  hasCompleted : Bool := true
  resf : ResK := .some                         -- using: resource_factory returns a resource / None / raises
                                               -- (`if resource is not None`: a resource that happens to be falsy —
                                               -- `__len__() == 0`, `__bool__() == False`, an empty CompositeDisposable
                                               -- filled later — is still `.some`; the harness's `res_kind` is ignored here)
  obsfRaises : Bool := false                   -- using: observable_factory raises
  srcDisposeRaises : Bool := false             -- fault: `dispose()` of the source's subscription raises `srcdErr`
  srcdErr : Err := "srcd"
  doFinallyAsIs : Bool := false                -- do_finally as it was before the `fix:` (see `finGuardAsIs`)

/-- `D`: the AutoDetachObserver around the user's callbacks, its SingleAssignmentDisposable, and the
handle `Disposable(D.dispose)` returned to the subscriber -/
structure DSt where
  stopped : Bool := false       -- D.is_stopped
  cbs : Nat := 0                -- user-callback invocations so far
  sad : Bool := false           -- D._subscription.is_disposed
  cur : Bool := false           -- D._subscription.current is the operator's disposable R
  handle : Bool := false        -- subscribe returned (did not raise): the subscriber holds a handle
  retDisposed : Bool := false   -- is_disposed of that handle
deriving Repr, DecidableEq

/-- `U`: the AutoDetachObserver around the operator's handlers, created by `source.subscribe(...)` -/
structure USt where
  stopped : Bool := false
  sad : Bool := false           -- U._subscription.is_disposed
  cur : Bool := false           -- U._subscription.current is the source's subscription
  subDisposed : Bool := false   -- `Disposable(U.dispose)` returned by source.subscribe: is_disposed
  live : Bool := false          -- the source's subscribe body returned normally (it may emit later)
deriving Repr, DecidableEq

/-- the operator's own per-subscription state -/
structure OSt where
  rDisposed : Bool := false     -- is_disposed of the operator's own CompositeDisposable / Disposable
  wasInvoked : Bool := false    -- do_finally: was_invoked[0]
  acts : Nat := 0               -- invocations of the operator's callbacks so far
deriving Repr, DecidableEq

/-- `resource_factory` returned an object (not `None`, did not raise) -/
def Cfg.hasRes (c : Cfg) : Bool := match c.resf with | .some => true | _ => false

structure St (α : Type) where
  d : DSt := {}
  u : USt := {}
  o : OSt := {}
  log : List (Eff α) := []
deriving Repr

abbrev P (α : Type) := St α → St α × Option Err

/-- `a; b` -/
@[inline] def seq {α} (a b : P α) : P α := fun s =>
  match a s with
  | (s', none) => b s'
  | (s', some e) => (s', some e)

/-- `try: a finally: b` — an exception of `b` replaces the one of `a`. -/
@[inline] def tryFinally {α} (a b : P α) : P α := fun s =>
  match a s with
  | (s', x) =>
    match b s' with
    | (s'', none) => (s'', x)
    | (s'', some e) => (s'', some e)

/-- `try: a except Exception as e: h e` -/
@[inline] def tryCatch {α} (a : P α) (h : Err → P α) : P α := fun s =>
  match a s with
  | (s', none) => (s', none)
  | (s', some e) => h e s'

def logE {α} (e : Eff α) : P α := fun s => ({ s with log := s.log ++ [e] }, none)

/-! ## upstream AutoDetachObserver `U` and the source subscription -/

/-- `dispose()` of the subscription object returned by the source's subscribe body (may raise: fault) -/
def srcDisposeP {α} (c : Cfg) : P α := fun s =>
  ({ s with log := s.log ++ [.srcDispose] }, if c.srcDisposeRaises then some c.srcdErr else none)

/-- `U.dispose()`: `is_stopped = True; self._subscription.dispose()` (SingleAssignmentDisposable:
flags first, then `old.dispose()` outside the lock — its exception propagates). -/
def uDispose {α} (c : Cfg) : P α := fun s =>
  if s.u.sad then ({ s with u.stopped := true }, none)
  else if s.u.cur then srcDisposeP c { s with u.stopped := true, u.sad := true, u.cur := false }
  else ({ s with u.stopped := true, u.sad := true, u.cur := false }, none)

/-- `Disposable(auto_detach_observer.dispose)` returned by `source.subscribe`: action runs once. -/
def uSubDispose {α} (c : Cfg) : P α := fun s =>
  if s.u.subDisposed then (s, none) else uDispose c { s with u.subDisposed := true }

/-- one invocation of a callback of the operator -/
def action {α} (c : Cfg) (k : ActK) (arg : Option (Notif α)) : P α := fun s =>
  ({ s with o.acts := s.o.acts + 1, log := s.log ++ [.act k arg (c.actRaises s.o.acts)] },
   if c.actRaises s.o.acts then some (c.actErr s.o.acts) else none)

/-- do_finally (after `fix: do_finally marks its action as invoked before calling it`):
`if not was_invoked[0]: was_invoked[0] = True; finally_action()` -/
def finGuardFixed {α} (c : Cfg) : P α := fun s =>
  if s.o.wasInvoked then (s, none)
  else action c .fin none { s with o.wasInvoked := true }

/-! ### AsIs: the handler of the pinned tree before the fix
`if not was_invoked[0]: finally_action(); was_invoked[0] = True` — the flag is only set when the action
returned, so an action that raises is invoked again by the other hook.  Used only by the witness
`C40.do_finally_twice_when_action_raises` (`Cfg.doFinallyAsIs := true`). -/
def finGuardAsIs {α} (c : Cfg) : P α := fun s =>
  if s.o.wasInvoked then (s, none)
  else seq (action c .fin none) (fun s => ({ s with o.wasInvoked := true }, none)) s

def finGuard {α} (c : Cfg) : P α := if c.doFinallyAsIs then finGuardAsIs c else finGuardFixed c

/-- `resource.dispose()` (or the dummy `Disposable()` when there is no resource) -/
def resDisposeP {α} (c : Cfg) : P α := fun s =>
  if c.hasRes then logE .resDispose s else (s, none)

/-- `dispose()` of the disposable `R` that the operator's `subscribe` returns. -/
def rDispose {α} (c : Cfg) : P α := fun s =>
  match c.oper with
  | .using =>           -- CompositeDisposable(source.subscribe(...), disp)
    if s.o.rDisposed then (s, none) else seq (uSubDispose c) (resDisposeP c) { s with o.rDisposed := true }
  | .finallyAction =>   -- Disposable(dispose): try: subscription.dispose() finally: action()
    if s.o.rDisposed then (s, none)
    else tryFinally (uSubDispose c) (action c .fin none) { s with o.rDisposed := true }
  | .doFinally =>       -- CompositeDisposable: [OnDispose(was_invoked), subscription]
    if s.o.rDisposed then (s, none) else seq (finGuard c) (uSubDispose c) { s with o.rDisposed := true }
  | .doOnDispose =>     -- CompositeDisposable: [OnDispose(), subscription]
    if s.o.rDisposed then (s, none) else seq (action c .dispose none) (uSubDispose c) { s with o.rDisposed := true }
  | _ => (uSubDispose c) s  -- the source subscription itself is returned

/-! ## downstream AutoDetachObserver `D` -/

/-- `D.dispose()` -/
def dDispose {α} (c : Cfg) : P α := fun s =>
  if s.d.sad then ({ s with d.stopped := true }, none)
  else if s.d.cur then rDispose c { s with d.stopped := true, d.sad := true, d.cur := false }
  else ({ s with d.stopped := true, d.sad := true, d.cur := false }, none)

/-- one invocation of a user callback of the subscriber -/
def userCb {α} (c : Cfg) (n : Notif α) : P α := fun s =>
  ({ s with d.cbs := s.d.cbs + 1, log := s.log ++ [.emit n (c.subRaises s.d.cbs)] },
   if c.subRaises s.d.cbs then some (c.cbErr s.d.cbs) else none)

/-- `D.on_next(v)` -/
def dNext {α} (c : Cfg) (v : α) : P α := fun s =>
  if s.d.stopped then (s, none) else userCb c (.next v) s

/-- `D.on_error(e)` / `D.on_completed()`: `is_stopped = True; try: cb() finally: self.dispose()` -/
def dTerminal {α} (c : Cfg) (n : Notif α) : P α := fun s =>
  if s.d.stopped then (s, none)
  else tryFinally (userCb c n) (dDispose c) { s with d.stopped := true }

/-! ## the operator's handlers (what `U` wraps) -/

def hNext {α} (c : Cfg) (v : α) : P α :=
  match c.oper with
  | .doAction =>
    if !c.hasNext then dNext c v
    else seq (tryCatch (action c .next (some (.next v))) (fun e => dTerminal c (.error e))) (dNext c v)
  | .doAfterNext =>
    tryCatch (seq (dNext c v) (action c .afterNext (some (.next v)))) (fun e => dTerminal c (.error e))
  | _ => dNext c v

def hError {α} (c : Cfg) (e : Err) : P α :=
  match c.oper with
  | .doAction =>
    if !c.hasError then dTerminal c (.error e)
    else seq (tryCatch (action c .error (some (.error e))) (fun e' => dTerminal c (.error e'))) (dTerminal c (.error e))
  | .doOnTerminate =>   -- try: on_terminate() except err: observer.on_error(err) else: observer.on_error(exception)
    fun s => match action c .terminate none s with
      | (s', none) => dTerminal c (.error e) s'
      | (s', some e') => dTerminal c (.error e') s'
  | .doAfterTerminate =>
    seq (dTerminal c (.error e)) (tryCatch (action c .afterTerminate none) (fun e' => dTerminal c (.error e')))
  | .doFinally =>
    seq (dTerminal c (.error e)) (tryCatch (finGuard c) (fun e' => dTerminal c (.error e')))
  | _ => dTerminal c (.error e)

def hCompleted {α} (c : Cfg) : P α :=
  match c.oper with
  | .doAction =>
    if !c.hasCompleted then dTerminal c .completed
    else seq (tryCatch (action c .completed none) (fun e' => dTerminal c (.error e'))) (dTerminal c .completed)
  | .doOnTerminate =>
    fun s => match action c .terminate none s with
      | (s', none) => dTerminal c .completed s'
      | (s', some e') => dTerminal c (.error e') s'
  | .doAfterTerminate =>
    seq (dTerminal c .completed) (tryCatch (action c .afterTerminate none) (fun e' => dTerminal c (.error e')))
  | .doFinally =>
    seq (dTerminal c .completed) (tryCatch (finGuard c) (fun e' => dTerminal c (.error e')))
  | _ => dTerminal c .completed

def hTerminal {α} (c : Cfg) : Notif α → P α
  | .error e => hError c e
  | .completed => hCompleted c
  | .next v => hNext c v   -- not used

/-- a notification arriving at `U` -/
def uNotify {α} (c : Cfg) (n : Notif α) : P α := fun s =>
  if s.u.stopped then (s, none)
  else match n with
    | .next v => hNext c v s
    | t => tryFinally (hTerminal c t) (uDispose c) { s with u.stopped := true }

/-- the emitter gets an exception back: it is recorded and the emitter goes on -/
def swallow {α} (p : P α) (s : St α) : St α :=
  match p s with
  | (s', none) => s'
  | (s', some e) => { s' with log := s'.log ++ [.escape e] }

/-- what the source does inside its `subscribe` body: emit `emits` inline, then return its subscription or
raise `exn`.  `propagate = false`: an adversarial emitter that goes on after an exception came back from the
observer (the exception is recorded as escaped); `propagate = true`: an ordinary body without `try`, the
exception coming back from the observer ends the body (this is what `reactivex.throw` on the
ImmediateScheduler does). -/
structure SyncPhase (α : Type) where
  emits : List (Notif α) := []
  exn : Option Err := none
  propagate : Bool := false
deriving Repr

def emitSync {α} (c : Cfg) (prop : Bool) : List (Notif α) → St α → St α × Option Err
  | [], s => (s, none)
  | n :: ns, s =>
    match uNotify c n s with
    | (s', none) => emitSync c prop ns s'
    | (s', some e) =>
      if prop then (s', some e) else emitSync c prop ns { s' with log := s'.log ++ [.escape e] }

/-- `source.subscribe(handlers…)`: `Observable.subscribe` creates `U`, runs the source's subscribe body
(`SyncPhase`), routes an exception through `U.fail`, otherwise
assigns the source's subscription to `U` (disposing it at once if `U` is already disposed). -/
def srcSubscribe {α} (c : Cfg) (sp : SyncPhase α) : P α := fun s =>
  let bodyRaised (e : Err) (s : St α) : St α × Option Err :=
    -- `if not auto_detach_observer.fail(ex): raise`
    if s.u.stopped then (s, some e)
    else hError c e { s with u.stopped := true }     -- fail: is_stopped = True; self._on_error(exn) — no dispose
  match emitSync c sp.propagate sp.emits s with
  | (s, some e) => bodyRaised e s
  | (s, none) =>
    match sp.exn with
    | some e => bodyRaised e s
    | none =>                        -- `auto_detach_observer.subscription = fix_subscriber(subscriber)`
      if s.u.sad then srcDisposeP c { s with u.live := true }   -- `if should_dispose and value is not None: value.dispose()`
      else ({ s with u.cur := true, u.live := true }, none)

/-- the operator's `subscribe(observer, scheduler)`; `none` = it returned its disposable `R`. -/
def opSubscribe {α} (c : Cfg) (sp : SyncPhase α) : P α :=
  match c.oper with
  | .using => fun s =>
    -- try: resource = resource_factory(); source = observable_factory(resource)
    -- except: d = throw(exception).subscribe(observer); return CompositeDisposable(d, disp)
    -- (the harness passes, as `sp`, what the source that is actually subscribed emits: for the
    --  failure paths that is `throw`'s error when it runs on the ImmediateScheduler)
    match c.resf with
    | .raise => seq (logE (.act .resf none true)) (srcSubscribe c { sp with exn := none }) s
    | _ => seq (logE (.act .resf none false))
            (seq (logE (.act .obsf none c.obsfRaises))
              (if c.obsfRaises then srcSubscribe c { sp with exn := none } else srcSubscribe c sp)) s
  | .finallyAction => fun s =>
    -- try: subscription = source.subscribe(...) except Exception: action(); raise
    match srcSubscribe c sp s with
    | (s', none) => (s', none)
    | (s', some e) =>
      match action c .fin none s' with
      | (s'', none) => (s'', some e)
      | (s'', some e') => (s'', some e')
  | .doOnSubscribe => seq (action c .subscribe none) (srcSubscribe c sp)
  | _ => srcSubscribe c sp

/-- `Observable.subscribe` of the operator's observable: `set_disposable`. -/
def outerSubscribe {α} (c : Cfg) (sp : SyncPhase α) : P α := fun s =>
  match opSubscribe c sp s with
  | (s', some e) =>               -- `if not auto_detach_observer.fail(ex): raise`
    if s'.d.stopped then (s', some e)
    else userCb c (.error e) { s' with d.stopped := true }
  | (s', none) =>                 -- `auto_detach_observer.subscription = R`
    if s'.d.sad then rDispose c s'
    else ({ s' with d.cur := true }, none)

/-- the whole subscribe phase; the caller records an exception that escapes `subscribe`
(then it has no handle). -/
def subscribePhase {α} (c : Cfg) (sp : SyncPhase α) : St α :=
  match outerSubscribe c sp {} with
  | (s, none) => { s with d.handle := true }
  | (s, some e) => { s with log := s.log ++ [.escape e] }

/-- events after `subscribe` returned -/
inductive Ev (α : Type) where
  | src (n : Notif α)
  | dispose
deriving Repr, BEq, DecidableEq

/-- `handle.dispose()`: `Disposable(D.dispose)` -/
def handleDispose {α} (c : Cfg) : P α := fun s =>
  if !s.d.handle || s.d.retDisposed then (s, none)
  else dDispose c { s with d.retDisposed := true }

def step {α} (c : Cfg) (s : St α) : Ev α → St α
  | .src n => if s.u.live then swallow (uNotify c n) s else s
  | .dispose => swallow (handleDispose c) s

def runFrom {α} (c : Cfg) : St α → List (Ev α) → St α
  | s, [] => s
  | s, e :: es => runFrom c (step c s e) es

/-- the final state (with the whole effect log) of one subscription's history -/
def run {α} (c : Cfg) (sp : SyncPhase α) (evs : List (Ev α)) : St α :=
  runFrom c (subscribePhase c sp) evs

/-- the effect log stamped with the virtual time of the input event that caused each effect -/
def runTimedFrom {α} (c : Cfg) : St α → List (Int × Ev α) → List (Int × Eff α)
  | _, [] => []
  | s, (t, e) :: es =>
    let s' := step c s e
    (s'.log.drop s.log.length).map (fun x => (t, x)) ++ runTimedFrom c s' es

def runTimed {α} (c : Cfg) (tSub : Int) (sp : SyncPhase α)
    (evs : List (Int × Ev α)) : List (Int × Eff α) × Bool :=
  let s0 := subscribePhase c sp
  (s0.log.map (fun x => (tSub, x)) ++ runTimedFrom c s0 evs, s0.d.handle)

/-! ## observations used by the theorems -/

def Eff.isResDispose {α} : Eff α → Bool | .resDispose => true | _ => false
def Eff.isSrcDispose {α} : Eff α → Bool | .srcDispose => true | _ => false
def Eff.isAct {α} (k : ActK) : Eff α → Bool | .act k' _ _ => k == k' | _ => false
def Eff.isEmit {α} : Eff α → Bool | .emit _ _ => true | _ => false
def Eff.isTermEmit {α} : Eff α → Bool | .emit n _ => n.isTerminal | _ => false

/-- number of `resource.dispose()` calls -/
def resCount {α} (l : List (Eff α)) : Nat := (l.filter Eff.isResDispose).length
/-- number of invocations of the operator's callback `k` -/
def actCount {α} (k : ActK) (l : List (Eff α)) : Nat := (l.filter (Eff.isAct k)).length
/-- a terminal notification was delivered to the subscriber -/
def hasTerm {α} (l : List (Eff α)) : Bool := l.any Eff.isTermEmit
/-- the history contains a `dispose` of the handle -/
def hasDispose {α} (evs : List (Ev α)) : Bool := evs.any (fun e => match e with | .dispose => true | _ => false)
/-- the history contains a terminal notification of the source -/
def hasSrcTerminal {α} (evs : List (Ev α)) : Bool :=
  evs.any (fun e => match e with | .src n => n.isTerminal | _ => false)
/-- no downstream callback runs after an invocation of the operator's callback `k`
(in particular: the invocation comes after the terminal callback) -/
def noEmitAfterAct {α} (k : ActK) : List (Eff α) → Bool
  | [] => true
  | e :: l => (!e.isAct k || l.all (fun x => !x.isEmit)) && noEmitAfterAct k l
/-- what the subscriber's callbacks received, in order -/
def delivered {α} (l : List (Eff α)) : List (Notif α) :=
  l.filterMap (fun e => match e with | .emit n _ => some n | _ => none)

/-! ## "each callback sees every corresponding notification once, in order" -/

/-- entries that are a delivery or a per-notification callback of the `do_*` family -/
def Eff.isCb {α} : Eff α → Bool
  | .emit _ _ => true
  | .act .next _ _ | .act .error _ _ | .act .completed _ _ | .act .afterNext _ _
  | .act .terminate _ _ | .act .afterTerminate _ _ => true
  | _ => false

/-- what the log must contain, around one delivery, for the operator's callbacks to have seen exactly that
notification (before it for `do_action`/`do_on_terminate`, after it for `do_after_*` — there only if the
subscriber's callback returned). -/
def expect {α} (c : Cfg) : Eff α → List (Eff α)
  | .emit n r =>
    match c.oper with
    | .doAction =>
      (match n with
        | .next v => if c.hasNext then [.act .next (some (.next v)) false] else []
        | .error e => if c.hasError then [.act .error (some (.error e)) false] else []
        | .completed => if c.hasCompleted then [.act .completed none false] else []) ++ [.emit n r]
    | .doAfterNext =>
      .emit n r :: (match n with | .next v => if r then [] else [.act .afterNext (some (.next v)) false] | _ => [])
    | .doOnTerminate => (if n.isTerminal then [.act .terminate none false] else []) ++ [.emit n r]
    | .doAfterTerminate => .emit n r :: (if n.isTerminal && !r then [.act .afterTerminate none false] else [])
    | _ => [.emit n r]
  | _ => []

/-- the deliveries and callback invocations in the log are exactly, in order, the deliveries each
accompanied by its callback invocation -/
def cbShape {α} (c : Cfg) (l : List (Eff α)) : Prop :=
  l.filter Eff.isCb = (l.filter Eff.isEmit).flatMap (expect c)

/-- operators that return the source subscription itself -/
def Plain (c : Cfg) : Prop :=
  c.oper = .doAction ∨ c.oper = .doAfterNext ∨ c.oper = .doOnTerminate ∨ c.oper = .doAfterTerminate ∨ c.oper = .doOnSubscribe

/-! ## the reference pipeline for transparency -/

/-- the same subscription without the operator: `do_action()` with no callbacks
(`if not on_next: observer.on_next(x)` …), i.e. source → `U` → `D` → subscriber. -/
def Cfg.ident (c : Cfg) : Cfg := { c with oper := .doAction, hasNext := false, hasError := false, hasCompleted := false }

/-- what both pipelines have in common: deliveries, source-subscription disposal, escaping exceptions -/
def Eff.common {α} : Eff α → Bool
  | .emit _ _ => true
  | .srcDispose => true
  | .escape _ => true
  | _ => false

def view {α} (l : List (Eff α)) : List (Eff α) := l.filter Eff.common


/-- hypotheses of the transparency theorem: no callback of the operator raises; for `do_after_next`
(whose `try` also covers `observer.on_next`) the subscriber's callbacks do not raise either; for `using` the
factories succeed; the inner subscription's `dispose()` does not raise. -/
structure Quiet (c : Cfg) : Prop where
  nr : ∀ k, c.actRaises k = false
  an : c.oper = .doAfterNext → ∀ k, c.subRaises k = false
  us : c.oper = .using → c.resf ≠ .raise ∧ c.obsfRaises = false
  sd : c.srcDisposeRaises = false


end WinFin

/-!
# Thr.Tramp — the trampoline (`Trampoline.run/_run`), `TrampolineScheduler`, `CurrentThreadScheduler`

Mirrors `reactivex/scheduler/trampoline.py`, `trampolinescheduler.py`, `currentthreadscheduler.py`,
`scheduleditem.py`.  Actions are DATA: an action is a list of `Op`s ("when run: schedule these
children, cancel those items, take that much time").  The interpreter is a small-step machine with an
explicit call stack, so that nesting is something the model *could* do (a `schedule` call made while
the trampoline is idle runs the drain loop inside the caller, exactly as `Trampoline.run` does) — that
it never happens while an action is running is a theorem (`C30.tramp_never_nested`), not a feature of
the model.

One transition = one atomic step of the code:
  * `act … (schedX :: _)`  : `schedule*` computes `dt` from `self.now` (unlocked)              → `enq`
  * `enq …`                : `Trampoline.run`: `with lock: enqueue; if idle: idle=False else: notify; return`
  * `drain collect`        : `_run`: `with lock: while queue and peek.due <= now: ready.append(dequeue())`
  * `drain exec`           : `item = ready.popleft(); if not item.is_cancelled(): item.invoke()`
  * `drain check`          : `with lock: if not queue: break; …; if seconds > 0: condition.wait(seconds)`
  * `drain final`          : `finally: with lock: idle = True; queue.clear()`
  * `act … (raise_ :: _)`  : the action raises: the exception leaves `item.invoke()`, `_run` (its `ready` batch is lost)
  * `drain abort`          : `except BaseException: with lock: idle = True; queue.clear()`; re-raise to the `schedule*` caller
With `fixed = true` (the proposed fix of the lost-item race) the emptiness test and `idle = True`
are one locked step and there is no `final` step.

Time: integer microseconds; `dt` = time that passed since the previous step (arbitrary in the theorems).
`condition.wait(seconds)` is its own state (`drain waiting`): it may return at any time (timeout, or early
when another thread enqueues on a shared trampoline and notifies); a lone thread's wait lasts until the due
time (`dtFor`).
-/

namespace Thr.Tramp

inductive Op where
  | sched (lbl : Nat) (body : List Op)                  -- scheduler.schedule(action)
  | schedRel (lbl : Nat) (d : Int) (body : List Op)     -- scheduler.schedule_relative(d, action)
  | schedAbs (lbl : Nat) (t : Int) (body : List Op)     -- scheduler.schedule_absolute(t, action)
  | cancel (lbl : Nat)                                  -- dispose the disposable returned for item `lbl`
  | tick (d : Nat)                                      -- the action takes d µs
  | raise_                                              -- the action raises (the exception leaves `Trampoline.run`)
deriving Repr

/-- a `ScheduledItem`; `seq` is the PriorityQueue's insertion count (ghost: global scheduling order). -/
structure Item where
  id : Nat
  due : Int
  seq : Nat
  body : List Op
deriving Repr

inductive Phase where
  | collect | exec | check | final
  | waiting     -- inside `condition.wait(seconds)`: returns on timeout or when another thread's `run` notifies
  | abort       -- an action raised: `except BaseException: with lock: idle = True; queue.clear()` then re-raise
deriving Repr, DecidableEq

inductive Frame where
  | act (id : Option Nat) (ops : List Op)                       -- an action body (none = top-level program)
  | enq (id : Option Nat) (it : Item) (ops : List Op)           -- inside schedule*: item built, `Trampoline.run(item)` next
  | drain (ph : Phase) (ready : List Item)                      -- an activation of `Trampoline.run` → `_run`
deriving Repr

inductive Kind where
  | imm | rel | abs
deriving Repr, DecidableEq

/-- observable events (per thread, newest first in `Th.log`) -/
inductive Ev where
  | sched (id : Nat) (due : Int) (clk : Int) (kind : Kind)      -- `dt` computed at clock `clk`
  | enq (id : Nat) (seq : Nat) (runner : Bool)                  -- enqueued; runner = this call drains the queue
  | start (id : Nat) (due : Int) (seq : Nat) (clk : Int)        -- action invoked
  | fin (id : Nat)                                              -- action returned
  | raised (id : Nat)                                           -- action raised
  | cancel (id : Nat)
  | skip (id : Nat)                                             -- popped from the ready batch, found cancelled
  | collect (n : Nat)
  | wait (till : Int)
  | woke                                                        -- `condition.wait` returned
  | exit_                                                       -- drain loop left (queue empty)
  | final (dropped : List Nat)                                  -- `finally` block; ids removed by `queue.clear()`
deriving Repr, DecidableEq

/-- shared state of one trampoline -/
structure Tr where
  idle : Bool := true
  queue : List Item := []
  raisedG : Bool := false      -- ghost: some action raised on this trampoline (items were discarded)
deriving Repr

/-- state shared by all threads -/
structure Glob where
  clock : Int := 0
  cancelled : List Nat := []
  nsched : Nat := 0
deriving Repr

structure Th where
  stack : List Frame
  log : List Ev := []
deriving Repr

/-- stable priority queue: insert after every item that is due no later. -/
def enqueue : List Item → Item → List Item
  | [], it => [it]
  | x :: xs, it => if x.due ≤ it.due then x :: enqueue xs it else it :: x :: xs

def isDue (clock : Int) (it : Item) : Bool := decide (it.due ≤ clock)

/-- one atomic step of a thread on its trampoline. -/
def thStep (fixed : Bool) (tr : Tr) (g : Glob) (th : Th) : Tr × Glob × Th :=
  match th.stack with
  | [] => (tr, g, th)
  | .act id [] :: rest =>
    (tr, g, { stack := rest, log := match id with | some i => .fin i :: th.log | none => th.log })
  | .act id (op :: ops) :: rest =>
    match op with
    | .tick d => (tr, { g with clock := g.clock + d }, { th with stack := .act id ops :: rest })
    | .cancel k => (tr, { g with cancelled := k :: g.cancelled }, { stack := .act id ops :: rest, log := .cancel k :: th.log })
    | .sched l body =>
      (tr, g, { stack := .enq id ⟨l, g.clock, 0, body⟩ ops :: rest, log := .sched l g.clock g.clock .imm :: th.log })
    | .schedRel l d body =>
      (tr, g, { stack := .enq id ⟨l, g.clock + max d 0, 0, body⟩ ops :: rest,
                log := .sched l (g.clock + max d 0) g.clock .rel :: th.log })
    | .schedAbs l t body =>
      (tr, g, { stack := .enq id ⟨l, t, 0, body⟩ ops :: rest, log := .sched l t g.clock .abs :: th.log })
    | .raise_ =>
      -- the exception unwinds the action and the drain loop's local `ready` batch; the top-level program (which catches
      -- per call) continues.  At top level (`id = none`) a raise is a no-op.
      match id, rest with
      | some i, .drain _ _ :: rest' =>
        ({ tr with raisedG := true }, g, { stack := .drain .abort [] :: rest', log := .raised i :: th.log })
      | _, _ => (tr, g, { th with stack := .act id ops :: rest })
  | .enq id it ops :: rest =>
    let it' := { it with seq := g.nsched }
    let q := enqueue tr.queue it'
    let g' := { g with nsched := g.nsched + 1 }
    if tr.idle then
      ({ tr with idle := false, queue := q }, g',
        { stack := .drain .collect [] :: .act id ops :: rest, log := .enq it.id g.nsched true :: th.log })
    else
      ({ tr with queue := q }, g', { stack := .act id ops :: rest, log := .enq it.id g.nsched false :: th.log })
  | .drain .collect ready :: rest =>
    let due := tr.queue.takeWhile (isDue g.clock)
    ({ tr with queue := tr.queue.dropWhile (isDue g.clock) }, g,
      { stack := .drain .exec (ready ++ due) :: rest, log := .collect due.length :: th.log })
  | .drain .exec [] :: rest => (tr, g, { th with stack := .drain .check [] :: rest })
  | .drain .exec (it :: ready) :: rest =>
    if it.id ∈ g.cancelled then
      (tr, g, { stack := .drain .exec ready :: rest, log := .skip it.id :: th.log })
    else
      (tr, g, { stack := .act (some it.id) it.body :: .drain .exec ready :: rest,
                log := .start it.id it.due it.seq g.clock :: th.log })
  | .drain .check ready :: rest =>
    match tr.queue with
    | [] =>
      if fixed then ({ tr with idle := true }, g, { stack := rest, log := .exit_ :: th.log })
      else (tr, g, { stack := .drain .final ready :: rest, log := .exit_ :: th.log })
    | it :: _ =>
      if it.due > g.clock then
        (tr, g, { stack := .drain .waiting ready :: rest, log := .wait it.due :: th.log })
      else (tr, g, { th with stack := .drain .collect ready :: rest })
  | .drain .waiting ready :: rest =>
    -- the wait returns (timeout, or a notify from another thread that enqueued on this trampoline); the time that passed
    -- is the `dt` of this step
    (tr, g, { stack := .drain .collect ready :: rest, log := .woke :: th.log })
  | .drain .final _ :: rest =>
    ({ tr with idle := true, queue := [] }, g, { stack := rest, log := .final (tr.queue.map (·.id)) :: th.log })
  | .drain .abort _ :: rest =>
    ({ tr with idle := true, queue := [] }, g, { stack := rest, log := .final (tr.queue.map (·.id)) :: th.log })

/-! ## single-thread machine -/

structure St where
  tr : Tr := {}
  g : Glob := {}
  th : Th
deriving Repr

/-- `dt` µs pass, then the thread makes one step. -/
def step (fixed : Bool) (s : St) (dt : Nat) : St :=
  let (tr, g, th) := thStep fixed s.tr { s.g with clock := s.g.clock + dt } s.th
  { tr, g, th }

def run (fixed : Bool) (s : St) (dts : List Nat) : St := dts.foldl (step fixed) s

/-- what the rest of the world (other threads) may do between two steps of this thread: let time pass,
enqueue items elsewhere (the global sequence counter grows), cancel items. -/
inductive Act where
  | go (dt : Nat)                                  -- `dt` µs pass, then this thread makes one step
  | env (dt dn : Nat) (cs : List Nat)              -- other threads: time, sequence numbers, cancellations

def envStep (s : St) (dt dn : Nat) (cs : List Nat) : St :=
  { s with g := { clock := s.g.clock + dt, cancelled := cs ++ s.g.cancelled, nsched := s.g.nsched + dn } }

def stepA (fixed : Bool) (s : St) : Act → St
  | .go dt => step fixed s dt
  | .env dt dn cs => envStep s dt dn cs

def runA (fixed : Bool) (s : St) (acts : List Act) : St := acts.foldl (stepA fixed) s

def init (prog : List Op) (clock : Int := 0) : St :=
  { g := { clock }, th := { stack := [.act none prog] } }

/-- time a lone thread spends in its next step: a `wait(seconds)` that nobody interrupts lasts until the due time -/
def dtFor (s : St) : Nat :=
  match s.th.stack, s.tr.queue with
  | .drain .waiting _ :: _, it :: _ => (it.due - s.g.clock).toNat
  | _, _ => 0

/-- deterministic execution with a clock that only moves through `tick` and `wait` (fuel-bounded). -/
def exec (fixed : Bool) : Nat → St → St
  | 0, s => s
  | n + 1, s => match s.th.stack with
    | [] => s
    | _ => exec fixed n (step fixed s (dtFor s))

/-! ## several threads, several trampolines (CurrentThreadScheduler: one per thread; shared TrampolineScheduler: one for all) -/

structure Sys where
  g : Glob := {}
  trs : List Tr
  ths : List (Nat × Th)      -- (index of the trampoline the thread uses, thread state)
deriving Repr

def Sys.step (fixed : Bool) (s : Sys) (i : Nat) (dt : Nat) : Sys :=
  match s.ths[i]? with
  | none => s
  | some (k, th) =>
    match s.trs[k]? with
    | none => s
    | some tr =>
      let (tr', g', th') := thStep fixed tr { s.g with clock := s.g.clock + dt } th
      { g := g', trs := s.trs.set k tr', ths := s.ths.set i (k, th') }

def Sys.run (fixed : Bool) (s : Sys) (sched : List (Nat × Nat)) : Sys :=
  sched.foldl (fun s p => s.step fixed p.1 p.2) s

def Sys.init (ntr : Nat) (progs : List (Nat × List Op)) (clock : Int := 0) : Sys :=
  { g := { clock }, trs := List.replicate ntr {}, ths := progs.map fun (k, p) => (k, { stack := [.act none p] }) }

def Sys.done (s : Sys) : Bool := s.ths.all fun (_, th) => th.stack.isEmpty

end Thr.Tramp

/-!
# L0 Core — notifications, the auto-detaching observer, the Observer base class

Mirrors `reactivex/observer/autodetachobserver.py`, `reactivex/observer/observer.py` and the
`set_disposable` closure of `Observable.subscribe` (`reactivex/observable/observable.py`).
Errors are named by strings (the harness names every injected exception).
-/

abbrev Err := String

inductive Notif (α : Type) where
  | next (v : α)
  | error (e : Err)
  | completed
deriving Repr, BEq, DecidableEq, Inhabited

namespace Notif
def isTerminal {α} : Notif α → Bool
  | .next _ => false
  | _ => true
def map {α β} (f : α → β) : Notif α → Notif β
  | .next v => .next (f v)
  | .error e => .error e
  | .completed => .completed
end Notif

/-- `next* (error | completed)?` — the Rx grammar on a list of delivered notifications. -/
def Grammar {α} : List (Notif α) → Prop
  | [] => True
  | [_] => True
  | n :: m :: rest => n.isTerminal = false ∧ Grammar (m :: rest)

def Grammar.dec {α} : (l : List (Notif α)) → Decidable (Grammar l)
  | [] => isTrue trivial
  | [_] => isTrue trivial
  | n :: m :: rest =>
    match (inferInstance : Decidable (n.isTerminal = false)), Grammar.dec (m :: rest) with
    | isTrue h1, isTrue h2 => isTrue ⟨h1, h2⟩
    | isFalse h1, _ => isFalse (fun h => h1 h.1)
    | _, isFalse h2 => isFalse (fun h => h2 h.2)

instance {α} (l : List (Notif α)) : Decidable (Grammar l) := Grammar.dec l

/-- A call made on an observer by whatever is upstream of it. -/
inductive ObsCall (α : Type) where
  | next (v : α)
  | error (e : Err)
  | completed
  | dispose
  | fail (e : Err)
deriving Repr, BEq, DecidableEq

/-- What one call on an observer did: which user callback ran (if any), whether the exception
raised by that callback propagated to the caller, and how many times the observer's own
subscription was disposed by this call. -/
structure CallOut (α : Type) where
  delivered : Option (Notif α)
  raised : Bool
  disposes : Nat
deriving Repr, BEq, DecidableEq

/-- `AutoDetachObserver`: `stopped` is `is_stopped`; `cbs` counts user-callback invocations so far
(the index into the adversary `raises`). -/
structure Ado where
  stopped : Bool := false
  cbs : Nat := 0
deriving Repr, BEq, DecidableEq

namespace Ado

/-- One call on an `AutoDetachObserver`, line by line as written.  `raises k` says whether the
k-th user-callback invocation raises. -/
def step {α} (raises : Nat → Bool) (s : Ado) : ObsCall α → Ado × CallOut α
  | .next v =>
    if s.stopped then (s, ⟨none, false, 0⟩)
    else ({ s with cbs := s.cbs + 1 }, ⟨some (.next v), raises s.cbs, 0⟩)
  | .error e =>
    if s.stopped then (s, ⟨none, false, 0⟩)
    else ({ stopped := true, cbs := s.cbs + 1 }, ⟨some (.error e), raises s.cbs, 1⟩)  -- finally: dispose()
  | .completed =>
    if s.stopped then (s, ⟨none, false, 0⟩)
    else ({ stopped := true, cbs := s.cbs + 1 }, ⟨some .completed, raises s.cbs, 1⟩)
  | .dispose => ({ s with stopped := true }, ⟨none, false, 1⟩)
  | .fail e =>
    if s.stopped then (s, ⟨none, false, 0⟩)     -- returns False: caller re-raises
    else ({ stopped := true, cbs := s.cbs + 1 }, ⟨some (.error e), raises s.cbs, 0⟩)

/-- Feed a whole call list; collect the per-call outcomes. -/
def runOuts {α} (raises : Nat → Bool) : Ado → List (ObsCall α) → List (CallOut α)
  | _, [] => []
  | s, c :: cs => (step raises s c).2 :: runOuts raises (step raises s c).1 cs

def final {α} (raises : Nat → Bool) : Ado → List (ObsCall α) → Ado
  | s, [] => s
  | s, c :: cs => final raises (step raises s c).1 cs

/-- The user-callback invocations, in order: what the subscriber sees. -/
def delivered {α} (raises : Nat → Bool) (s : Ado) (cs : List (ObsCall α)) : List (Notif α) :=
  (runOuts raises s cs).filterMap (·.delivered)

end Ado

/-- `Observer` base class (`reactivex/observer/observer.py`): same grammar enforcement,
`dispose` only stops, terminal callbacks do not dispose anything. -/
structure ObsBase where
  stopped : Bool := false
  cbs : Nat := 0
deriving Repr, BEq, DecidableEq

namespace ObsBase
def step {α} (raises : Nat → Bool) (s : ObsBase) : ObsCall α → ObsBase × CallOut α
  | .next v =>
    if s.stopped then (s, ⟨none, false, 0⟩)
    else ({ s with cbs := s.cbs + 1 }, ⟨some (.next v), raises s.cbs, 0⟩)
  | .error e =>
    if s.stopped then (s, ⟨none, false, 0⟩)
    else ({ stopped := true, cbs := s.cbs + 1 }, ⟨some (.error e), raises s.cbs, 0⟩)
  | .completed =>
    if s.stopped then (s, ⟨none, false, 0⟩)
    else ({ stopped := true, cbs := s.cbs + 1 }, ⟨some .completed, raises s.cbs, 0⟩)
  | .dispose => ({ s with stopped := true }, ⟨none, false, 0⟩)
  | .fail e =>
    if s.stopped then (s, ⟨none, false, 0⟩)
    else ({ stopped := true, cbs := s.cbs + 1 }, ⟨some (.error e), raises s.cbs, 0⟩)

def runOuts {α} (raises : Nat → Bool) : ObsBase → List (ObsCall α) → List (CallOut α)
  | _, [] => []
  | s, c :: cs => (step raises s c).2 :: runOuts raises (step raises s c).1 cs

def delivered {α} (raises : Nat → Bool) (s : ObsBase) (cs : List (ObsCall α)) : List (Notif α) :=
  (runOuts raises s cs).filterMap (·.delivered)
end ObsBase

/-- `Observable.subscribe` → `set_disposable`: the subscriber body makes the calls `body` on the
fresh `AutoDetachObserver` and then either returns or raises `exn`; an exception goes through
`fail`; afterwards (via a saved reference) arbitrary further calls `later` may arrive.
Result: what the subscriber sees, and whether `subscribe` itself raised (the body's exception
re-raised because the observer was already stopped, or the user's `on_error` raising inside `fail`). -/
def subscribeRun {α} (raises : Nat → Bool) (body : List (ObsCall α)) (exn : Option Err)
    (later : List (ObsCall α)) : List (Notif α) × Bool :=
  let calls := body ++ (match exn with | some e => [ObsCall.fail e] | none => []) ++ later
  let seen := Ado.delivered raises {} calls
  let afterBody := Ado.final raises {} body
  (seen, exn.isSome && (afterBody.stopped || raises afterBody.cbs))

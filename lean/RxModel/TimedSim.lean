import RxModel.TimedWin
import RxModel.TimedRate
import RxModel.TimedMap
/-!
# TimedSim — a small virtual-time scheduler that executes the operators' handler functions

`RxModel/TimedWin.lean` / `TimedRate.lean` define the two-stream runs with the scheduler's `(due, seq)` rule inlined as
a comparison (`due < t`: "the timer runs before a source message at `t`").  Here the rule is *not* inlined: there is a
queue of scheduled items kept in `(due time, insertion order)` order (`insertEv`: a new item goes behind every item whose
due time is not later — `VirtualTimeScheduler` / `PriorityQueue`), the clock is the due time of the item being run (or
stays where it is for an item due in the past), the source's messages are scheduled first (a hot observable schedules
them when it is created), and the operator's timers are scheduled when its handlers run.  The handlers are the SAME
functions the two-stream runs use (`debOnNext`, `debAction`, `toOnNext`, `toAction`, …).
`RxProofs/Lemmas/TimedSim.lean` proves `sim = two-stream run`.
-/

namespace Timed

/-- a scheduled item: a message of the (hot) source, or an action scheduled by the operator (payload `P`) -/
inductive SItem (α P : Type) where
  | src (n : Notif α)
  | timer (p : P)

def SItem.isTimer {α P} : SItem α P → Bool
  | .timer _ => true
  | .src _ => false

/-- what a handler does to the operator's timer container (a `SerialDisposable`, or the one timer it armed):
nothing; dispose it; assign a newly scheduled action (which disposes the previous one) -/
inductive TEff (P : Type) where
  | keep
  | cancel
  | arm (due : Nat) (p : P)

structure SimOp (σ α β P : Type) where
  /-- a source notification at clock `now` -/
  onSrc : Nat → σ → Notif α → σ × List (Notif β) × TEff P
  /-- the scheduled action at clock `now`; the flag asks for the fallback observable to be subscribed -/
  onTimer : Nat → σ → P → σ × List (Notif β) × Bool

abbrev SQueue (α P : Type) := List (Nat × SItem α P)

def cancelTimers {α P} (q : SQueue α P) : SQueue α P := q.filter (fun it => !it.2.isTimer)

def applyEff {α P} : TEff P → SQueue α P → SQueue α P
  | .keep, q => q
  | .cancel, q => cancelTimers q
  | .arm due p, q => insertEv (due, .timer p) (cancelTimers q)

/-- does a list of downstream calls contain a terminal (then the subscriber's `AutoDetachObserver` disposes everything) -/
def hasTerm {β} (out : List (Notif β)) : Bool := out.any (fun n => !isNext n)

/-- the scheduler loop: take the first item of the queue, move the clock, run it.  `fuel` bounds the number of items
run (every source item schedules at most one action and actions schedule nothing, so `2·messages + 2` suffices). -/
def simRun {σ α β P} (op : SimOp σ α β P) (other : Nat → TL β) : Nat → Nat → SQueue α P → σ → TL β
  | 0, _, _, _ => []
  | _ + 1, _, [], _ => []
  | fuel + 1, clk, (due, it) :: q, s =>
    match it with
    | .src n =>
      at_ (max clk due) (op.onSrc (max clk due) s n).2.1 ++
        (if hasTerm (op.onSrc (max clk due) s n).2.1 then []
         else simRun op other fuel (max clk due) (applyEff (op.onSrc (max clk due) s n).2.2 q) (op.onSrc (max clk due) s n).1)
    | .timer p =>
      at_ (max clk due) (op.onTimer (max clk due) s p).2.1 ++
        (if (op.onTimer (max clk due) s p).2.2 then other (max clk due)
         else if hasTerm (op.onTimer (max clk due) s p).2.1 then []
         else simRun op other fuel (max clk due) q (op.onTimer (max clk due) s p).1)

/-- the messages of the source as scheduled items, in scheduling order -/
def srcItems {α P} (msgs : TL α) : SQueue α P := msgs.map (fun m => (m.1, SItem.src m.2))

/-- the queue when the source's messages were scheduled first and then (possibly) one operator action -/
def simQueue {α P} (msgs : TL α) : Option (Nat × P) → SQueue α P
  | none => srcItems msgs
  | some (due, p) => insertEv (due, .timer p) (srcItems msgs)

def simStart {σ α β P} (op : SimOp σ α β P) (other : Nat → TL β) (clk : Nat) (tm : Option (Nat × P)) (s : σ)
    (msgs : TL α) : TL β :=
  simRun op other (2 * msgs.length + 2) clk (simQueue msgs tm) s

/-! ## The generic two-stream run (the comparison `due < t` in place of the queue) -/

structure Pre (σ β P : Type) where
  clk : Nat
  tm : Option (Nat × P)
  s : σ
  out : TL β
  halt : Bool

/-- run the pending action if it precedes a source message at `t` (`none`: no more source messages) -/
def preFire {σ α β P} (op : SimOp σ α β P) (other : Nat → TL β) (clk : Nat) (tm : Option (Nat × P)) (s : σ)
    (t : Option Nat) : Pre σ β P :=
  match tm with
  | some (due, p) =>
    if (match t with | none => true | some t => decide (due < t)) then
      { clk := max clk due, tm := none, s := (op.onTimer (max clk due) s p).1,
        out := at_ (max clk due) (op.onTimer (max clk due) s p).2.1 ++
                 (if (op.onTimer (max clk due) s p).2.2 then other (max clk due) else []),
        halt := (op.onTimer (max clk due) s p).2.2 || hasTerm (op.onTimer (max clk due) s p).2.1 }
    else { clk := clk, tm := tm, s := s, out := [], halt := false }
  | none => { clk := clk, tm := none, s := s, out := [], halt := false }

def effTm {P} : TEff P → Option (Nat × P) → Option (Nat × P)
  | .keep, tm => tm
  | .cancel, _ => none
  | .arm due p, _ => some (due, p)

def twoStream {σ α β P} (op : SimOp σ α β P) (other : Nat → TL β) : Nat → Option (Nat × P) → σ → TL α → TL β
  | clk, tm, s, [] => (preFire op other clk tm s none).out
  | clk, tm, s, (t, n) :: rest =>
    (preFire op other clk tm s (some t)).out ++
      (if (preFire op other clk tm s (some t)).halt then []
       else
        at_ (max (preFire op other clk tm s (some t)).clk t)
            (op.onSrc (max (preFire op other clk tm s (some t)).clk t) (preFire op other clk tm s (some t)).s n).2.1 ++
          (if hasTerm (op.onSrc (max (preFire op other clk tm s (some t)).clk t) (preFire op other clk tm s (some t)).s n).2.1
           then []
           else twoStream op other (max (preFire op other clk tm s (some t)).clk t)
                  (effTm (op.onSrc (max (preFire op other clk tm s (some t)).clk t) (preFire op other clk tm s (some t)).s n).2.2
                     (preFire op other clk tm s (some t)).tm)
                  (op.onSrc (max (preFire op other clk tm s (some t)).clk t) (preFire op other clk tm s (some t)).s n).1 rest))

/-! ## The operators as `SimOp`s — nothing but their handler functions -/

/-- debounce: `on_next` assigns a newly scheduled action to `cancelable`, `on_error`/`on_completed` dispose it -/
def debOp {α} (d : Nat) : SimOp (DebSt α) α α Nat where
  onSrc now s n :=
    match n with
    | .next x =>
      (debOnNext d now s x, [],
        match (debOnNext d now s x).timer with
        | some (due, cur) => .arm due cur
        | none => .keep)
    | .error e => ((debOnError s e).1, (debOnError s e).2, .cancel)
    | .completed => ((debOnCompleted s).1, (debOnCompleted s).2, .cancel)
  onTimer _ s cur := ((debAction s cur).1, (debAction s cur).2, false)

/-- timeout: `create_timer()` assigns a newly scheduled action to `timer`; the action switches to the fallback when
`_id[0] == my_id` -/
def toOp {α} (mode : Due) : SimOp ToSt α α ToTimer where
  onSrc now s n :=
    ((toHandle mode now s n).1, (toHandle mode now s n).2,
      match n with
      | .next _ =>
        (match (toHandle (α := α) mode now s n).1.timer with
         | some tm => if s.switched then TEff.keep else .arm tm.due tm
         | none => .keep)
      | _ => .keep)
  onTimer _ s tm := (toAction s tm, [], (toAction s tm).switched)

/-- take_with_time / take_until_with_time: the timer's action is `observer.on_completed()`, the source is relayed -/
def twtOp {α} : SimOp Unit α α Unit where
  onSrc _ s n := (s, [n], .keep)
  onTimer _ s _ := (s, [.completed], false)

/-- skip_with_time / skip_until_with_time: the timer's action opens the gate -/
def swtOp {α} : SimOp Bool α α Unit where
  onSrc _ isOpen n :=
    match n with
    | .next v => (isOpen, swtOnNext isOpen v, .keep)
    | n => (isOpen, [n], .keep)
  onTimer _ _ _ := (true, [], false)

/-- throttle_first owns no timer: its handler reads the clock -/
def tfOp {α} (w : Nat) : SimOp (Option Nat) α α Unit where
  onSrc now last n :=
    match n with
    | .next x => ((tfOnNext w now last x).1, (tfOnNext w now last x).2, .keep)
    | n => (last, [n], .keep)
  onTimer _ s _ := (s, [], false)

/-! ## sample(observable): two pre-scheduled event lists and no timer -/

inductive SampItem (α : Type) where
  | src (n : Notif α)
  | samp (ev : SampEv)

/-- the scheduler loop for `sample`: `srcLive` = the source subscription's observer is not stopped -/
def sampSim {α} : List (Nat × SampItem α) → Bool → SampSt α → TL α
  | [], _, _ => []
  | (t, .src n) :: q, srcLive, s =>
    if srcLive then
      match n with
      | .next v => sampSim q true (sampOnNext s v)
      | .error e => [(t, .error e)]
      | .completed => sampSim q false (sampOnCompleted s)
    else sampSim q false s
  | (k, .samp ev) :: q, srcLive, s =>
    match ev with
    | .tick => at_ k (sampTick s).2 ++ (if s.atEnd then [] else sampSim q srcLive (sampTick s).1)
    | .err e => [(k, .error e)]

def sampSrcItems {α} (msgs : TL α) : List (Nat × SampItem α) := msgs.map (fun m => (m.1, SampItem.src m.2))
def sampTickItems {α} (ticks : List (Nat × SampEv)) : List (Nat × SampItem α) := ticks.map (fun m => (m.1, SampItem.samp m.2))

/-! ## Resources: what is live, what `dispose` of the returned disposable releases (C02/C03 support)

Small-step version of `simRun` with the resources made explicit: the source subscription (`srcLive`), the scheduled
actions still in the queue (`timersOf`), the fallback subscription of timeout (`otherLive`).  Every one of the operators
here returns `CompositeDisposable(source subscription, timer container)` (`_debounce.py`: `(subscription, cancelable)`,
`_timeout.py`: `(subscription, timer)` with the fallback assigned into `subscription`, `_takewithtime.py` &c.:
`(disp, source subscription)`), so disposing it — which is also what the subscriber's `AutoDetachObserver` does on a
terminal — disposes the source subscription, the fallback, and the action HELD by the timer container (`held st`).
That this is *every* scheduled action is the invariant proved in `RxProofs/C02Timed.lean`. -/

structure SimSt (σ α P : Type) where
  clk : Nat
  queue : SQueue α P
  st : σ
  srcLive : Bool := true
  otherLive : Bool := false

def timersOf {α P} (q : SQueue α P) : List P :=
  q.filterMap (fun it => match it.2 with | .timer p => some p | .src _ => none)

def SimSt.liveCount {σ α P} (x : SimSt σ α P) : Nat :=
  x.srcLive.toNat + (timersOf x.queue).length + x.otherLive.toNat

/-- dispose the disposable returned by `subscribe` -/
def SimSt.dispose {σ α P} [DecidableEq P] (held : σ → Option P) (x : SimSt σ α P) : SimSt σ α P :=
  { x with
    queue := x.queue.filter (fun it => match it.2 with | .timer p => !(decide (held x.st = some p)) | .src _ => true),
    srcLive := false, otherLive := false }

def simStep {σ α β P} [DecidableEq P] (op : SimOp σ α β P) (held : σ → Option P) (x : SimSt σ α P) :
    Option (SimSt σ α P × TL β) :=
  match x.queue with
  | [] => none
  | (due, .src n) :: q =>
    if x.srcLive then
      let r := op.onSrc (max x.clk due) x.st n
      let x' : SimSt σ α P := { x with clk := max x.clk due, queue := applyEff r.2.2 q, st := r.1 }
      some (if hasTerm r.2.1 then x'.dispose held else x', at_ (max x.clk due) r.2.1)
    else some ({ x with clk := max x.clk due, queue := q }, [])       -- the subscription's observer is stopped
  | (due, .timer p) :: q =>
    let r := op.onTimer (max x.clk due) x.st p
    let x' : SimSt σ α P :=
      { x with clk := max x.clk due, queue := q, st := r.1,
               srcLive := x.srcLive && !r.2.2, otherLive := x.otherLive || r.2.2 }   -- the fallback replaces the source
    some (if hasTerm r.2.1 then x'.dispose held else x', at_ (max x.clk due) r.2.1)

/-- what a handler may do to the timer container, in terms of what the container holds afterwards -/
structure HeldLaws {σ α β P} (op : SimOp σ α β P) (held : σ → Option P) : Prop where
  arm : ∀ now s n due p, (op.onSrc now s n).2.2 = TEff.arm due p → held (op.onSrc now s n).1 = some p
  keep : ∀ now s n p, (op.onSrc now s n).2.2 = TEff.keep → held s = some p → held (op.onSrc now s n).1 = some p

/-- at most one scheduled action, and it is the one the timer container holds -/
def SimSt.Owned {σ α P} (held : σ → Option P) (x : SimSt σ α P) : Prop :=
  (timersOf x.queue).length ≤ 1 ∧ ∀ p ∈ timersOf x.queue, held x.st = some p

def debHeld {α} (s : DebSt α) : Option Nat := s.timer.map (·.2)
def toHeld (s : ToSt) : Option ToTimer := s.timer

/-! ## Re-entrant feedback (correspondence only; no theorem)
The consumer, from inside its `on_next` for its `k`-th element, pushes `echo k` into the same hot source.  The nested
`on_next` runs in the state the operator is in when it calls downstream: for throttle_first after `last_on_next = now`,
for sample after `has_value = False` (and before the `at_end` test).  Echoes do not echo. -/

def tfRunFb {α} (w : Nat) (echo : Nat → Option α) : Nat → Option Nat → TL α → TL α
  | _, _, [] => []
  | k, last, (t, .next x) :: rest =>
    match (tfOnNext w t last x).2 with
    | [] => tfRunFb w echo k (tfOnNext w t last x).1 rest
    | out =>
      match echo k with
      | some e =>
        at_ t out ++ at_ t (tfOnNext w t (tfOnNext w t last x).1 e).2 ++
          tfRunFb w echo (k + 1 + (tfOnNext w t (tfOnNext w t last x).1 e).2.length)
            (tfOnNext w t (tfOnNext w t last x).1 e).1 rest
      | none => at_ t out ++ tfRunFb w echo (k + 1) (tfOnNext w t last x).1 rest
  | _, _, (t, n) :: _ => [(t, n)]

def sampSimFb {α} (echo : Nat → Option α) (isEcho : α → Bool) : Nat → List (Nat × SampItem α) → Bool → SampSt α → TL α
  | _, [], _, _ => []
  | k, (t, .src n) :: q, srcLive, s =>
    if srcLive then
      match n with
      | .next v => sampSimFb echo isEcho k q true (sampOnNext s v)
      | .error e => [(t, .error e)]
      | .completed => sampSimFb echo isEcho k q false (sampOnCompleted s)
    else sampSimFb echo isEcho k q false s
  | k, (tk, .samp ev) :: q, srcLive, s =>
    match ev with
    | .tick =>
      let delivered := s.hasValue && s.value.isSome
      let s1 := (sampTick s).1
      let fresh := match s.value with | some v => !isEcho v | none => false
      let s2 := if delivered && srcLive && fresh then (match echo k with | some e => sampOnNext s1 e | none => s1) else s1
      at_ tk (sampTick s).2 ++ (if s.atEnd then [] else sampSimFb echo isEcho (if delivered then k + 1 else k) q srcLive s2)
    | .err e => [(tk, .error e)]

/-! ### feedback on the scheduler simulation (debounce after `fix: debounce clears its pending flag before emitting …`,
throttle_with_mapper after the corresponding fix)
With the flag cleared / the timestamp recorded BEFORE the downstream call, a nested `on_next` from inside the consumer
finds the operator in the state the handler leaves, and nothing of the handler remains to run afterwards: the echo is
simply the next item the source delivers — pushed at the FRONT of the queue. -/

/-- the echoes the consumer pushes while receiving `out` (delivery counter `k`), and the new counter -/
def echoesOf {α β} (echo : Nat → Option α) (isEcho : β → Bool) : Nat → List (Notif β) → List α × Nat
  | k, [] => ([], k)
  | k, .next v :: rest =>
    match (if isEcho v then none else echo k) with
    | some e => (e :: (echoesOf echo isEcho (k + 1) rest).1, (echoesOf echo isEcho (k + 1) rest).2)
    | none => echoesOf echo isEcho (k + 1) rest
  | k, _ :: _ => ([], k)

def simRunFb {σ α β P} (op : SimOp σ α β P) (other : Nat → TL β) (echo : Nat → Option α) (isEcho : β → Bool) :
    Nat → Nat → Nat → SQueue α P → σ → TL β
  | 0, _, _, _, _ => []
  | _ + 1, _, _, [], _ => []
  | fuel + 1, k, clk, (due, it) :: q, s =>
    match it with
    | .src n =>
      let r := op.onSrc (max clk due) s n
      let es := echoesOf echo isEcho k r.2.1
      at_ (max clk due) r.2.1 ++
        (if hasTerm r.2.1 then []
         else simRunFb op other echo isEcho fuel es.2 (max clk due)
                (es.1.map (fun e => (max clk due, SItem.src (Notif.next e))) ++ applyEff r.2.2 q) r.1)
    | .timer p =>
      let r := op.onTimer (max clk due) s p
      let es := echoesOf echo isEcho k r.2.1
      at_ (max clk due) r.2.1 ++
        (if r.2.2 then other (max clk due)
         else if hasTerm r.2.1 then []
         else simRunFb op other echo isEcho fuel es.2 (max clk due)
                (es.1.map (fun e => (max clk due, SItem.src (Notif.next e))) ++ q) r.1)

/-- an observable returned by a mapper: cold (signals relative to its subscription) or signalling inside `subscribe` -/
inductive InnerObs where
  | cold (tl : List (Nat × Sig))
  | inline (sigs : List Sig)

/-- throttle_with_mapper on a dynamic queue: the throttle observable of an element is scheduled when the element is
handled (`inn c` = the observable the `c`-th mapper call returns); the consumer's echoes go to the front of the queue -/
def twmSimFb {α} (raises : Nat → α → Option Err) (echo : Nat → Option α) (isEcho : α → Bool) (inn : Nat → InnerObs) :
    Nat → Nat → TwmSt α → List (Nat × MEv α) → TL α
  | 0, _, _, _ => []
  | _ + 1, _, _, [] => []
  | fuel + 1, k, s, (t, ev) :: rest =>
    if s.done then [] else
      let r := twmStep raises s ev
      let es := echoesOf echo isEcho k r.out
      let rest1 :=
        match ev with
        | .src (.next x) =>
          (match raises s.count x with
           | some _ => rest
           | none =>
             match inn s.count with
             | .cold tl => tl.foldl (fun q m => insertEv (t + m.1, MEv.inner s.count m.2) q) rest
             | .inline sigs => sigs.map (fun sg => (t, MEv.inner s.count sg)) ++ rest)
        | _ => rest
      at_ t r.out ++
        (if hasTerm r.out then []
         else twmSimFb raises echo isEcho inn fuel es.2 r.st
                (es.1.map (fun e => (t, MEv.src (Notif.next e))) ++ rest1))

end Timed

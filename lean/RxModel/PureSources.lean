import RxModel.Core
/-!
# L7 Pure — source factories (`reactivex/observable/{range,fromiterable,returnvalue,empty,never,throw,
generate,generatewithrelativetime,timer,repeat}.py`)

Every factory is a *scheduler-recursive producer*: `subscribe` schedules a first action, and each
action emits some notifications and possibly re-schedules itself (`schedule` or
`schedule_relative(d)`), holding the scheduled item in a disposable owned by the subscription.
`Producer` is that shape; each factory below mirrors its file line by line.

Two semantics are given:
* `chain` — the producer's own recursion in isolation (action at time `t`, next action at `t + d`);
  the theorems of C37 are about it;
* `Sim.run` — a virtual-time scheduler (stable `(due, seq)` queue, monotone clock, the `spinning`
  counter of `VirtualTimeScheduler.start`) running the harness' subscribe action, dispose action
  and the producer's actions; it produces exactly what the Python adapter records and is what the
  correspondence compares (`chain` is compared too whenever no dispose/spin interferes).

`generate_with_relative_time` is modelled as REPAIRED (`assert time is not None`; proposed patch
`fixes/C37_gwrt_zero_delay.patch`): a zero delay re-schedules at the current time.  The pinned
tree's `assert time` is `gwrtAsIs` (marked AS-IS), used only for the counter-example theorem.
Delays are integer seconds (ints, integral floats and whole-second timedeltas in the harness).
-/

namespace Pure.Sources

/-- what one producer action does -/
structure Step (σ α : Type) where
  /-- downstream calls, in order -/
  emits : List (Notif α)
  /-- re-schedule: next state and `none` = `schedule(action)`, `some d` = `schedule_relative(d, action)` -/
  next : Option (σ × Option Int) := none
  /-- an exception that escapes the action into the scheduler (after `emits`, nothing re-scheduled) -/
  escapes : Option Err := none

structure Producer (σ α : Type) where
  /-- what `subscribe` schedules (`none`: nothing, e.g. `never`) -/
  first : Option (σ × Option Int)
  step : σ → Step σ α

/-- delay actually waited on a virtual-time scheduler: a non-positive relative time runs at the current clock -/
def wait : Option Int → Int
  | none => 0
  | some d => if d > 0 then d else 0

/-- the producer's recursion in isolation: at most `n` actions, the current one at time `t` in state `s` -/
def chainFrom {σ α} (P : Producer σ α) : Nat → Int → σ → List (Int × Notif α)
  | 0, _, _ => []
  | n + 1, t, s =>
    let r := P.step s
    r.emits.map (fun x => (t, x)) ++
      match r.escapes, r.next with
      | some _, _ => []
      | none, some (s', d) => chainFrom P n (t + wait d) s'
      | none, none => []

/-- subscribed at time `t` -/
def chain {σ α} (P : Producer σ α) (n : Nat) (t : Int) : List (Int × Notif α) :=
  match P.first with
  | none => []
  | some (s, d) => chainFrom P n (t + wait d) s

/-! ## range -/

/-- CPython's `get_len_of_range` -/
def pyLen (lo hi step : Int) : Nat :=
  if 0 < step ∧ lo < hi then ((hi - lo - 1) / step + 1).toNat
  else if step < 0 ∧ hi < lo then ((lo - hi - 1) / (-step) + 1).toNat
  else 0

def maxsize : Int := 9223372036854775807

/-- `range(start)`, `range(start, stop)`, `range(start, stop, step)` exactly as `range_` picks them
(`stop=None` with a step means `sys.maxsize`); `step = 0` makes `range()` raise ValueError in the factory. -/
def rangeArgs (start : Int) (stop step : Option Int) : Except Err (Int × Int × Int) :=
  match stop, step with
  | none, none => .ok (0, start, 1)
  | some b, none => .ok (start, b, 1)
  | stop, some st =>
    if st = 0 then .error "ValueError" else .ok (start, stop.getD maxsize, st)

/-- the range iterator: next value, number of values left, step.  One action per element:
`on_next(next(iterator))` then `schedule(action)`; `StopIteration` → `on_completed()`. -/
def rangeP (lo hi step : Int) : Producer (Int × Nat × Int) Int where
  first := some ((lo, pyLen lo hi step, step), none)
  step := fun (cur, left, st) =>
    match left with
    | 0 => { emits := [.completed] }
    | k + 1 => { emits := [.next cur], next := some ((cur + st, k, st), none) }

/-- `list(range(lo, hi, step))` -/
def pyRange (lo hi step : Int) : List Int :=
  (List.range (pyLen lo hi step)).map (fun (i : Nat) => lo + (i : Int) * step)

/-! ## of / from_iterable, return_value, empty, never, throw -/

/-- an iterable: its items, and whether iterating past them raises instead of stopping -/
structure Iter (α : Type) where
  items : List α
  fails : Option Err := none

/-- one action: `while not disposed: on_next(next(iterator))`; StopIteration → completed; other
exception → on_error.  (The `disposed` flag can only change from inside a callback.) -/
def fromIterableP {α} (it : Iter α) : Producer Unit α where
  first := some ((), none)
  step := fun _ =>
    { emits := it.items.map .next ++ [match it.fails with | none => .completed | some e => .error e] }

def returnValueP {α} (v : α) : Producer Unit α where
  first := some ((), none)
  step := fun _ => { emits := [.next v, .completed] }

def emptyP {α} : Producer Unit α where
  first := some ((), none)
  step := fun _ => { emits := [.completed] }

def neverP {α} : Producer Unit α where
  first := none
  step := fun _ => { emits := [] }

def throwP {α} (e : Err) : Producer Unit α where
  first := some ((), none)
  step := fun _ => { emits := [.error e] }

/-! ## generate -/

structure GenFns (α : Type) where
  cond : α → Except Err Bool
  iter : α → Except Err α

/-- state: `first`, `state` -/
def generateP {α} (init : α) (f : GenFns α) : Producer (Bool × α) α where
  first := some ((true, init), none)
  step := fun (first, state) =>
    match (if first then .ok state else f.iter state) with
    | .error e => { emits := [.error e] }
    | .ok s =>
      match f.cond s with
      | .error e => { emits := [.error e] }
      | .ok true => { emits := [.next s], next := some ((false, s), none) }
      | .ok false => { emits := [.completed] }

/-- the equivalent while-loop, at most `n` iterations:
`s = init; while cond(s): yield s; s = iter(s)` with exceptions ending it in an error. -/
def whileLoop {α} (f : GenFns α) : Nat → α → List (Notif α)
  | 0, _ => []
  | n + 1, s =>
    match f.cond s with
    | .error e => [.error e]
    | .ok false => [.completed]
    | .ok true =>
      .next s ::
        match n with
        | 0 => []
        | _ + 1 =>
          match f.iter s with
          | .error e => [.error e]
          | .ok s' => whileLoop f n s'

/-! ## generate_with_relative_time (REPAIRED: `assert time is not None`) -/

structure State4 (α : Type) where
  first : Bool
  state : α
  hasResult : Bool
  result : α

/-- one action, as written: emit the pending result; compute the next state, the condition and the
delay; on an exception `on_error`; then re-schedule after the delay, or complete. -/
def gwrtStep {α} (f : GenFns α) (tm : α → Except Err Int) (zeroOk : Bool) (q : State4 α) : Step (State4 α) α :=
  let pre : List (Notif α) := if q.hasResult then [.next q.result] else []
  match (if q.first then .ok q.state else f.iter q.state) with
  | .error e => { emits := pre ++ [.error e] }
  | .ok s =>
    match f.cond s with
    | .error e => { emits := pre ++ [.error e] }
    | .ok false => { emits := pre ++ [.completed] }
    | .ok true =>
      match tm s with
      | .error e => { emits := pre ++ [.error e] }
      | .ok d =>
        if d = 0 ∧ zeroOk = false then { emits := pre, escapes := some "AssertionError" }   -- AS-IS `assert time`
        else { emits := pre, next := some (⟨false, s, true, s⟩, some d) }

/-- first action by `schedule_relative(0, action)` -/
def gwrtP {α} (init : α) (f : GenFns α) (tm : α → Except Err Int) : Producer (State4 α) α where
  first := some (⟨true, init, false, init⟩, some 0)
  step := gwrtStep f tm true

/-- AS-IS (pinned tree): `assert time` fails for a zero delay and the AssertionError escapes into the scheduler. -/
def gwrtAsIs {α} (init : α) (f : GenFns α) (tm : α → Except Err Int) : Producer (State4 α) α where
  first := some (⟨true, init, false, init⟩, some 0)
  step := gwrtStep f tm false

/-- reference: the while-loop with the state's delay awaited before each `yield`, at most `n` iterations,
loop entered at time `t`. -/
def delayLoop {α} (f : GenFns α) (tm : α → Except Err Int) : Nat → Int → α → List (Int × Notif α)
  | 0, _, _ => []
  | n + 1, t, s =>
    match f.cond s with
    | .error e => [(t, .error e)]
    | .ok false => [(t, .completed)]
    | .ok true =>
      match tm s with
      | .error e => [(t, .error e)]
      | .ok d =>
        match n with
        | 0 => []
        | _ + 1 =>
          let t' := t + wait (some d)
          (t', .next s) ::
            match f.iter s with
            | .error e => [(t', .error e)]
            | .ok s' => delayLoop f tm n t' s'

/-! ## timer(d) (relative, no period), repeat_value -/

/-- `d <= 0`: `schedule(action)`, else `schedule_relative(d, action)` -/
def timerP (d : Int) : Producer Unit Int where
  first := some ((), if d ≤ 0 then none else some d)
  step := fun _ => { emits := [.next 0, .completed] }

/-- `return_value(v).pipe(ops.repeat(n))` = `defer(concat_with_iterable(source for _ in range(n)))`:
alternating scheduled actions — concat's `action` (pulls the next copy of the source and
subscribes to it, or completes) and `return_value`'s `action` (emits and completes, which makes
concat schedule its action again).  `left = none`: `infinite()`. -/
inductive RepSt where
  | outer (left : Option Nat)
  | inner (left : Option Nat)

def repeatValueP {α} (v : α) (count : Option Int) : Producer RepSt α where
  first :=
    let c : Option Int := if count = some (-1) then none else count
    some (.outer (c.map Int.toNat), none)
  step := fun
    | .outer (some 0) => { emits := [.completed] }
    | .outer (some (k + 1)) => { emits := [], next := some (.inner (some k), none) }
    | .outer none => { emits := [], next := some (.inner none, none) }
    | .inner left => { emits := [.next v], next := some (.outer left, none) }

/-! ## the virtual-time run the harness records -/

namespace Sim

inductive Act (σ : Type) where
  | sub
  | disp
  | prod (s : σ)

structure St (σ α : Type) where
  clock : Int
  spin : Nat
  queue : List (Int × Act σ)          -- sorted by due, stable (= `(due, seq)` order)
  subscribed : Bool := false
  stopped : Bool := false              -- observer stopped (terminal seen) or subscription disposed
  out : List (Int × Notif α) := []     -- recorded so far, in order
  escaped : Option Err := none

/-- stable insertion by due time (ties: after the items already queued) -/
def enqueue {β} (q : List (Int × β)) (x : Int × β) : List (Int × β) :=
  match q with
  | [] => [x]
  | y :: r => if x.1 < y.1 then x :: y :: r else y :: enqueue r x

/-- deliver through the AutoDetachObserver: nothing once stopped; a terminal stops (and disposes) -/
def deliver {α} (clock : Int) : Bool → List (Notif α) → Bool × List (Int × Notif α)
  | st, [] => (st, [])
  | true, _ => (true, [])
  | false, n :: r =>
    let (st', o) := deliver clock n.isTerminal r
    (st', (clock, n) :: o)

def schedule {σ} (clock : Int) (q : List (Int × Act σ)) : Option (σ × Option Int) → List (Int × Act σ)
  | none => q
  | some (s, d) => enqueue q (clock + (d.getD 0), .prod s)

/-- `VirtualTimeScheduler.start()`: dequeue the minimum; advance the clock to its due time, or — after
more than 100 consecutive items without a clock change — by one; run it unless cancelled. -/
def run {σ α} (P : Producer σ α) : Nat → St σ α → St σ α
  | 0, st => st
  | fuel + 1, st =>
    match st.queue with
    | [] => st
    | (due, act) :: q =>
      let (clock, spin) :=
        if due > st.clock then (due, 0)
        else if st.spin > 100 then (st.clock + 1, 0)
        else (st.clock, st.spin)
      let st := { st with clock, spin := spin + 1, queue := q }
      match act with
      | .sub => run P fuel { st with subscribed := true, queue := schedule clock q P.first }
      | .disp => run P fuel { st with stopped := st.stopped || st.subscribed }   -- before the subscription there is nothing to dispose
      | .prod s =>
        if st.stopped then run P fuel st                     -- the scheduled item was cancelled by the dispose
        else
          let r := P.step s
          let (stopped, o) := deliver clock false r.emits
          let st := { st with stopped, out := st.out ++ o }
          match r.escapes with
          | some e => { st with escaped := some e }            -- `start()` is left by the exception
          | none => run P fuel { st with queue := if stopped then q else schedule clock q r.next }

/-- subscribe at `sub`, dispose at `disp` (its action scheduled first), clock starts at 0 -/
def record {σ α} (P : Producer σ α) (fuel : Nat) (sub disp : Int) : St σ α :=
  run P fuel { clock := 0, spin := 0, queue := enqueue (enqueue [] (disp, .disp)) (sub, .sub) }

end Sim

end Pure.Sources

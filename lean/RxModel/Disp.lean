/-!
# L3 Disposables — atomic-step models (one model per class; a sequential history is the 1-thread case)

Mirrors `reactivex/disposable/*.py`.  Every class is a *thread system*: a shared state plus one
`(program counter, remaining program)` per thread.  One step of one thread is

* one `with self.lock:` block (atomic: the lock is never held across a call-out in this code), or
* one unlocked read / write of a shared attribute (`is_disposed`, `current`, the item list), or
* one call-out (`item.dispose()`, the `Disposable` action, `scheduler.schedule`).

`Sys.run step s sched` runs an arbitrary schedule (list of thread indices).  Theorems are invariants of
`Sys.step`, hence hold for any number of threads, any programs and any schedule; a call history on one
thread is the instance with one thread.

Items handed to containers are abstract ids (`Nat`) with a dispose counter `cnt`; `falsy i` says that
Python's truth value of item `i` is `False` (an empty `CompositeDisposable` defines `__len__`).
Each step appends the events it performs to `log` — this is what the correspondence harness compares
with the events recorded on the real classes (instrumented locks, traced attributes, counting items).
-/

namespace Disp

/-- value returned by a method call -/
inductive RV where
  | unit
  | bool (b : Bool)
  | item (o : Option Nat)
  | nat (n : Nat)
deriving Repr, DecidableEq

/-- visible events.  The first event of every step is a *step event* (`lock … sched`); `ret`/`raised`
follow the step event of the last step of a call. -/
inductive Ev where
  | lock (who : Nat)     -- a `with lock:` block ran (who = 0: the object itself, k+1: dependent k of a RefCountDisposable)
  | rd (v : Bool)        -- unlocked read of a shared attribute (flag value / `is not None` / non-empty list)
  | wr                   -- unlocked write of a shared attribute
  | disp (i : Nat)       -- `item_i.dispose()` called
  | action               -- the Disposable's action invoked
  | sched                -- `scheduler.schedule(action)` called
  | ret (v : RV)         -- the method returned
  | raised               -- the method raised ("Disposable has already been assigned")
deriving Repr, DecidableEq

def bump (c : Nat → Nat) (i : Nat) : Nat → Nat := fun j => if j = i then c j + 1 else c j

/-- A thread system: shared state and one local state per thread. -/
structure Sys (σ π : Type) where
  sh : σ
  pcs : List π

namespace Sys
variable {σ π : Type}

/-- thread `tid` performs its next atomic step (a non-existent thread does nothing). -/
def step (f : σ → π → σ × π) (s : Sys σ π) (tid : Nat) : Sys σ π :=
  match s.pcs[tid]? with
  | none => s
  | some p => ⟨(f s.sh p).1, s.pcs.set tid (f s.sh p).2⟩

def run (f : σ → π → σ × π) (s : Sys σ π) (sched : List Nat) : Sys σ π :=
  sched.foldl (step f) s

end Sys

/-! ## Disposable (`disposable.py`) -/

structure DSh where
  isDisposed : Bool := false
  actions : Nat := 0          -- how often `self.action()` ran
  returned : Nat := 0         -- ghost: number of `dispose()` calls that ended (returned, or raised out of the action)
  log : List Ev := []

inductive DPc where
  | idle
  | won       -- left the lock block with `dispose = True`; the action has not run yet
deriving Repr, DecidableEq

/-- a thread: pc and the number of `dispose()` calls it still makes -/
abbrev DTh := DPc × Nat

/-- `raises k` : the k-th invocation of the user's action raises (the exception propagates out of `dispose()`;
the flag was set before, under the lock, and nothing resets it). -/
def dStep (raises : Nat → Bool) (s : DSh) : DTh → DSh × DTh
  | (.idle, 0) => (s, (.idle, 0))
  | (.idle, n + 1) =>
    -- with self.lock: if not self.is_disposed: dispose = True; self.is_disposed = True
    if s.isDisposed then
      ({ s with returned := s.returned + 1, log := s.log ++ [.lock 0, .ret .unit] }, (.idle, n))
    else ({ s with isDisposed := true, log := s.log ++ [.lock 0] }, (.won, n))
  | (.won, n) =>
    -- if dispose: self.action()
    ({ s with actions := s.actions + 1, returned := s.returned + 1,
              log := s.log ++ [.action, if raises s.actions then .raised else .ret .unit] }, (.idle, n))

def dInit (calls : List Nat) : Sys DSh DTh := ⟨{}, calls.map fun n => (.idle, n)⟩

/-! ## BooleanDisposable (`booleandisposable.py`) -/

structure BSh where
  isDisposed : Bool := false
  calls : Nat := 0            -- ghost: completed dispose() calls
  log : List Ev := []

/-- a thread: remaining `dispose()` calls; `dispose` is the single unlocked write `self.is_disposed = True` -/
def bStep (s : BSh) : Nat → BSh × Nat
  | 0 => (s, 0)
  | n + 1 => ({ isDisposed := true, calls := s.calls + 1, log := s.log ++ [.wr, .ret .unit] }, n)

def bInit (calls : List Nat) : Sys BSh Nat := ⟨{}, calls⟩

/-! ## ScheduledDisposable (`scheduleddisposable.py`)

`dispose()` only calls `scheduler.schedule(action)`; `action` calls `self.disposable.dispose()` on the
inner SingleAssignmentDisposable that was assigned the wrapped resource (item 0) in `__init__`.
The scheduler is abstract and as adversarial as a thread-pool: the k-th scheduled action runs on its own
worker thread, at any time after it was scheduled. -/

structure SSh where
  queued : Nat := 0           -- number of actions handed to the scheduler so far
  sadDisposed : Bool := false -- inner SingleAssignmentDisposable.is_disposed
  sadCurrent : Option Nat := some 0
  cnt : Nat := 0              -- dispose count of the wrapped resource
  byWorker : Nat := 0         -- ghost: disposals of the wrapped resource performed by a scheduler worker
  started : Nat := 0          -- ghost: workers that have begun running their action
  finished : Nat := 0         -- ghost: actions that ran to completion
  log : List Ev := []

inductive SPc where
  | caller (n : Nat)          -- a client thread that still makes n dispose() calls
  | waiting (k : Nat)         -- scheduler worker for the k-th scheduled action, not yet started
  | pend (i : Nat)            -- worker left SingleAssignmentDisposable's lock block holding `old = item i`
  | done
deriving Repr, DecidableEq

def sStep (s : SSh) : SPc → SSh × SPc
  | .caller 0 => (s, .caller 0)
  | .caller (n + 1) => ({ s with queued := s.queued + 1, log := s.log ++ [.sched, .ret .unit] }, .caller n)
  | .waiting k =>
    if k < s.queued then
      -- SingleAssignmentDisposable.dispose: locked test-and-set, swap `current` out
      if s.sadDisposed then
        ({ s with started := s.started + 1, finished := s.finished + 1, log := s.log ++ [.lock 0, .ret .unit] }, .done)
      else
        match s.sadCurrent with
        | none => ({ s with sadDisposed := true, started := s.started + 1, finished := s.finished + 1,
                            log := s.log ++ [.lock 0, .ret .unit] }, .done)
        | some i => ({ s with sadDisposed := true, sadCurrent := none, started := s.started + 1,
                              log := s.log ++ [.lock 0] }, .pend i)
    else (s, .waiting k)     -- not scheduled yet: not enabled
  | .pend i => ({ s with cnt := s.cnt + 1, byWorker := s.byWorker + 1, finished := s.finished + 1,
                         log := s.log ++ [.disp i, .ret .unit] }, .done)
  | .done => (s, .done)

/-- `callers`: dispose()-call counts of the client threads; `workers` worker threads (for actions 0..workers-1). -/
def sInit (callers : List Nat) (workers : Nat) : Sys SSh SPc :=
  ⟨{}, callers.map .caller ++ (List.range workers).map .waiting⟩

/-! ## Containers: common pieces -/

/-- program counter of a container method outside its lock block -/
inductive CPc where
  | idle
  | pend (l : List Nat) (r : RV)   -- items still to be disposed (one call-out per step), then return r
  | chk1 (i : Nat)                 -- after an unlocked pre-check (Composite.remove i / as-is SAD.set i)
  | chk0                           -- after the unlocked pre-check of Composite.dispose
  | after (i : Nat)                -- as-is SAD.set i: after the lock block, before re-reading `is_disposed`
deriving Repr, DecidableEq

/-! ## CompositeDisposable (`compositedisposable.py`) -/

inductive COp where
  | add (i : Nat) | remove (i : Nat) | clear | dispose | len | contains (i : Nat)
deriving Repr, DecidableEq

structure CSh where
  isDisposed : Bool := false
  items : List Nat := []
  cnt : Nat → Nat := fun _ => 0     -- dispose counter of every item
  given : Nat → Nat := fun _ => 0   -- ghost: how often item i was handed to the container (constructor / add)
  dcalls : Nat := 0                 -- ghost: dispose() calls that got past their first step
  log : List Ev := []

abbrev CTh := CPc × List COp

/-- leave a step with `l` still to dispose outside the lock; an empty `l` means the call returns now -/
def CSh.out (s : CSh) (ev : Ev) (l : List Nat) (r : RV) (p : List COp) : CSh × CTh :=
  match l with
  | [] => ({ s with log := s.log ++ [ev, .ret r] }, (.idle, p))
  | _ :: _ => ({ s with log := s.log ++ [ev] }, (.pend l r, p))

def cStep (s : CSh) : CTh → CSh × CTh
  | (.idle, []) => (s, (.idle, []))
  | (.idle, .add i :: p) =>
    -- with self.lock: if self.is_disposed: should_dispose = True  else: self.disposable.append(item)
    if s.isDisposed then CSh.out { s with given := bump s.given i } (.lock 0) [i] .unit p
    else CSh.out { s with items := s.items ++ [i], given := bump s.given i } (.lock 0) [] .unit p
  | (.idle, .remove i :: p) =>
    -- if self.is_disposed: return False            (unlocked)
    if s.isDisposed then CSh.out s (.rd true) [] (.bool false) p
    else ({ s with log := s.log ++ [.rd false] }, (.chk1 i, p))
  | (.chk1 i, p) =>
    -- with self.lock: if item in self.disposable: self.disposable.remove(item); should_dispose = True
    if i ∈ s.items then CSh.out { s with items := s.items.erase i } (.lock 0) [i] (.bool true) p
    else CSh.out s (.lock 0) [] (.bool false) p
  | (.idle, .dispose :: p) =>
    -- if self.is_disposed: return                  (unlocked)
    if s.isDisposed then CSh.out { s with dcalls := s.dcalls + 1 } (.rd true) [] .unit p
    else ({ s with log := s.log ++ [.rd false] }, (.chk0, p))
  | (.chk0, p) =>
    -- with self.lock: self.is_disposed = True; current = self.disposable; self.disposable = []
    CSh.out { s with isDisposed := true, items := [], dcalls := s.dcalls + 1 } (.lock 0) s.items .unit p
  | (.idle, .clear :: p) =>
    CSh.out { s with items := [] } (.lock 0) s.items .unit p
  | (.idle, .len :: p) => CSh.out s (.rd (!s.items.isEmpty)) [] (.nat s.items.length) p
  | (.idle, .contains i :: p) => CSh.out s (.rd (!s.items.isEmpty)) [] (.bool (s.items.contains i)) p
  | (.pend [] r, p) => ({ s with log := s.log ++ [.ret r] }, (.idle, p))
  | (.pend [i] r, p) => ({ s with cnt := bump s.cnt i, log := s.log ++ [.disp i, .ret r] }, (.idle, p))
  | (.pend (i :: j :: l) r, p) => ({ s with cnt := bump s.cnt i, log := s.log ++ [.disp i] }, (.pend (j :: l) r, p))
  | (.after _, p) => (s, (.idle, p))    -- not used by this class

def cInit (init : List Nat) (progs : List (List COp)) : Sys CSh CTh :=
  ⟨{ items := init, given := fun i => init.count i }, progs.map fun p => (.idle, p)⟩

/-! ## Serial / SingleAssignment / MultipleAssignment disposables -/

inductive AOp where
  | set (i : Nat) | get | dispose
deriving Repr, DecidableEq

structure ASh where
  isDisposed : Bool := false
  current : Option Nat := none
  cnt : Nat → Nat := fun _ => 0
  given : Nat → Nat := fun _ => 0     -- ghost: assignments of item i that did not raise
  dropped : Nat → Nat := fun _ => 0   -- ghost: item i was overwritten in `current` without being disposed
  accepted : Nat := 0                 -- ghost: assignments that were stored into `current`
  rej : Nat → Nat := fun _ => 0       -- ghost: assignments of item i that raised
  tookSome : Bool := false            -- ghost: dispose() swapped an item out of `current`
  dcalls : Nat := 0                   -- ghost: dispose() calls that executed their lock block
  log : List Ev := []

abbrev ATh := CPc × List AOp

def ASh.out (s : ASh) (ev : Ev) (l : List Nat) (r : RV) (p : List AOp) : ASh × ATh :=
  match l with
  | [] => ({ s with log := s.log ++ [ev, .ret r] }, (.idle, p))
  | _ :: _ => ({ s with log := s.log ++ [ev] }, (.pend l r, p))

/-- the part shared by the four classes: call-outs after the lock block, `get`, and `dispose`
(identical text in all four files: locked test-and-set, swap `current` to None, dispose the old one outside). -/
def aCommon (s : ASh) : ATh → ASh × ATh
  | (.idle, .dispose :: p) =>
    if s.isDisposed then ASh.out { s with dcalls := s.dcalls + 1 } (.lock 0) [] .unit p
    else ASh.out { s with isDisposed := true, current := none, tookSome := s.tookSome || s.current.isSome,
                          dcalls := s.dcalls + 1 } (.lock 0) s.current.toList .unit p
  | (.idle, .get :: p) => ASh.out s (.rd s.current.isSome) [] (.item s.current) p
  | (.pend [] r, p) => ({ s with log := s.log ++ [.ret r] }, (.idle, p))
  | (.pend [i] r, p) => ({ s with cnt := bump s.cnt i, log := s.log ++ [.disp i, .ret r] }, (.idle, p))
  | (.pend (i :: j :: l) r, p) => ({ s with cnt := bump s.cnt i, log := s.log ++ [.disp i] }, (.pend (j :: l) r, p))
  | (_, p) => (s, (.idle, p))

/-- `SerialDisposable` -/
def serStep (s : ASh) : ATh → ASh × ATh
  | (.idle, []) => (s, (.idle, []))
  | (.idle, .set v :: p) =>
    -- with self.lock: should_dispose = self.is_disposed; if not should_dispose: old = self.current; self.current = value
    if s.isDisposed then ASh.out { s with given := bump s.given v } (.lock 0) [v] .unit p
    else ASh.out { s with current := some v, given := bump s.given v, accepted := s.accepted + 1 }
           (.lock 0) s.current.toList .unit p
  | t => aCommon s t

/-- `MultipleAssignmentDisposable`: a replaced item is *not* disposed (as documented) -/
def madStep (s : ASh) : ATh → ASh × ATh
  | (.idle, []) => (s, (.idle, []))
  | (.idle, .set v :: p) =>
    if s.isDisposed then ASh.out { s with given := bump s.given v } (.lock 0) [v] .unit p
    else ASh.out { s with current := some v, given := bump s.given v, accepted := s.accepted + 1,
                          dropped := match s.current with | some o => bump s.dropped o | none => s.dropped }
           (.lock 0) [] .unit p
  | t => aCommon s t

/-- `SingleAssignmentDisposable` **with the proposed fix** (`fixes/C26_sad_lock_and_none.patch`):
```
with self.lock:
    if self.current is not None: raise Exception("Disposable has already been assigned")
    should_dispose = self.is_disposed
    if not should_dispose: self.current = value
if should_dispose and value is not None: value.dispose()
``` -/
def sadStep (s : ASh) : ATh → ASh × ATh
  | (.idle, []) => (s, (.idle, []))
  | (.idle, .set v :: p) =>
    if s.current.isSome then
      ({ s with rej := bump s.rej v, log := s.log ++ [.lock 0, .raised] }, (.idle, p))
    else if s.isDisposed then ASh.out { s with given := bump s.given v } (.lock 0) [v] .unit p
    else ASh.out { s with current := some v, given := bump s.given v, accepted := s.accepted + 1 } (.lock 0) [] .unit p
  | t => aCommon s t

/-- `SingleAssignmentDisposable` **as written in the pinned tree** (kept as documentation of defect #5):
```
if self.current: raise ...                      # unlocked, truthiness
with self.lock:
    should_dispose = self.is_disposed
    if not should_dispose: self.current = value
if self.is_disposed and value: value.dispose()  # re-reads the flag outside the lock, truthiness
``` -/
def sadAsIsStep (falsy : Nat → Bool) (s : ASh) : ATh → ASh × ATh
  | (.idle, []) => (s, (.idle, []))
  | (.idle, .set v :: p) =>
    match s.current with
    | some c =>
      if falsy c then ({ s with log := s.log ++ [.rd true] }, (.chk1 v, p))
      else ({ s with rej := bump s.rej v, log := s.log ++ [.rd true, .raised] }, (.idle, p))
    | none => ({ s with log := s.log ++ [.rd false] }, (.chk1 v, p))
  | (.chk1 v, p) =>
    if s.isDisposed then ({ s with given := bump s.given v, log := s.log ++ [.lock 0] }, (.after v, p))
    else ({ s with current := some v, given := bump s.given v, accepted := s.accepted + 1,
                   dropped := match s.current with | some o => bump s.dropped o | none => s.dropped,
                   log := s.log ++ [.lock 0] }, (.after v, p))
  | (.after v, p) =>
    if s.isDisposed && !falsy v then ({ s with log := s.log ++ [.rd true] }, (.pend [v] .unit, p))
    else ASh.out s (.rd s.isDisposed) [] .unit p
  | t => aCommon s t

def aInit (progs : List (List AOp)) : Sys ASh ATh := ⟨{}, progs.map fun p => (.idle, p)⟩

/-! ## RefCountDisposable (`refcountdisposable.py`) -/

/-- a dependent handed out by the `disposable` property -/
inductive Dep where
  | inert (disposed : Bool)      -- a plain `Disposable()` (requested after the resource was released)
  | inner (hasParent : Bool)     -- an `InnerDisposable`; `hasParent` = its `parent` field is not None
deriving Repr, DecidableEq

inductive ROp where
  | get                 -- `rc.disposable`; the handle is remembered by the calling thread
  | rel (h : Nat)       -- dispose dependent number h (numbered in creation order)
  | relMine (j : Nat)   -- dispose the j-th dependent this thread obtained itself
  | dispose             -- primary dispose()
deriving Repr, DecidableEq

structure RSh where
  isPrimaryDisposed : Bool := false
  isDisposed : Bool := false
  count : Int := 0
  deps : List Dep := []
  und : Nat := 0              -- dispose count of the underlying resource
  incs : Nat := 0             -- ghost: `count += 1` executed
  decs : Nat := 0             -- ghost: `count -= 1` executed
  pcalls : Nat := 0           -- ghost: primary dispose() calls that got past their first step
  log : List Ev := []

inductive RPc where
  | idle
  | releasing     -- InnerDisposable.dispose took its parent; about to call parent.release()
  | relChecked    -- release(): unlocked `if self.is_disposed: return` passed
  | undPend       -- left a lock block having decided to dispose the underlying resource
  | dispChecked   -- dispose(): unlocked `if self.is_disposed: return` passed
deriving Repr, DecidableEq

structure RTh where
  pc : RPc := .idle
  prog : List ROp := []
  mine : List Nat := []

def RSh.ev (s : RSh) (l : List Ev) : RSh := { s with log := s.log ++ l }

/-- dispose dependent `h` (first step) -/
def rRel (s : RSh) (t : RTh) (p : List ROp) (h : Nat) : RSh × RTh :=
  match s.deps[h]? with
  | none => (s.ev [.ret .unit], { t with pc := .idle, prog := p })
  | some (.inert _) =>
    -- Disposable.dispose with the no-op action
    ({ s with deps := s.deps.set h (Dep.inert true) }.ev [.lock (h + 1), .ret .unit], { t with pc := .idle, prog := p })
  | some (.inner true) =>
    -- with self.lock: parent = self.parent; self.parent = None
    ({ s with deps := s.deps.set h (Dep.inner false) }.ev [.lock (h + 1)], { t with pc := .releasing, prog := p })
  | some (.inner false) => (s.ev [.lock (h + 1), .ret .unit], { t with pc := .idle, prog := p })

def rStep (s : RSh) (t : RTh) : RSh × RTh :=
  match t.pc, t.prog with
  | .idle, [] => (s, t)
  | .idle, .get :: p =>
    -- with self.lock: if self.is_disposed: return Disposable();  self.count += 1; return InnerDisposable(self)
    if s.isDisposed then
      ({ s with deps := s.deps ++ [Dep.inert false] }.ev [.lock 0, .ret (.nat s.deps.length)],
        { t with prog := p, mine := t.mine ++ [s.deps.length] })
    else
      ({ s with deps := s.deps ++ [Dep.inner true], count := s.count + 1, incs := s.incs + 1 }.ev
          [.lock 0, .ret (.nat s.deps.length)],
        { t with prog := p, mine := t.mine ++ [s.deps.length] })
  | .idle, .rel h :: p => rRel s t p h
  | .idle, .relMine j :: p =>
    match t.mine[j]? with
    | some h => rRel s t p h
    | none => (s.ev [.ret .unit], { t with prog := p })
  | .releasing, _ =>
    -- release(): if self.is_disposed: return       (unlocked)
    if s.isDisposed then (s.ev [.rd true, .ret .unit], { t with pc := .idle })
    else (s.ev [.rd false], { t with pc := .relChecked })
  | .relChecked, _ =>
    -- with self.lock: self.count -= 1; if not self.count and self.is_primary_disposed: self.is_disposed = True; should_dispose = True
    if s.count - 1 == 0 && s.isPrimaryDisposed then
      ({ s with count := s.count - 1, decs := s.decs + 1, isDisposed := true }.ev [.lock 0], { t with pc := .undPend })
    else ({ s with count := s.count - 1, decs := s.decs + 1 }.ev [.lock 0, .ret .unit], { t with pc := .idle })
  | .undPend, _ => ({ s with und := s.und + 1 }.ev [.disp 0, .ret .unit], { t with pc := .idle })
  | .idle, .dispose :: p =>
    -- if self.is_disposed: return                   (unlocked)
    if s.isDisposed then ({ s with pcalls := s.pcalls + 1 }.ev [.rd true, .ret .unit], { t with prog := p })
    else (s.ev [.rd false], { t with pc := .dispChecked, prog := p })
  | .dispChecked, _ =>
    -- with self.lock: if not self.is_primary_disposed: self.is_primary_disposed = True; if not self.count: ...
    if s.isPrimaryDisposed then ({ s with pcalls := s.pcalls + 1 }.ev [.lock 0, .ret .unit], { t with pc := .idle })
    else if s.count == 0 then
      ({ s with isPrimaryDisposed := true, isDisposed := true, pcalls := s.pcalls + 1 }.ev [.lock 0], { t with pc := .undPend })
    else ({ s with isPrimaryDisposed := true, pcalls := s.pcalls + 1 }.ev [.lock 0, .ret .unit], { t with pc := .idle })

def rInit (progs : List (List ROp)) : Sys RSh RTh := ⟨{}, progs.map fun p => { prog := p }⟩

end Disp

import RxModel.AggOps
/-!
# Agg.Ref — the reference (Python list) computations the operators are compared with

A *conforming* sequence is `(xs, t)`: the elements before the first terminal and how it ends.
Stage references map conforming sequences to conforming sequences (a raising callback ends the sequence
with that error at that element); aggregate references give the notifications the subscriber sees.
-/

namespace Agg

abbrev Conf (α : Type) := List α × Ending

def Conf.notifs {α} (c : Conf α) : List (Notif α) := c.1.map .next ++ c.2.notifs

/-- `[f(x) for x in xs]`, cut at the first raising call -/
def mapC {α β} (f : α → Except Err β) : List α → Ending → Conf β
  | [], t => ([], t)
  | x :: xs, t =>
    match f x with
    | .ok v => (v :: (mapC f xs t).1, (mapC f xs t).2)
    | .error e => ([], .err e)

/-- `[x for x in xs if p(x)]`, cut at the first raising call -/
def filterC {α} (p : α → Except Err Bool) : List α → Ending → Conf α
  | [], t => ([], t)
  | x :: xs, t =>
    match p x with
    | .ok true => (x :: (filterC p xs t).1, (filterC p xs t).2)
    | .ok false => filterC p xs t
    | .error e => ([], .err e)

/-- `itertools.accumulate` from accumulator state `s` (`none` = nothing accumulated yet) -/
def scanC {α β} (f : β → α → Except Err β) (seed : Option β) (inj : α → β) : Option β → List α → Ending → Conf β
  | _, [], t => ([], t)
  | s, x :: xs, t =>
    match scanProj f seed inj s x with
    | .ok v => (v :: (scanC f seed inj (some v) xs t).1, (scanC f seed inj (some v) xs t).2)
    | .error e => ([], .err e)

/-- the single value (or default, or `SequenceContainsNoElementsError`) emitted at completion -/
def valueOrDefault {α} (v dflt : Option α) : List (Notif α) :=
  match v with
  | some x => [.next x, .completed]
  | none =>
    match dflt with
    | some d => [.next d, .completed]
    | none => [.error errNoElements]

/-- `xs[-1]` at completion -/
def lastRef {α} (dflt : Option α) (xs : List α) (t : Ending) : List (Notif α) :=
  atEnd t (valueOrDefault xs.getLast? dflt)

/-- `xs[0]` as soon as it exists -/
def firstRef {α} (dflt : Option α) (xs : List α) (t : Ending) : List (Notif α) :=
  match xs with
  | x :: _ => [.next x, .completed]
  | [] => atEnd t (valueOrDefault none dflt)

/-- the only element at completion; failure at the second element -/
def singleRef {α} (dflt : Option α) (xs : List α) (t : Ending) : List (Notif α) :=
  match xs with
  | [] => atEnd t (valueOrDefault none dflt)
  | [x] => atEnd t [.next x, .completed]
  | _ :: _ :: _ => [.error errException]

/-- `any(True for _ in xs)` as soon as decided -/
def someRef {α} (xs : List α) (t : Ending) : List (Notif Bool) :=
  match xs with
  | _ :: _ => [.next true, .completed]
  | [] => atEnd t [.next false, .completed]

/-- value of a fold that may raise: the error at once, the value at completion -/
def foldRef {σ β} (r : Except Err σ) (val : σ → β) (t : Ending) : List (Notif β) :=
  match r with
  | .error e => [.error e]
  | .ok s => atEnd t [.next (val s), .completed]

/-- the conforming sequence after the optional `filter(predicate)` stage -/
def afterFilter {α} (pred : Option (α → Except Err Bool)) (raw : List (Notif α)) : Conf α :=
  match pred with
  | some p => filterC p (elems raw) (ending raw)
  | none => (elems raw, ending raw)

end Agg

/-!
# Cold producers merged on the current-thread trampoline, disposed from inside a notification (C03)

`reactivex.merge(P₀, …, Pₙ₋₁).subscribe(...)` issued from inside a trampoline action, every `Pᵢ` a cold synchronous producer
(`of` / `from_iterable` / `range` / `generate`) on the default `CurrentThreadScheduler`:

* the merge's own `from_iterable(sources)` action subscribes the producers in order; each producer's `subscribe` only
  *enqueues* its first action on the (busy) trampoline (`reactivex/scheduler/trampoline.py: Trampoline.run`);
* the trampoline pops items FIFO and invokes an item only if it is not cancelled *at that moment*
  (`Trampoline._run`: `if not item.is_cancelled(): item.invoke()`);
* an action is a *turn*: a list of atoms — a user callback of the producer runs (`cb`: an iterator pull, `generate`'s
  condition / iterate), an element reaches the subscriber (`emit`), the producer completes (`done`).  `of`/`from_iterable`
  run all their atoms in one turn, polling their `disposed` flag before each pull (`fromiterable.py: while not disposed`);
  `range`/`generate` emit one element per turn and re-schedule themselves (`range.py`, `generate.py`:
  `mad.disposable = scheduler.schedule(action)` — assigning to a disposed MultipleAssignmentDisposable cancels the new item);
* the subscriber disposes its subscription during a chosen notification (or right after `subscribe()` returned): every queued
  item is cancelled through the CompositeDisposable chain and every polling flag is set.

`run w ps` is the list of observable events (user callbacks and subscriber notifications) in order.
-/
namespace Pipe.Tramp

inductive Atom where
  | cb (tag : Nat)      -- a user callback of the producer (0 = iterator pull, 1 = generate condition, 2 = generate iterate)
  | emit (j : Nat)      -- the producer's j-th element reaches the subscriber
  | done                -- the producer completes
deriving Repr, DecidableEq

abbrev Turn := List Atom
abbrev Producer := List Turn

inductive Ev where
  | cb (p tag : Nat)
  | next (p j : Nat)
  | completed
deriving Repr, DecidableEq

def Ev.isNotif : Ev → Bool
  | .cb _ _ => false
  | _ => true

/-- when the subscriber disposes its subscription -/
inductive When where
  | never
  | atStart               -- right after `subscribe()` returned, before any queued action ran
  | during (k : Nat)      -- inside the notification with ordinal `k` (0-based)
deriving Repr, DecidableEq

def When.hits : When → Nat → Bool
  | .during k, n => k == n
  | _, _ => false

structure St where
  queue : List (Nat × Producer)   -- the trampoline FIFO: (producer index, its remaining turns)
  live : Nat                      -- producers that have not completed
  seen : Nat                      -- notifications delivered so far
  disposed : Bool
  evs : List Ev
deriving Repr, DecidableEq

def deliver (w : When) (e : Ev) (s : St) : St :=
  { s with evs := s.evs ++ [e], seen := s.seen + 1, disposed := s.disposed || w.hits s.seen }

def atom (w : When) (p : Nat) (a : Atom) (s : St) : St :=
  match a with
  | .cb t => { s with evs := s.evs ++ [.cb p t] }
  | .emit j => deliver w (.next p j) s
  | .done =>
    let s' := { s with live := s.live - 1 }
    if s'.live = 0 then deliver w .completed s' else s'

/-- one action: atoms in order; nothing of it runs once the subscription is disposed (the polled flag / AutoDetachObserver) -/
def runTurn (w : When) (p : Nat) : List Atom → St → St
  | [], s => s
  | a :: as, s => if s.disposed then s else runTurn w p as (atom w p a s)

def requeue (p : Nat) (ts : Producer) (s : St) : St :=
  if ts.isEmpty then s else { s with queue := s.queue ++ [(p, ts)] }

/-- the trampoline loop; a cancelled item (everything queued, once disposed) is popped and skipped -/
def drain (w : When) : Nat → St → St
  | 0, s => s
  | f + 1, s =>
    match s.queue with
    | [] => s
    | (_, []) :: q => drain w f { s with queue := q }
    | (p, t :: ts) :: q =>
      if s.disposed then drain w f { s with queue := q }
      else drain w f (requeue p ts (runTurn w p t { s with queue := q }))

def turns : List (Nat × Producer) → Nat
  | [] => 0
  | (_, ts) :: q => ts.length + 1 + turns q

def enumFrom {α} : Nat → List α → List (Nat × α)
  | _, [] => []
  | i, x :: xs => (i, x) :: enumFrom (i + 1) xs

def init (w : When) (ps : List Producer) : St :=
  let s : St := { queue := enumFrom 0 ps, live := ps.length, seen := 0, disposed := w == .atStart, evs := [] }
  -- merge_all over zero sources completes inside the merge's own (queued, cancellable) action
  if ps.isEmpty && !s.disposed then deliver w .completed s else s

def final (w : When) (ps : List Producer) : St := drain w (turns (enumFrom 0 ps)) (init w ps)

def run (w : When) (ps : List Producer) : List Ev := (final w ps).evs

/-! ### the stale variant: cancellation tested when the batch of due items is gathered, not when each item is invoked
(what `Trampoline._run` would do with `if not item.is_cancelled(): ready.append(item)` at dequeue time and an unconditional
`invoke()` afterwards).  Items gathered into one batch run even if an earlier item of the batch disposed the subscription; the
producers' own polls (`runTurn`) still stop `of`/`from_iterable`, but a step-wise producer's callbacks run. -/

/-- a turn invoked without looking at the subscription state first; atoms after the first one still poll -/
def runTurnStale (w : When) (p : Nat) : List Atom → St → St
  | [], s => s
  | a :: as, s => runTurn w p as (atom w p a s)

def runBatchStale (w : When) : List (Nat × Producer) → St → St
  | [], s => s
  | (_, []) :: b, s => runBatchStale w b s
  | (p, t :: ts) :: b, s => runBatchStale w b (requeue p ts (runTurnStale w p t s))

def drainStale (w : When) : Nat → St → St
  | 0, s => s
  | f + 1, s =>
    match s.queue with
    | [] => s
    | q => if s.disposed then { s with queue := [] }       -- cancelled at gathering time
           else drainStale w f (runBatchStale w q { s with queue := [] })

def runStale (w : When) (ps : List Producer) : List Ev := (drainStale w (turns (enumFrom 0 ps)) (init w ps)).evs

/-- keep everything up to and including the m-th notification -/
def cut : Nat → List Ev → List Ev
  | 0, _ => []
  | _, [] => []
  | m + 1, e :: es => if e.isNotif then e :: cut m es else e :: cut (m + 1) es

def notifs (l : List Ev) : Nat := (l.filter Ev.isNotif).length

/-! ## the library's producers -/

def ofP (n : Nat) : Producer := [(List.range n).map Atom.emit ++ [.done]]

def iterP (n : Nat) : Producer :=
  [((List.range n).map fun j => [Atom.cb 0, Atom.emit j]).flatten ++ [.cb 0, .done]]

def rangeP (n : Nat) : Producer := ((List.range n).map fun j => [Atom.emit j]) ++ [[.done]]

def genP (n : Nat) : Producer :=
  (List.range (n + 1)).map fun j =>
    (if j = 0 then [] else [Atom.cb 2]) ++ [Atom.cb 1] ++ [if j < n then Atom.emit j else Atom.done]

end Pipe.Tramp

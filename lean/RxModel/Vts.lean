import RxModel.Core
import RxModel.VtsPQ
/-!
# L4 `VTS` — `VirtualTimeScheduler` / `TestScheduler` / `HistoricalScheduler`, and `CatchScheduler._wrap`

Mirrors `reactivex/scheduler/virtualtimescheduler.py` (`schedule`, `schedule_relative`,
`schedule_absolute`, `start`, `stop`, `advance_to`, `advance_by`, `sleep`), `scheduleditem.py`
(`invoke`, `is_cancelled`) and `catchscheduler.py` (`_wrap`, `_get_recursive_wrapper`).

* **Time** is an `Int`: ticks (= seconds) for the numeric flavour (`VirtualTimeScheduler(0)`,
  `TestScheduler`), microseconds since `UTC_ZERO` for the datetime flavour (`HistoricalScheduler`).
  The only place where the two flavours differ is the spin bump of `start` (`Cfg.bump`: `+= 1.0` vs
  `+= timedelta(microseconds=1000)`).  Non-integral floats are outside the model.
* **Actions are data** (`Act`): a straight-line body of steps "schedule this child action / cancel that
  handle / stop the scheduler / sleep / raise", ending in `done` or `raise`.  Children are again `Act`s,
  so a scheduled action is a finite tree and `loop` below is a total function: Lean checks its
  termination by well-founded recursion on the number of pending action-tree nodes (`PQ.nodes`).
  That termination proof is the C29 theorem.
* A `ScheduledItem` is `Item`: `cancelled` is `disposable.is_disposed`; `wrapped` says the action was
  scheduled through a `CatchScheduler` (it is `wrapped_action`).  `seq` is a ghost (global scheduling
  number) used only to *state* first-scheduled-first; the code's own tie-break is `PQ.count`.
* `log`, `skipped`, `hlog`, `nsched` are observation/ghost fields (what ran at which clock, which
  cancelled items were dequeued and skipped, what the CatchScheduler handler was called with, how many
  items were ever enqueued).
-/

namespace Vts

/-- `schedule` / `schedule_relative(t)` / `schedule_absolute(t)` -/
inductive Mode where
  | imm | rel | abs
deriving Repr, DecidableEq

/-- Which scheduler object an action uses to schedule a child: the one `handed` to it as first argument
(for a wrapped action that is `parent._get_recursive_wrapper(self)`, a CatchScheduler with the same
handler; for a raw action the virtual-time scheduler itself), the `inner` virtual-time scheduler
(closed over), or the `outer` CatchScheduler (closed over). -/
inductive Via where
  | handed | inner | outer
deriving Repr, DecidableEq

/-- a RE-ENTRANT control call made by an action on its own scheduler while that scheduler is running it:
`advance_to(t)`, `advance_by(d)` (`caught`: the action wraps the call in `try/except` and swallows the
`ArgumentOutOfRangeException`), `start()` -/
inductive Ctl where
  | advTo (t : Int) (caught : Bool)
  | advBy (d : Int) (caught : Bool)
  | start
deriving Repr, DecidableEq

inductive Act where
  | done
  | raise (e : Err)
  | sched (via : Via) (m : Mode) (t : Int) (cid : Nat) (child : Act) (rest : Act)
  | cancel (id : Nat) (rest : Act)
  | stop (rest : Act)
  | sleep (t : Int) (rest : Act)
  | ctl (c : Ctl) (rest : Act)
  /-- `return handle_of_child_c`: the action hands back the disposable of follow-up work it scheduled -/
  | ret (c : Nat)
deriving Repr

/-- number of action-tree nodes -/
def Act.size : Act → Nat
  | .done => 1
  | .raise _ => 1
  | .sched _ _ _ _ c r => c.size + r.size
  | .cancel _ r => r.size
  | .stop r => r.size
  | .sleep _ r => r.size
  | .ctl _ r => r.size
  | .ret _ => 1

theorem Act.size_pos (a : Act) : 0 < a.size := by
  induction a <;> simp [Act.size] <;> omega

/-- what the action returns when it completes normally: the handle of child `c` (`ret c`), else nothing -/
def Act.retOf : Act → Option Nat
  | .done => none
  | .raise _ => none
  | .sched _ _ _ _ _ r => r.retOf
  | .cancel _ r => r.retOf
  | .stop r => r.retOf
  | .sleep _ r => r.retOf
  | .ctl _ r => r.retOf
  | .ret c => some c

structure Item where
  id : Nat
  due : Int
  body : Act
  wrapped : Bool := false
  cancelled : Bool := false
  seq : Nat := 0
deriving Repr

/-- one executed action: its id, the clock when it was invoked, (ghost) its due time and scheduling number -/
structure Ran where
  id : Nat
  at_ : Int
  due : Int
  seq : Nat
deriving Repr, DecidableEq

structure Cfg where
  /-- spin bump of `start`: numeric `self._clock += 1.0`; datetime `+= timedelta(microseconds=1000)` -/
  bump : Int := 1
  /-- `MAX_SPINNING` -/
  maxSpin : Nat := 100
  /-- AS-IS datetime flavour only (unfixed tree): the spin branch executes `self.clock += …`, which reads
  the `clock` property and so re-acquires the non-reentrant `_lock` it already holds: the thread blocks. -/
  spinDeadlock : Bool := false
  /-- the CatchScheduler's handler verdict: `handler k e` is what the handler returns when it is called for the
  `k`-th time (k = number of earlier calls) with exception `e` — an arbitrary, possibly stateful callable -/
  handler : Nat → Err → Bool := fun _ _ => false

structure St where
  clock : Int := 0
  queue : PQ Item := {}
  enabled : Bool := false
  /-- the local `spinning` of `start` -/
  spin : Nat := 0
  log : List Ran := []
  skipped : List Nat := []
  hlog : List Err := []
  nsched : Nat := 0
  /-- `(id, c)`: action `id` completed and returned the handle of action `c`; `ScheduledItem.invoke` stored it in the
  item's `SingleAssignmentDisposable` (`self.disposable.disposable = ret`), so disposing handle `id` disposes handle `c` -/
  links : List (Nat × Nat) := []
  /-- handles (by action id) on which `dispose()` has been called -/
  dead : List Nat := []
  /-- ids for which a handle exists (everything scheduled so far); ids are assumed unique -/
  known : List Nat := []

inductive Out where
  | ok
  | raised (e : Err)
  | stuck
deriving Repr, DecidableEq

def aoor : Err := "ArgumentOutOfRangeException"

/-- pending action-tree nodes -/
def PQ.nodes (q : PQ Item) : Nat := (q.items.map (fun e => e.1.body.size)).sum

/-- `schedule_absolute`: `si = ScheduledItem(self, state, action, dt); self._queue.enqueue(si)` -/
def St.enqueue (s : St) (id : Nat) (due : Int) (body : Act) (wrapped : Bool) : St :=
  { s with queue := s.queue.enqueue { id, due, body, wrapped, cancelled := false, seq := s.nsched },
           nsched := s.nsched + 1, known := id :: s.known }

def dueOf (clock : Int) : Mode → Int → Int
  | .imm, _ => clock          -- schedule: schedule_absolute(self._clock, …)
  | .rel, t => clock + t      -- schedule_relative: self.add(self._clock, duetime)
  | .abs, t => t

/-- `disposable.dispose()` of the handle of action `id`: marks the pending item (if it is still pending;
disposing the handle of an action that already ran disposes the no-op disposable it returned). -/
def cancelEntry (id : Nat) (e : Item × Int) : Item × Int :=
  if e.1.id = id then ({ e.1 with cancelled := true }, e.2) else e

def St.cancel (s : St) (id : Nat) : St :=
  { s with queue := { s.queue with items := s.queue.items.map (cancelEntry id) },
           dead := if s.known.contains id then id :: s.dead else s.dead }

/-- the handles reached from handle `id` through returned disposables: `id`, what `id` returned, what that returned, … -/
def linkClosure (links : List (Nat × Nat)) : Nat → Nat → List Nat
  | 0, id => [id]
  | n + 1, id =>
    match links.find? (fun l => l.1 == id) with
    | some l => id :: linkClosure links n l.2
    | none => [id]

/-- `handle.dispose()` as the caller sees it: the `SingleAssignmentDisposable` of action `id` is disposed and disposes
the disposable the action returned, if it has run — transitively -/
def St.dispose (s : St) (id : Nat) : St :=
  (linkClosure s.links s.links.length id).foldl St.cancel s

/-- `ScheduledItem.invoke`: `self.disposable.disposable = ret` — remember what action `id` returned; a
`SingleAssignmentDisposable` that is already disposed disposes the value assigned to it at once -/
def St.attachRet (s : St) (id : Nat) : Option Nat → St
  | none => s
  | some c =>
    if s.dead.contains id then ({ s with links := (id, c) :: s.links }).dispose c
    else { s with links := (id, c) :: s.links }

/-- is a child scheduled by an action (itself wrapped iff `w`) through `via` a `wrapped_action`? -/
def childWrapped (w : Bool) : Via → Bool
  | .handed => w          -- `parent._get_recursive_wrapper(self)` / the raw scheduler
  | .inner => false
  | .outer => true

/-- Does the re-entrant call raise out of the action?  As written, `advance_to` first tests
`if self.now > dt: raise ArgumentOutOfRangeException()`, then `if self.now == dt or self._is_enabled: return`;
`advance_by(d)` is `advance_to(now + d)`; `start()` begins with `if self._is_enabled: return`.  The scheduler
is running (enabled) while it runs an action, so the call either raises or returns at once, changing nothing.
(Not modelled: an action that first calls `stop()` and then, in the same body, `start()`/`advance_to()` —
the real code would then run a nested loop.) -/
def ctlRaises (clock : Int) : Ctl → Bool
  | .advTo t caught => !caught && decide (clock > t)
  | .advBy d caught => !caught && decide (d < 0)
  | .start => false

/-- run an action body.  `w`: the running action is a CatchScheduler `wrapped_action`. -/
def exec (w : Bool) : Act → St → St × Option Err
  | .done, s => (s, none)
  | .raise e, s => (s, some e)
  | .sched via m t cid child rest, s =>
    exec w rest (s.enqueue cid (dueOf s.clock m t) child (childWrapped w via))
  | .cancel id rest, s => exec w rest (s.dispose id)
  | .stop rest, s => exec w rest { s with enabled := false }
  | .sleep t rest, s =>
    if t < 0 then (s, some aoor)       -- `if self.now > dt: raise ArgumentOutOfRangeException()`
    else exec w rest { s with clock := s.clock + t }
  | .ctl c rest, s =>
    if ctlRaises s.clock c then (s, some aoor)   -- out of range and not caught by the action
    else exec w rest s                           -- the guard returns at once: nothing changes
  | .ret _, s => (s, none)                       -- what is returned: `Act.retOf`, attached by `invoke`

/-- `item.invoke()`; for a wrapped action the `try/except` of `CatchScheduler._wrap`. -/
def invoke (cfg : Cfg) (x : Item) (s : St) : St × Option Err :=
  let s0 := { s with log := s.log ++ [{ id := x.id, at_ := s.clock, due := x.due, seq := x.seq }] }
  match exec x.wrapped x.body s0 with
  | (s1, none) => (s1.attachRet x.id x.body.retOf, none)   -- `self.disposable.disposable = ret`
  | (s1, some e) =>
    if x.wrapped then
      let s2 := { s1 with hlog := s1.hlog ++ [e] }     -- `parent._handler(ex)`
      if cfg.handler s1.hlog.length e then (s2, none)                  -- `return Disposable()`
      else (s2, some e)                                 -- `raise`
    else (s1, some e)

inductive Iter where
  | exit (s : St)
  | next (x : Item) (s : St)
  | raised (s : St) (e : Err)
  | stuck (s : St)

def Iter.st : Iter → St
  | .exit s => s
  | .next _ s => s
  | .raised s _ => s
  | .stuck s => s

/-- `if item.duetime > dt: break` (only `advance_to` has a target) -/
def pastTarget (tgt : Option Int) (x : Item) : Bool :=
  match tgt with
  | some T => decide (x.due > T)
  | none => false

/-- the clock update of one iteration (under the lock), for the dequeued item `x`; `q'` is the queue
without `x`.  `none`: the thread blocks (AS-IS datetime spin branch, see `Cfg.spinDeadlock`). -/
def tick (cfg : Cfg) (tgt : Option Int) (s : St) (x : Item) (q' : PQ Item) : Option St :=
  if x.due > s.clock then                                 -- `if item.duetime > self.now: self._clock = item.duetime`
    some { s with clock := x.due, spin := if tgt.isNone then 0 else s.spin, queue := q' }
  else if tgt.isNone && decide (s.spin > cfg.maxSpin) then       -- `elif spinning > MAX_SPINNING:` (start only)
    if cfg.spinDeadlock then none
    else some { s with clock := s.clock + cfg.bump, spin := 0, queue := q' }
  else some { s with queue := q' }

/-- `if not item.is_cancelled(): item.invoke()`; `spinning += 1` (start only) -/
def fin (cfg : Cfg) (tgt : Option Int) (s : St) (x : Item) : Iter :=
  if x.cancelled then
    .next x { s with skipped := s.skipped ++ [x.id], spin := if tgt.isNone then s.spin + 1 else s.spin }
  else
    match invoke cfg x s with
    | (s', none) => .next x { s' with spin := if tgt.isNone then s'.spin + 1 else s'.spin }
    | (s', some e) => .raised s' e

/-- One iteration of the `while True:` loop of `start` (`tgt = none`) or `advance_to(T)` (`tgt = some T`).
(`start` dequeues first and `advance_to` peeks, updates the clock and then dequeues; single-threaded the
two orders are indistinguishable.) -/
def iter (cfg : Cfg) (tgt : Option Int) (s : St) : Iter :=
  if s.enabled = false then .exit s                       -- `if not self._is_enabled …: break`
  else
    match s.queue.dequeue? Item.due with
    | none => .exit s                                     -- `… or not self._queue: break`
    | some (x, q') =>
      if pastTarget tgt x then .exit s
      else
        match tick cfg tgt s x q' with
        | none => .stuck s
        | some s1 => fin cfg tgt s1 x

/-! ### termination measure -/

theorem popMinBy_nodes {lt : (Item × Int) → (Item × Int) → Bool} :
    ∀ (l : List (Item × Int)) (m : Item × Int) (r : List (Item × Int)), popMinBy lt l = some (m, r) →
      (l.map (fun e => e.1.body.size)).sum = m.1.body.size + (r.map (fun e => e.1.body.size)).sum := by
  intro l
  induction l with
  | nil => intro m r h; simp [popMinBy] at h
  | cons x xs ih =>
    intro m r h
    simp only [popMinBy] at h
    cases hp : popMinBy lt xs with
    | none =>
      rw [hp] at h
      cases xs with
      | nil => simp at h; obtain ⟨rfl, rfl⟩ := h; simp
      | cons y ys =>
        simp only [popMinBy] at hp
        cases hq : popMinBy lt ys with
        | none => rw [hq] at hp; simp at hp
        | some mr => rw [hq] at hp; obtain ⟨m', r'⟩ := mr; simp only at hp; split at hp <;> simp at hp
    | some mr =>
      obtain ⟨m', r'⟩ := mr
      rw [hp] at h
      simp only at h
      have := ih m' r' hp
      split at h
      · simp at h; obtain ⟨rfl, rfl⟩ := h; simp [this]; omega
      · simp at h; obtain ⟨rfl, rfl⟩ := h; simp

theorem dequeue_nodes {q q' : PQ Item} {x : Item} (h : q.dequeue? Item.due = some (x, q')) :
    q.nodes = x.body.size + q'.nodes := by
  simp only [PQ.dequeue?] at h
  cases hp : popMinBy (PQ.entryLt Item.due) q.items with
  | none => rw [hp] at h; simp at h
  | some mr =>
    obtain ⟨m, r⟩ := mr
    rw [hp] at h
    simp at h
    obtain ⟨rfl, rfl⟩ := h
    simpa [PQ.nodes] using popMinBy_nodes _ _ _ hp

theorem cancel_nodes (s : St) (id : Nat) : (s.cancel id).queue.nodes = s.queue.nodes := by
  simp only [St.cancel, PQ.nodes, List.map_map]
  congr 1
  apply List.map_congr_left
  intro e _
  simp only [Function.comp, cancelEntry]
  split <;> rfl

theorem foldl_cancel_nodes (l : List Nat) (s : St) : (l.foldl St.cancel s).queue.nodes = s.queue.nodes := by
  induction l generalizing s with
  | nil => rfl
  | cons a l ih => rw [List.foldl_cons, ih, cancel_nodes]

theorem dispose_nodes (s : St) (id : Nat) : (s.dispose id).queue.nodes = s.queue.nodes :=
  foldl_cancel_nodes _ s

theorem attachRet_nodes (s : St) (id : Nat) (r : Option Nat) : (s.attachRet id r).queue.nodes = s.queue.nodes := by
  cases r with
  | none => rfl
  | some c =>
    simp only [St.attachRet]
    split
    · rw [dispose_nodes]
    · rfl

theorem enqueue_nodes (s : St) (id : Nat) (due : Int) (b : Act) (w : Bool) :
    (s.enqueue id due b w).queue.nodes = s.queue.nodes + b.size := by
  simp [St.enqueue, PQ.enqueue, PQ.nodes]

theorem exec_nodes (w : Bool) (a : Act) (s : St) :
    (exec w a s).1.queue.nodes + 1 ≤ s.queue.nodes + a.size := by
  induction a generalizing s with
  | done => simp [exec, Act.size]
  | raise e => simp [exec, Act.size]
  | sched via m t cid child rest _ ih =>
    have := ih (s.enqueue cid (dueOf s.clock m t) child (childWrapped w via))
    rw [enqueue_nodes] at this
    simp only [exec, Act.size]
    omega
  | cancel id rest ih =>
    have := ih (s.dispose id)
    rw [dispose_nodes] at this
    simpa [exec, Act.size] using this
  | stop rest ih => simpa [exec, Act.size] using ih { s with enabled := false }
  | sleep t rest ih =>
    simp only [exec, Act.size]
    split
    · have := rest.size_pos; simp only; omega
    · exact ih { s with clock := s.clock + t }
  | ctl c rest ih =>
    simp only [exec, Act.size]
    split
    · have := rest.size_pos; simp only; omega
    · exact ih s
  | ret c => simp [exec, Act.size]

theorem invoke_nodes (cfg : Cfg) (x : Item) (s : St) :
    (invoke cfg x s).1.queue.nodes + 1 ≤ s.queue.nodes + x.body.size := by
  have h := exec_nodes x.wrapped x.body
    { s with log := s.log ++ [{ id := x.id, at_ := s.clock, due := x.due, seq := x.seq }] }
  simp only [invoke]
  split
  · next s1 heq => rw [heq] at h; simp only [attachRet_nodes]; simpa using h
  · next s1 e heq =>
    rw [heq] at h
    split
    · split <;> simpa using h
    · simpa using h

theorem tick_queue {cfg : Cfg} {tgt : Option Int} {s s1 : St} {x : Item} {q' : PQ Item}
    (h : tick cfg tgt s x q' = some s1) : s1.queue = q' := by
  simp only [tick] at h
  split at h
  · simp at h; subst h; rfl
  · split at h
    · split at h
      · simp at h
      · simp at h; subst h; rfl
    · simp at h; subst h; rfl

theorem fin_next_nodes {cfg : Cfg} {tgt : Option Int} {s s' : St} {x y : Item}
    (h : fin cfg tgt s x = .next y s') : s'.queue.nodes + 1 ≤ s.queue.nodes + x.body.size := by
  simp only [fin] at h
  split at h
  · simp at h; obtain ⟨_, rfl⟩ := h
    have := x.body.size_pos
    simp only; omega
  · have hi := invoke_nodes cfg x s
    split at h
    · next s1 heq => simp at h; obtain ⟨_, rfl⟩ := h; rw [heq] at hi; simpa using hi
    · simp at h

theorem iter_next_nodes {cfg : Cfg} {tgt : Option Int} {s s' : St} {x : Item}
    (h : iter cfg tgt s = .next x s') : s'.queue.nodes < s.queue.nodes := by
  simp only [iter] at h
  split at h
  · simp at h
  · split at h
    · simp at h
    · next y q' hd =>
      have hq := dequeue_nodes hd
      split at h
      · simp at h
      · split at h
        · simp at h
        · next s1 ht =>
          have := fin_next_nodes h
          rw [tick_queue ht] at this
          omega

/-- The `while True:` loop.  Total: every iteration that continues strictly decreases the number of
pending action-tree nodes. -/
def loop (cfg : Cfg) (tgt : Option Int) (s : St) : St × Out :=
  match h : iter cfg tgt s with
  | .exit s' => (s', .ok)
  | .next _ s' => loop cfg tgt s'
  | .raised s' e => (s', .raised e)
  | .stuck s' => (s', .stuck)
termination_by s.queue.nodes
decreasing_by exact iter_next_nodes h

/-- the same loop with explicit fuel (structural recursion, evaluable by `decide`); equal to `loop`
whenever the fuel exceeds the number of pending nodes (`loop_eq_loopFuel`). -/
def loopFuel (cfg : Cfg) (tgt : Option Int) : Nat → St → St × Out
  | 0, s => (s, .stuck)
  | n + 1, s =>
    match iter cfg tgt s with
    | .exit s' => (s', .ok)
    | .next _ s' => loopFuel cfg tgt n s'
    | .raised s' e => (s', .raised e)
    | .stuck s' => (s', .stuck)

/-- `start()` -/
def start (cfg : Cfg) (s : St) : St × Out :=
  if s.enabled then (s, .ok)                               -- `if self._is_enabled: return`
  else
    match loop cfg none { s with enabled := true, spin := 0 } with
    | (s', .ok) => ({ s' with enabled := false }, .ok)     -- `self.stop()`
    | r => r                                               -- exception: `_is_enabled` stays True (as written)

/-- `advance_to(time)` — AS WRITTEN, including the `self.now == dt` early return (known finding C28). -/
def advanceTo (cfg : Cfg) (T : Int) (s : St) : St × Out :=
  if s.clock > T then (s, .raised aoor)                    -- `if self.now > dt: raise ArgumentOutOfRangeException()`
  else if s.clock = T ∨ s.enabled = true then (s, .ok)     -- `if self.now == dt or self._is_enabled: return`
  else
    match loop cfg (some T) { s with enabled := true } with
    | (s', .ok) => ({ s' with enabled := false, clock := T }, .ok)
    | r => r

/-- `advance_by(time)`: `self.advance_to(self.add(self.now, self.to_timedelta(time)))` -/
def advanceBy (cfg : Cfg) (t : Int) (s : St) : St × Out := advanceTo cfg (s.clock + t) s

/-- `sleep(time)` -/
def sleep (t : Int) (s : St) : St × Out :=
  if t < 0 then (s, .raised aoor) else ({ s with clock := s.clock + t }, .ok)

/-- a call made on the scheduler from outside any action -/
inductive Op where
  | sched (wrapped : Bool) (m : Mode) (t : Int) (id : Nat) (body : Act)
  | cancel (id : Nat)
  | start
  | stop
  | advanceTo (t : Int)
  | advanceBy (t : Int)
  | sleep (t : Int)
deriving Repr

def doOp (cfg : Cfg) (s : St) : Op → St × Out
  | .sched w m t id body => (s.enqueue id (dueOf s.clock m t) body w, .ok)
  | .cancel id => (s.dispose id, .ok)
  | .start => start cfg s
  | .stop => ({ s with enabled := false }, .ok)
  | .advanceTo t => advanceTo cfg t s
  | .advanceBy t => advanceBy cfg t s
  | .sleep t => sleep t s

/-- run a script; a blocked thread (`stuck`) never makes another call -/
def runOps (cfg : Cfg) : St → List Op → St × List Out
  | s, [] => (s, [])
  | s, op :: ops =>
    match doOp cfg s op with
    | (s', .stuck) => (s', [.stuck])
    | (s', o) => let (s'', os) := runOps cfg s' ops; (s'', o :: os)

end Vts

import RxModel.Core
/-!
# Agg.Base — the handler framework of the aggregating-operator family (DESIGN.md §4 L1)

An operator over one source is `⟨σ, init, onNext, onError, onCompleted⟩`; a handler returns the new
state, the calls it makes on the downstream observer (in order) and the exception that escapes to
whoever called the handler (the emitter), if any.  User callbacks are `… → Except Err β`.

`Op.steps` feeds a *raw* notification list (conforming or not) through
  * the upstream `AutoDetachObserver` (`up` = its `is_stopped`: set by the source's terminal *before* the
    handler runs; nothing reaches the handlers afterwards),
  * the handlers,
  * the downstream `AutoDetachObserver` (`down` = its `is_stopped`).
The two observers are kept as their `is_stopped` flags only: downstream callbacks are assumed to return
normally, so the callback counter of `Core.Ado` plays no role (`RxProofs.Lemmas.AggBase.cut_eq_ado`
ties `cut` to `Ado.delivered`).

`lag = true` is the adversarial case of a synchronous subscribe in which the disposal issued by the
downstream observer's terminal has not reached the source yet: handlers keep being invoked until the
source's own terminal.  `lag = false` is the prompt case (hot sources, subjects): the downstream
terminal disposes the upstream observer at once.  Theorems are stated for every `lag`.
-/

namespace Agg

/-- What one handler invocation did. -/
structure HOut (σ β : Type) where
  st : σ
  calls : List (Notif β)
  esc : Option Err
deriving Repr

/-- handler result without an escaping exception -/
@[reducible] def emit {σ β} (s : σ) (calls : List (Notif β)) : HOut σ β := ⟨s, calls, none⟩

structure Op (α β : Type) where
  σ : Type
  init : σ
  onNext : σ → α → HOut σ β
  onError : σ → Err → HOut σ β
  onCompleted : σ → HOut σ β

def Op.handle {α β} (op : Op α β) (s : op.σ) : Notif α → HOut op.σ β
  | .next v => op.onNext s v
  | .error e => op.onError s e
  | .completed => op.onCompleted s

/-- The downstream `AutoDetachObserver`: `d` is `is_stopped`; returns the new flag and what the
subscriber's callbacks receive. -/
def deliver {β} : Bool → List (Notif β) → Bool × List (Notif β)
  | d, [] => (d, [])
  | true, _ :: _ => (true, [])
  | false, n :: ns => ((deliver n.isTerminal ns).1, n :: (deliver n.isTerminal ns).2)

structure RunSt (σ : Type) where
  up : Bool
  s : σ
  down : Bool

structure StepOut (σ β : Type) where
  st : RunSt σ
  out : List (Notif β)
  esc : Option Err

/-- One raw notification from the source. -/
def Op.step {α β} (op : Op α β) (lag : Bool) (st : RunSt op.σ) (n : Notif α) : StepOut op.σ β :=
  if st.up then ⟨st, [], none⟩
  else
    let h := op.handle st.s n
    let d := deliver st.down h.calls
    ⟨⟨n.isTerminal || (!lag && d.1), h.st, d.1⟩, d.2, h.esc⟩

def Op.steps {α β} (op : Op α β) (lag : Bool) : RunSt op.σ → List (Notif α) → List (StepOut op.σ β)
  | _, [] => []
  | st, n :: ns => op.step lag st n :: op.steps lag (op.step lag st n).st ns

def Op.start {α β} (op : Op α β) : RunSt op.σ := ⟨false, op.init, false⟩

/-- what the subscriber sees -/
def Op.out {α β} (op : Op α β) (lag : Bool) (raw : List (Notif α)) : List (Notif β) :=
  (op.steps lag op.start raw).flatMap (·.out)

/-- exceptions that escaped to the emitter, in order -/
def Op.escapes {α β} (op : Op α β) (lag : Bool) (raw : List (Notif α)) : List Err :=
  (op.steps lag op.start raw).filterMap (·.esc)

/-- final run state -/
def Op.finalFrom {α β} (op : Op α β) (lag : Bool) : RunSt op.σ → List (Notif α) → RunSt op.σ
  | st, [] => st
  | st, n :: ns => op.finalFrom lag (op.step lag st n).st ns

def Op.final {α β} (op : Op α β) (lag : Bool) (raw : List (Notif α)) : RunSt op.σ :=
  op.finalFrom lag op.start raw

/-- Timed run: every handler emits synchronously, so each output carries the time of the input whose
handler produced it. -/
def Op.outT {α β τ} (op : Op α β) (lag : Bool) (raw : List (τ × Notif α)) : List (τ × Notif β) :=
  ((raw.map (·.1)).zip (op.steps lag op.start (raw.map (·.2)))).flatMap (fun p => p.2.out.map (fun n => (p.1, n)))

/-! ## The list view: conforming prefix, raw handler output, downstream cut -/

/-- `next* (terminal)?` prefix: what an `AutoDetachObserver` lets through. -/
def cut {β} : List (Notif β) → List (Notif β)
  | [] => []
  | n :: ns => if n.isTerminal then [n] else n :: cut ns

/-- all downstream calls made by the handlers over a (conforming) input, ignoring both observers -/
def Op.feed {α β} (op : Op α β) : op.σ → List (Notif α) → List (Notif β)
  | _, [] => []
  | s, n :: ns => (op.handle s n).calls ++ op.feed (op.handle s n).st ns

/-- How a conforming sequence ends. -/
inductive Ending where
  | open            -- no terminal (yet)
  | done
  | err (e : Err)
deriving Repr, DecidableEq

def Ending.notifs {β} : Ending → List (Notif β)
  | .open => []
  | .done => [.completed]
  | .err e => [.error e]

/-- elements delivered before the first terminal -/
def elems {α} : List (Notif α) → List α
  | [] => []
  | .next v :: ns => v :: elems ns
  | _ :: _ => []

def ending {α} : List (Notif α) → Ending
  | [] => .open
  | .next _ :: ns => ending ns
  | .completed :: _ => .done
  | .error e :: _ => .err e

/-- "at the end of the source": `onDone` when it completes, its error when it fails, nothing while open -/
def atEnd {β} (t : Ending) (onDone : List (Notif β)) : List (Notif β) :=
  match t with
  | .open => []
  | .done => onDone
  | .err e => [.error e]

/-! ## Composition `source.pipe(f, g)`: `g` subscribes to `f`'s observable through its own
`AutoDetachObserver` (`mid`).  `pump` pushes `f`'s downstream calls through that observer into `g`'s
handlers.  (Exact when `g`'s handlers do not raise into `f` — which `C09.no_escape_*` proves for every
operator of this family; otherwise the first escaping exception is reported and the remaining calls of
the same handler are still made.) -/

def pump {β γ} (g : Op β γ) : Bool → g.σ → List (Notif β) → (Bool × g.σ) × List (Notif γ) × Option Err
  | m, s, [] => ((m, s), [], none)
  | true, s, _ :: _ => ((true, s), [], none)
  | false, s, n :: ns =>
    let h := g.handle s n
    let r := pump g n.isTerminal h.st ns
    (r.1, h.calls ++ r.2.1, h.esc.or r.2.2)

def compH {σf β γ} (g : Op β γ) (m : Bool) (sg : g.σ) (h : HOut σf β) : HOut (σf × Bool × g.σ) γ :=
  let r := pump g m sg h.calls
  ⟨(h.st, r.1.1, r.1.2), r.2.1, h.esc.or r.2.2⟩

def Op.comp {α β γ} (f : Op α β) (g : Op β γ) : Op α γ where
  σ := f.σ × Bool × g.σ
  init := (f.init, false, g.init)
  onNext s x := compH g s.2.1 s.2.2 (f.onNext s.1 x)
  onError s e := compH g s.2.1 s.2.2 (f.onError s.1 e)
  onCompleted s := compH g s.2.1 s.2.2 (f.onCompleted s.1)

infixl:60 " ⨾ " => Op.comp

abbrev errNoElements : Err := "SequenceContainsNoElementsError"
abbrev errException : Err := "Exception"

end Agg

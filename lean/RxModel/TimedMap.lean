import RxModel.TimedBase
/-!
# TimedMap — the `*_with_mapper` operators as trace machines (C15 delay_with_mapper, C16 throttle_with_mapper,
C17 timeout_with_mapper)

These operators own no timer: their timing comes from observables the user's mapper returns.  Whatever the scheduler
does, one run is one finite list of **tagged events**: a notification of the source, of the `k`-th inner observable
(the one the mapper returned for the `k`-th source element; for timeout_with_mapper index `0` is `first_timeout` and
`k+1` belongs to element `k`), or of delay_with_mapper's subscription-delay observable.  An event addressed to an
inner observable that is not subscribed at that point (never subscribed, already disposed by the Serial/Composite
container, or everything disposed after a downstream terminal) is ignored — that is its subscription's
`AutoDetachObserver`.  The theorems quantify over all event lists.

`raises k x` = the mapper raises on its `k`-th call (with argument `x`).
-/

namespace Timed

/-- a signal of an inner observable (its values are never looked at) -/
inductive Sig where
  | next
  | error (e : Err)
  | completed
deriving Repr, DecidableEq

inductive MEv (α : Type) where
  | src (n : Notif α)
  | inner (k : Nat) (s : Sig)
  | sub (s : Sig)
deriving Repr, DecidableEq

/-- a machine: state, `done` (a terminal went downstream / the fallback took over: nothing more is produced) and a step
that may also ask for the fallback observable to be subscribed -/
structure Step (σ β : Type) where
  st : σ
  out : List (Notif β) := []
  switch : Bool := false

/-- run a machine over a timed trace; `other S` = what the fallback delivers when subscribed at `S` -/
def runTrace {σ α β} (step : σ → MEv α → Step σ β) (isDone : σ → Bool) (other : Nat → TL β) :
    σ → List (Nat × MEv α) → TL β
  | _, [] => []
  | s, (t, ev) :: rest =>
    if isDone s then [] else
      let r := step s ev
      at_ t r.out ++ (if r.switch then other t else runTrace step isDone other r.st rest)

/-! ## throttle_with_mapper (`_debounce.py`)
```
cancelable = SerialDisposable(); has_value=False; value=None; _id=[0]
on_next(x):   throttle = mapper(x)   (raises -> observer.on_error(e); return)
              has_value=True; value=x; _id+=1; current_id=_id; d=SingleAssignmentDisposable(); cancelable.disposable = d
              d.disposable = throttle.subscribe(on_next', observer.on_error, on_completed')
   on_next'(_) / on_completed'():  if has_value and _id == current_id: observer.on_next(value)
                                   has_value=False; d.dispose()
on_error(e):  cancelable.dispose(); observer.on_error(e); has_value=False; _id+=1
on_completed: cancelable.dispose(); if has_value: observer.on_next(value)
              observer.on_completed(); has_value=False; _id+=1
``` -/
structure TwmSt (α : Type) where
  hasValue : Bool := false
  value : Option α := none
  id : Nat := 0
  live : Option (Nat × Nat) := none     -- the throttle subscription held by `cancelable`: (index, current_id)
  count : Nat := 0                       -- source elements so far
  done : Bool := false

def twmEmit {α} (s : TwmSt α) : List (Notif α) :=
  match s.value with
  | some v => [.next v]
  | none => []

def twmStep {α} (raises : Nat → α → Option Err) (s : TwmSt α) : MEv α → Step (TwmSt α) α
  | .src (.next x) =>
    match raises s.count x with
    | some e => { st := { s with count := s.count + 1, done := true }, out := [.error e] }
    | none => { st := { s with hasValue := true, value := some x, id := s.id + 1, live := some (s.count, s.id + 1),
                               count := s.count + 1 } }
  | .src (.error e) => { st := { s with live := none, hasValue := false, id := s.id + 1, done := true }, out := [.error e] }
  | .src .completed =>
    { st := { s with live := none, hasValue := false, id := s.id + 1, done := true },
      out := (if s.hasValue then twmEmit s else []) ++ [.completed] }
  | .inner k sig =>
    match s.live with
    | some (k', cur) =>
      if k' = k then
        match sig with
        | .error e => { st := { s with done := true }, out := [.error e] }
        | _ => { st := { s with hasValue := false, live := none },
                 out := if s.hasValue && s.id == cur then twmEmit s else [] }
      else { st := s }
    | none => { st := s }
  | .sub _ => { st := s }

def twmRun {α} (raises : Nat → α → Option Err) (tr : List (Nat × MEv α)) : TL α :=
  runTrace (twmStep raises) (·.done) (fun _ => []) {} tr

/-- the rule: a source element becomes *the* pending element (replacing the previous one); the first signal of the
pending element's own throttle observable emits it; completion flushes it, an error drops it. -/
structure TwmAbs (α : Type) where
  pend : Option (Nat × α) := none
  count : Nat := 0
  done : Bool := false

def twmAbsStep {α} (raises : Nat → α → Option Err) (a : TwmAbs α) : MEv α → Step (TwmAbs α) α
  | .src (.next x) =>
    match raises a.count x with
    | some e => { st := { a with count := a.count + 1, done := true }, out := [.error e] }
    | none => { st := { a with pend := some (a.count, x), count := a.count + 1 } }
  | .src (.error e) => { st := { a with pend := none, done := true }, out := [.error e] }
  | .src .completed =>
    { st := { a with pend := none, done := true },
      out := (match a.pend with | some (_, x) => [Notif.next x] | none => []) ++ [.completed] }
  | .inner k sig =>
    match a.pend with
    | some (k', x) =>
      if k' = k then
        match sig with
        | .error e => { st := { a with done := true }, out := [.error e] }
        | _ => { st := { a with pend := none }, out := [.next x] }
      else { st := a }
    | none => { st := a }
  | .sub _ => { st := a }

def twmSpec {α} (raises : Nat → α → Option Err) (tr : List (Nat × MEv α)) : TL α :=
  runTrace (twmAbsStep raises) (·.done) (fun _ => []) {} tr

/-! ## delay_with_mapper (`_delaywithmapper.py`)
```
delays = CompositeDisposable(); at_end=[False]; subscription = SerialDisposable()
done():  if at_end and delays.length == 0: observer.on_completed()
start(): subscription.disposable = source.subscribe(on_next, observer.on_error, on_completed)
   on_next(x):    delay = mapper(x)  (raises -> observer.on_error; return)
                  d = SingleAssignmentDisposable(); delays.add(d)
                  d.disposable = delay.subscribe(on_next', observer.on_error, on_completed')
      on_next'(_) / on_completed'():  observer.on_next(x); delays.remove(d); done()
   on_completed:  at_end=True; subscription.dispose(); done()
if no subscription delay: start()
else: subscription.disposable = sub_delay.subscribe(lambda _: start(), observer.on_error, start)
``` -/
structure DwmSt (α : Type) where
  delays : List (Nat × α) := []      -- live delay subscriptions: (index, the element waiting)
  atEnd : Bool := false
  subLive : Bool := false            -- the subscription-delay observable is subscribed
  srcLive : Bool := false            -- the source is subscribed
  count : Nat := 0
  done : Bool := false

def dwmInit {α} (hasSubDelay : Bool) : DwmSt α :=
  if hasSubDelay then { subLive := true } else { srcLive := true }

def dwmDone {α} (s : DwmSt α) : List (Notif α) :=
  if s.atEnd && s.delays.isEmpty then [.completed] else []

def dwmFinish {α} (s : DwmSt α) (out : List (Notif α)) : Step (DwmSt α) α :=
  { st := { s with done := s.done || !(dwmDone s).isEmpty }, out := out ++ dwmDone s }

def dwmStep {α} (raises : Nat → α → Option Err) (s : DwmSt α) : MEv α → Step (DwmSt α) α
  | .sub sig =>
    if s.subLive then
      match sig with
      | .error e => { st := { s with done := true }, out := [.error e] }
      | _ => { st := { s with subLive := false, srcLive := true } }          -- start()
    else { st := s }
  | .src n =>
    if s.srcLive then
      match n with
      | .next x =>
        match raises s.count x with
        | some e => { st := { s with count := s.count + 1, done := true }, out := [.error e] }
        | none => { st := { s with delays := s.delays ++ [(s.count, x)], count := s.count + 1 } }
      | .error e => { st := { s with done := true }, out := [.error e] }
      | .completed => dwmFinish { s with atEnd := true, srcLive := false } []
    else { st := s }
  | .inner k sig =>
    match s.delays.find? (fun p => p.1 == k) with
    | some (_, x) =>
      match sig with
      | .error e => { st := { s with done := true }, out := [.error e] }
      | _ => dwmFinish { s with delays := s.delays.filter (fun p => !(p.1 == k)) } [.next x]
    | none => { st := s }

def dwmRun {α} (raises : Nat → α → Option Err) (hasSubDelay : Bool) (tr : List (Nat × MEv α)) : TL α :=
  runTrace (dwmStep raises) (·.done) (fun _ => []) (dwmInit hasSubDelay) tr

/-- The rule, over the *history*: `seen` = every source element so far with its ordinal, `fired` = the ordinals whose delay
observable has signalled.  An element is delivered by the first signal (element or completion) of its own delay
observable — a signal for an ordinal that is not in `seen` or already in `fired` does nothing — and the completion goes
out once the source has completed and every seen element has fired. -/
structure DwmAbs (α : Type) where
  seen : List (Nat × α) := []
  fired : List Nat := []
  atEnd : Bool := false
  subLive : Bool := false
  srcLive : Bool := false
  count : Nat := 0
  done : Bool := false

def dwmAbsInit {α} (hasSubDelay : Bool) : DwmAbs α :=
  if hasSubDelay then { subLive := true } else { srcLive := true }

def dwmAbsDone {α} (a : DwmAbs α) : List (Notif α) :=
  if a.atEnd && a.seen.all (fun p => a.fired.contains p.1) then [.completed] else []

def dwmAbsFinish {α} (a : DwmAbs α) (out : List (Notif α)) : Step (DwmAbs α) α :=
  { st := { a with done := a.done || !(dwmAbsDone a).isEmpty }, out := out ++ dwmAbsDone a }

def dwmAbsStep {α} (raises : Nat → α → Option Err) (a : DwmAbs α) : MEv α → Step (DwmAbs α) α
  | .sub sig =>
    if a.subLive then
      match sig with
      | .error e => { st := { a with done := true }, out := [.error e] }
      | _ => { st := { a with subLive := false, srcLive := true } }
    else { st := a }
  | .src n =>
    if a.srcLive then
      match n with
      | .next x =>
        match raises a.count x with
        | some e => { st := { a with count := a.count + 1, done := true }, out := [.error e] }
        | none => { st := { a with seen := a.seen ++ [(a.count, x)], count := a.count + 1 } }
      | .error e => { st := { a with done := true }, out := [.error e] }
      | .completed => dwmAbsFinish { a with atEnd := true, srcLive := false } []
    else { st := a }
  | .inner k sig =>
    if a.fired.contains k then { st := a }
    else
      match a.seen.find? (fun p => p.1 == k) with
      | some (_, x) =>
        match sig with
        | .error e => { st := { a with done := true }, out := [.error e] }
        | _ => dwmAbsFinish { a with fired := k :: a.fired } [.next x]
      | none => { st := a }

def dwmSpec {α} (raises : Nat → α → Option Err) (hasSubDelay : Bool) (tr : List (Nat × MEv α)) : TL α :=
  runTrace (dwmAbsStep raises) (·.done) (fun _ => []) (dwmAbsInit hasSubDelay) tr

/-! ## timeout_with_mapper (`_timeoutwithmapper.py`)
```
subscription=SerialDisposable(); timer=SerialDisposable(); original=SingleAssignmentDisposable(); subscription.disposable=original
switched=False  (never assigned afterwards);  _id=[0]
set_timer(timeout): my_id=_id[0]; d=SingleAssignmentDisposable(); timer.disposable=d
    on_next(_):    if _id[0]==my_id: subscription.disposable = other.subscribe(observer)     ; d.dispose()
    on_error(e):   if _id[0]==my_id: observer.on_error(e)
    on_completed:  if _id[0]==my_id: subscription.disposable = other.subscribe(observer)
set_timer(first_timeout)
observer_wins(): res = not switched; if res: _id[0]+=1; return res
on_next(x): if observer_wins(): observer.on_next(x); timeout = mapper(x) (raises -> observer.on_error; return); set_timer(timeout)
on_error(e) / on_completed(): if observer_wins(): observer.on_error(e) / observer.on_completed()
```
Subscribing the fallback into `subscription` disposes the source subscription. -/
structure TowmSt where
  id : Nat := 0
  switched : Bool := false
  timer : Option (Nat × Nat) := some (0, 0)   -- (index of the timer observable held by `timer`, my_id); first_timeout
  count : Nat := 0
  done : Bool := false
deriving Repr, DecidableEq

def towmStep {α} (raises : Nat → α → Option Err) (s : TowmSt) : MEv α → Step TowmSt α
  | .src (.next x) =>
    if !s.switched then
      match raises s.count x with
      | some e => { st := { s with id := s.id + 1, count := s.count + 1, done := true }, out := [.next x, .error e] }
      | none => { st := { s with id := s.id + 1, count := s.count + 1, timer := some (s.count + 1, s.id + 1) },
                  out := [.next x] }
    else { st := s }
  | .src n =>
    if !s.switched then { st := { s with id := s.id + 1, done := true }, out := [n] } else { st := s }
  | .inner k sig =>
    match s.timer with
    | some (k', my) =>
      if k' = k then
        match sig with
        | .error e => if s.id == my then { st := { s with done := true }, out := [.error e] } else { st := s }
        | _ => if s.id == my then { st := { s with timer := none, done := true }, switch := true }
               else { st := { s with timer := none } }
      else { st := s }
    | none => { st := s }
  | .sub _ => { st := s }

def towmRun {α} (raises : Nat → α → Option Err) (other : Nat → TL α) (tr : List (Nat × MEv α)) : TL α :=
  runTrace (towmStep raises) (·.done) other {} tr

/-- the rule: the timer observable of the latest element (first_timeout before any element) is *the* current timer;
its first signal switches to the fallback (its error is forwarded); every source notification is relayed. -/
structure TowmAbs where
  cur : Option Nat := some 0
  count : Nat := 0
  done : Bool := false
deriving Repr, DecidableEq

def towmAbsStep {α} (raises : Nat → α → Option Err) (a : TowmAbs) : MEv α → Step TowmAbs α
  | .src (.next x) =>
    match raises a.count x with
    | some e => { st := { a with count := a.count + 1, done := true }, out := [.next x, .error e] }
    | none => { st := { a with count := a.count + 1, cur := some (a.count + 1) }, out := [.next x] }
  | .src n => { st := { a with done := true }, out := [n] }
  | .inner k sig =>
    match a.cur with
    | some k' =>
      if k' = k then
        match sig with
        | .error e => { st := { a with done := true }, out := [.error e] }
        | _ => { st := { a with cur := none, done := true }, switch := true }
      else { st := a }
    | none => { st := a }
  | .sub _ => { st := a }

def towmSpec {α} (raises : Nat → α → Option Err) (other : Nat → TL α) (tr : List (Nat × MEv α)) : TL α :=
  runTrace (towmAbsStep raises) (·.done) other {} tr

/-! ## Building the trace of a virtual-time run (driver glue; the theorems do not depend on it)
The scheduler runs pending items by `(due, seq)`; listing the event sources in the order in which their messages were
scheduled and merging stably by time gives exactly that order. -/
def insertEv {β} (e : Nat × β) : List (Nat × β) → List (Nat × β)
  | [] => [e]
  | x :: xs => if e.1 < x.1 then e :: x :: xs else x :: insertEv e xs

def mergeStable {β} (l : List (Nat × β)) : List (Nat × β) := l.foldl (fun acc e => insertEv e acc) []

def sigOf {α} : Notif α → Sig
  | .next _ => .next
  | .error e => .error e
  | .completed => .completed

/-- the events of the inner observable with index `k`, a cold observable subscribed at `t0` -/
def innerEvents {α β} (k t0 : Nat) (tl : TL β) : List (Nat × MEv α) :=
  (conform tl).map (fun m => (t0 + m.1, MEv.inner k (sigOf m.2)))

/-- arrival times of the source elements, in order -/
def elemTimes {α} (seen : TL α) : List Nat := (nexts seen).map (·.1)

end Timed

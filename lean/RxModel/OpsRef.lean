import RxModel.Ops
/-!
# Reference list semantics for the element-wise operators (C05)

The *specification* side of the C05 theorems: what the equivalent Python list computation yields
for the elements `xs` of a sequence and its end `e` (still open / completed / failed).
Operators without user callbacks are specified directly with `List.take`, `List.drop`, `List.zip`, …
in the theorem statements.  Operators with callbacks that may raise are specified by the obvious
reference loop — evaluate the callback element by element, stop with the exception at the first
raise — and, for callbacks that do not raise, by the standard list function (`*_pure` theorems).
-/
namespace Ops

variable {α β κ : Type}

/-- the last `n` elements -/
def lastN (n : Nat) (xs : List α) : List α := xs.drop (xs.length - n)
/-- all but the last `n` elements -/
def butLastN (n : Nat) (xs : List α) : List α := xs.take (xs.length - n)

/-- `[f(x) for x in xs]`, stopping with the exception at the first raise -/
def refMap (f : α → Except Err β) : List α → End → List (Notif β)
  | [], e => e.toNotifs
  | x :: xs, e =>
    match f x with
    | .error er => [.error er]
    | .ok y => .next y :: refMap f xs e

/-- `[f(x, i) for i, x in enumerate(xs, i0)]` -/
def refMapIdx (f : α → Nat → Except Err β) : Nat → List α → End → List (Notif β)
  | _, [], e => e.toNotifs
  | i, x :: xs, e =>
    match f x i with
    | .error er => [.error er]
    | .ok y => .next y :: refMapIdx f (i + 1) xs e

/-- `[x for x in xs if p(x)]` -/
def refFilter (p : α → Except Err Bool) : List α → End → List (Notif α)
  | [], e => e.toNotifs
  | x :: xs, e =>
    match p x with
    | .error er => [.error er]
    | .ok b => if b then .next x :: refFilter p xs e else refFilter p xs e

/-- `[x for i, x in enumerate(xs, i0) if p(x, i)]` -/
def refFilterIdx (p : α → Nat → Except Err Bool) : Nat → List α → End → List (Notif α)
  | _, [], e => e.toNotifs
  | i, x :: xs, e =>
    match p x i with
    | .error er => [.error er]
    | .ok b => if b then .next x :: refFilterIdx p (i + 1) xs e else refFilterIdx p (i + 1) xs e

/-- `itertools.takewhile(p, xs)` (+ the first failing element when `inclusive`), then completion -/
def refTakeWhile (p : α → Except Err Bool) (inclusive : Bool) : List α → End → List (Notif α)
  | [], e => e.toNotifs
  | x :: xs, e =>
    match p x with
    | .error er => [.error er]
    | .ok b =>
      if b then .next x :: refTakeWhile p inclusive xs e
      else (if inclusive then [.next x] else []) ++ [.completed]

def refTakeWhileIdx (p : α → Nat → Except Err Bool) (inclusive : Bool) : Nat → List α → End → List (Notif α)
  | _, [], e => e.toNotifs
  | i, x :: xs, e =>
    match p x i with
    | .error er => [.error er]
    | .ok b =>
      if b then .next x :: refTakeWhileIdx p inclusive (i + 1) xs e
      else (if inclusive then [.next x] else []) ++ [.completed]

/-- `itertools.dropwhile(p, xs)`: the predicate is not evaluated any more once it returned false -/
def refSkipWhile (p : α → Except Err Bool) : List α → End → List (Notif α)
  | [], e => e.toNotifs
  | x :: xs, e =>
    match p x with
    | .error er => [.error er]
    | .ok b => if b then refSkipWhile p xs e else outSeq (x :: xs) e

def refSkipWhileIdx (p : α → Nat → Except Err Bool) : Nat → List α → End → List (Notif α)
  | _, [], e => e.toNotifs
  | i, x :: xs, e =>
    match p x i with
    | .error er => [.error er]
    | .ok b => if b then refSkipWhileIdx p (i + 1) xs e else outSeq (x :: xs) e

/-- `any(cmp(a, k) for a in seen)`, evaluated left to right, stopping at the first raise -/
def anyMatch (cmp : κ → κ → Except Err Bool) (k : κ) : List κ → Except Err Bool
  | [] => .ok false
  | a :: rest =>
    match cmp a k with
    | .error e => .error e
    | .ok true => .ok true
    | .ok false => anyMatch cmp k rest

/-- keep `x` iff no earlier *kept* key matches its key under the comparer (`seen` = kept keys) -/
def refDistinct (key : α → Except Err κ) (cmp : κ → κ → Except Err Bool) : List κ → List α → End → List (Notif α)
  | _, [], e => e.toNotifs
  | seen, x :: xs, e =>
    match key x with
    | .error er => [.error er]
    | .ok k =>
      match anyMatch cmp k seen with
      | .error er => [.error er]
      | .ok true => refDistinct key cmp seen xs e
      | .ok false => .next x :: refDistinct key cmp (seen ++ [k]) xs e

/-- keep `x` iff its key differs (under the comparer) from the key of the last kept element -/
def refDUC (key : α → Except Err κ) (cmp : κ → κ → Except Err Bool) : Option κ → List α → End → List (Notif α)
  | _, [], e => e.toNotifs
  | cur, x :: xs, e =>
    match key x with
    | .error er => [.error er]
    | .ok k =>
      match cur with
      | none => .next x :: refDUC key cmp (some k) xs e
      | some c =>
        match cmp c k with
        | .error er => [.error er]
        | .ok eq => if eq then refDUC key cmp cur xs e else .next x :: refDUC key cmp (some k) xs e

/-- what `find`/`find_index` yield when nothing matched -/
def notFound (no : β) (e : End) : List (Notif β) :=
  match e with
  | .completed => [.next no, .completed]
  | _ => e.toNotifs

/-- first `x` (at position `i`, counting from `i0`) with `p(x, i)`; `no` if there is none -/
def refFind (p : α → Nat → Except Err Bool) (yes : α → Nat → β) (no : β) : Nat → List α → End → List (Notif β)
  | _, [], .completed => [.next no, .completed]
  | _, [], e => e.toNotifs
  | i, x :: xs, e =>
    match p x i with
    | .error er => [.error er]
    | .ok b => if b then [.next (yes x i), .completed] else refFind p yes no (i + 1) xs e

/-- `itertools.accumulate(xs, f, initial=seed)[1:]` -/
def refScan (f : β → α → Except Err β) : β → List α → End → List (Notif β)
  | _, [], e => e.toNotifs
  | acc, x :: xs, e =>
    match f acc x with
    | .error er => [.error er]
    | .ok a => .next a :: refScan f a xs e

/-- `xs[i]` if it exists, else the default / `ArgumentOutOfRangeException` at completion -/
def refElementAt (i : Nat) (dflt : Option α) (xs : List α) (e : End) : List (Notif α) :=
  match xs[i]? with
  | some x => [.next x, .completed]
  | none =>
    match e with
    | .completed => (match dflt with | some d => [.next d, .completed] | none => [.error aoor])
    | _ => e.toNotifs

/-- `materialize`: every notification, the terminal one included, as a value; then completion -/
def refMaterialize (xs : List α) (e : End) : List (Notif (Notif α)) :=
  xs.map (fun x => .next (.next x)) ++
    match e with
    | .open => []
    | .completed => [.next .completed, .completed]
    | .error er => [.next (.error er), .completed]

end Ops

import RxModel.TimedBase
/-!
# TimedShift — time-shifting operators (C15)

`_timestamp.py`, `_timeinterval.py`, `_delay.py` (`observable_delay_timespan`), `_delaysubscription.py`.
-/

namespace Timed

/-! ## timestamp / time_interval
`timestamp`: `map(lambda value: Timestamp(value, scheduler.now))`.
`time_interval`: `last = scheduler.now` at subscription; `mapper(value): now = scheduler.now; span = now - last; last = now`. -/
def tsRun {α} : TL α → TL (α × Nat)
  | [] => []
  | (t, .next v) :: r => (t, .next (v, t)) :: tsRun r
  | (t, .error e) :: _ => [(t, .error e)]
  | (t, .completed) :: _ => [(t, .completed)]

def tiRun {α} : Nat → TL α → TL (α × Nat)
  | _, [] => []
  | last, (t, .next v) :: r => (t, .next (v, t - last)) :: tiRun t r
  | _, (t, .error e) :: _ => [(t, .error e)]
  | _, (t, .completed) :: _ => [(t, .completed)]

/-! ## delay
`source.pipe(materialize(), timestamp()).subscribe(on_next)`: every source notification (elements, completion, error)
arrives at `on_next` as a value stamped with its arrival time; nothing arrives after the source's terminal.
```
on_next(n):  if n is OnError:  del queue[:]; queue.append(n); exception = e; should_run = not running
             else:             queue.append(Timestamp(n.value, n.timestamp + duetime)); should_run = not active; active = True
             if should_run:    if exception: observer.on_error(exception)
                               else: mad = MultipleAssignmentDisposable(); cancelable.disposable = mad
                                     mad.disposable = scheduler.schedule_relative(duetime, action)
action:      if exception: return
             running = True
             while queue and queue[0].timestamp <= now: queue.pop(0).value.accept(observer)
             if queue: should_continue; recurse_duetime = max(0, queue[0].timestamp - now)   else: active = False
             ex = exception; running = False
             if ex: observer.on_error(ex)  elif should_continue: mad.disposable = schedule_relative(recurse_duetime, action)
```
The queue holds `(due, notification)`.  At most one action is pending (`timer` = its due time). -/
structure DelaySt (α : Type) where
  queue : List (Nat × Notif α) := []
  active : Bool := false
  running : Bool := false
  exc : Option Err := none
  timer : Option Nat := none

/-- `on_next` for an element or the completion (`n` is not an error) -/
def delayEnqueue {α} (d now : Nat) (s : DelaySt α) (n : Notif α) : DelaySt α :=
  let s1 := { s with queue := s.queue ++ [(now + d, n)], active := true }
  if !s.active then (if s.exc.isNone then { s1 with timer := some (now + d) } else s1) else s1

/-- `on_next` for the error notification: returns the downstream calls -/
def delayOnError {α} (now : Nat) (s : DelaySt α) (e : Err) : DelaySt α × List (Notif α) :=
  ({ s with queue := [(now, .error e)], exc := some e }, if !s.running then [.error e] else [])

/-- the scheduled action run at clock `now`: new state and the downstream calls it makes -/
def delayAction {α} (now : Nat) (s : DelaySt α) : DelaySt α × List (Notif α) :=
  if s.exc.isSome then ({ s with timer := none }, [])
  else
    let popped := s.queue.takeWhile (fun q => decide (q.1 ≤ now))
    let rest := s.queue.dropWhile (fun q => decide (q.1 ≤ now))
    match rest with
    | [] => ({ s with queue := [], active := false, timer := none }, popped.map (·.2))
    | q :: _ => ({ s with queue := rest, timer := some (max q.1 now) }, popped.map (·.2))

/-- does the scheduler reach an item due at `due` before a source message at `limit`?  (`none`: no more source messages) -/
def beforeLimit (limit : Option Nat) (due : Nat) : Bool :=
  match limit with
  | none => true
  | some t => decide (due < t)

/-- run the pending action again and again while the scheduler reaches it before `limit` (a source message due at
`limit` runs first); `none` = run until nothing is pending.  `fuel` bounds the number of runs (two per queued entry
suffice: a run either pops an entry or re-arms exactly at the head's due time). -/
def delayLoop {α} : Nat → Option Nat → DelaySt α → DelaySt α × TL α
  | 0, _, s => (s, [])
  | fuel + 1, limit, s =>
    match s.timer with
    | none => (s, [])
    | some due =>
      if beforeLimit limit due then
        ((delayLoop fuel limit (delayAction due s).1).1,
         at_ due (delayAction due s).2 ++ (delayLoop fuel limit (delayAction due s).1).2)
      else (s, [])

def delayAdvance {α} (limit : Option Nat) (s : DelaySt α) : DelaySt α × TL α :=
  delayLoop (2 * s.queue.length + 1) limit s

/-- raw downstream calls (the subscriber's `AutoDetachObserver` = `conform` is applied by `delayRun`) -/
def delayRaw {α} (d : Nat) : DelaySt α → TL α → TL α
  | s, [] => (delayAdvance none s).2
  | s, (t, n) :: rest =>
    (delayAdvance (some t) s).2 ++
      match n with
      | .next v => delayRaw d (delayEnqueue d t (delayAdvance (some t) s).1 (.next v)) rest
      | .completed => (delayAdvance none (delayEnqueue d t (delayAdvance (some t) s).1 .completed)).2   -- the source is done
      | .error e => at_ t (delayOnError t (delayAdvance (some t) s).1 e).2      -- downstream terminal: all disposed

def delayRun {α} (d : Nat) (msgs : TL α) : TL α := conform (delayRaw d {} msgs)

/-! ## delay_subscription
`source.pipe(delay_with_mapper(timer(duetime), lambda _: empty()))`: the source is subscribed when the timer fires, at
`S = sub + duetime` (`max D sub` for an absolute time); every element then waits for its `empty()` to complete, which is
scheduled for the same instant (`scheduler.schedule`) but after the source messages already queued for that instant;
a source error disposes the waiting ones; the completion waits for them (`at_end` and `delays.length == 0`).
`pend` = elements whose `empty()` completion is queued (due = their arrival time). -/
def emitEl {α} (e : Nat × α) : Nat × Notif α := (e.1, .next e.2)

def dsRun {α} : List (Nat × α) → TL α → TL α
  | pend, [] => pend.map emitEl
  | pend, (t, n) :: rest =>
    (pend.takeWhile (fun e => decide (e.1 < t))).map emitEl ++
      match n with
      | .next x => dsRun (pend.dropWhile (fun e => decide (e.1 < t)) ++ [(t, x)]) rest
      | .error e => [(t, .error e)]
      | .completed => (pend.dropWhile (fun e => decide (e.1 < t))).map emitEl ++ [(t, .completed)]

/-! ## Declarative rules -/

def tsSpec {α} (msgs : TL α) : TL (α × Nat) :=
  (conform msgs).map (fun m => (m.1, m.2.map (fun v => (v, m.1))))

/-- intervals: arrival time minus the previous element's arrival time (the subscription time for the first) -/
def tiSpec {α} (sub : Nat) (msgs : TL α) : TL (α × Nat) :=
  List.zipWith (fun (e : Nat × α) (p : Nat) => (e.1, Notif.next (e.2, e.1 - p))) (nexts msgs) (sub :: (nexts msgs).map (·.1))
    ++ (firstTerminal msgs).toList.map (fun m => (m.1, m.2.map (fun v => (v, 0))))

def shiftEl {α} (d : Nat) (e : Nat × α) : Nat × Notif α := (e.1 + d, .next e.2)

/-- delay: elements and completion shifted by `d`, in order; an error at `te` is delivered at `te` and everything
not yet delivered (due `≥ te`) is dropped. -/
def delaySpec {α} (d : Nat) (msgs : TL α) : TL α :=
  match firstTerminal msgs with
  | none => (nexts msgs).map (shiftEl d)
  | some (tc, .completed) => (nexts msgs).map (shiftEl d) ++ [(tc + d, .completed)]
  | some (te, n) => ((nexts msgs).filter (fun e => decide (e.1 + d < te))).map (shiftEl d) ++ [(te, n)]

/-- delay_subscription (after the shift of the subscription): the source as seen from `S`, except that elements
arriving at the very instant of a source error are dropped with it. -/
def dsSpec {α} (msgs : TL α) : TL α :=
  match firstTerminal msgs with
  | some (te, .error e) => ((nexts msgs).filter (fun x => decide (x.1 < te))).map emitEl ++ [(te, .error e)]
  | _ => conform msgs

end Timed

import RxModel.Comb
/-!
# L2 sequential composition (C10): concat_with_iterable_, catch_with_iterable_, on_error_resume_next_,
catch_handler, and the derived forms (concat, start_with, repeat, retry, while_do, do_while, for_in)

The sources come from an iterator; `items j` is what the j-th `next(sources_)` does: yields a source
(whose subscription gets id `j`), raises `StopIteration`, or raises something else (a failing
factory / mapper / condition).  `repeat(n)`: `items j = src` for `j < n`; `while_do(c)`: `src` while the
condition holds (`fail` when it raises); `for_in`: `fail` where the mapper raises; `start_with`/`concat`: a finite list.

`tick` is the operator's scheduled `action` (the scheduler hop between two sources).
-/

namespace Comb

inductive Item where
  | src
  | stop
  | raise (e : Err)
  | fail (e : Err)    -- yields a source that fails at once with `e` (the code wraps a raising mapper / condition into `throw(ex)`)
deriving Repr, BEq, DecidableEq

def Item.isFail : Item → Bool
  | .fail _ => true
  | _ => false

inductive SeqKind where
  | concat   -- continues on completed
  | catch    -- continues on error, remembers last_exception
  | oern     -- on_error_resume_next: continues on both
deriving Repr, BEq, DecidableEq

structure SeqSt where
  idx : Nat := 0               -- how many times `next(sources_)` yielded a source
  pending : Bool := true       -- an `action` is scheduled (the first one at subscribe time)
  lastErr : Option Err := none
  arg : Option Err := none     -- on_error_resume_next: the `state` the next scheduled action will hand to a source FACTORY:
                               -- the predecessor's error, or None after a normal completion / at the start
  calls : List (Nat × Option Err) := []   -- (position, argument) of every consumed iterator position, in order (observation only)
deriving Repr, BEq, DecidableEq

/-- does the operator continue with the next source on this terminal? -/
def SeqKind.continues {ι} : SeqKind → Notif ι → Bool
  | .concat, .completed => true
  | .catch, .error _ => true
  | .oern, .completed => true
  | .oern, .error _ => true
  | _, _ => false

def seqHandler {α} (kind : SeqKind) (s : SeqSt) (_k : Nat) : Notif α → SeqSt × List (Act α)
  | .next v => (s, [Act.emit (.next v)])
  | .error e =>
    match kind with
    | .concat => (s, [Act.emit (.error e)])
    | .catch => ({ s with lastErr := some e, pending := true }, [])
    | .oern => ({ s with pending := true, arg := some e }, [])      -- `scheduler.schedule(action, state = error)`
  | .completed =>
    match kind with
    | .concat => ({ s with pending := true }, [])
    | .catch => (s, [Act.emit .completed])
    | .oern => ({ s with pending := true, arg := none }, [])        -- `on_resume()` : state = None

/-- the scheduled `action`.  Every scheduled action is held by the `cancelable` SerialDisposable, a member of
the returned composite: once that is disposed (`done`) a pending action is cancelled (concat/catch
additionally re-check `is_disposed`). -/
def seqTick {α} (kind : SeqKind) (items : Nat → Item) (s : SeqSt) (done : Bool) : SeqSt × List (Act α) :=
  if !s.pending then (s, [])
  else if done then ({ s with pending := false }, [])
  else
    match items s.idx with
    | .src =>
      -- `subscription.disposable = d` (SerialDisposable): the previous source's holder is disposed - a no-op when the
      -- previous source already closed itself (queued hand-over), the thing that closes it when the action runs
      -- re-entrantly inside its terminal handler (inline hand-over) - then the next source is subscribed
      ({ s with pending := false, idx := s.idx + 1, calls := s.calls ++ [(s.idx, s.arg)] }, [Act.unsub (s.idx - 1), Act.sub s.idx])
    | .stop =>
      ({ s with pending := false },
        match kind, s.lastErr with
        | .catch, some e => [Act.emit (.error e)]
        | _, _ => [Act.emit .completed])
    | .raise e =>
      -- concat/catch: `next(sources_)` raising (a failing generator / mapper / condition) is caught:
      -- `except Exception as ex: observer.on_error(ex)`; on_error_resume_next: a raising source factory is
      -- caught the same way (`try: source = source(state) … except Exception as ex: observer.on_error(ex)`)
      ({ s with pending := false, calls := s.calls ++ [(s.idx, s.arg)] }, [Act.emit (.error e)])
    | .fail e =>
      -- the iterator yields a source that fails at once with `e` and is NOT one of the logged sources: for_in's mapper /
      -- while_do's condition raising (the code wraps them into `defer(…)` / `throw(ex)`), or a `throw(ex)` passed in the
      -- source list. It is subscribed like any other (`subscription.disposable = d` closes the previous holder first) and
      -- occupies position `idx`. concat: its error is the result's error. catch / on_error_resume_next: its error is
      -- continued over — remembered as last_exception (catch) and the next action is scheduled.
      match kind with
      | .concat => ({ s with pending := false }, [Act.unsub (s.idx - 1), Act.emit (.error e)])
      | .catch => ({ s with idx := s.idx + 1, lastErr := some e, pending := true }, [Act.unsub (s.idx - 1)])
      | .oern => ({ s with idx := s.idx + 1, pending := true, arg := some e, calls := s.calls ++ [(s.idx, s.arg)] }, [Act.unsub (s.idx - 1)])

def seqM {α} (kind : SeqKind) (items : Nat → Item) : Machine SeqSt α α :=
  { handler := seqHandler kind, tick := seqTick kind items }
def seqInit : St SeqSt := ⟨{}, {}⟩

/-- **Inline hand-over.** When the subscription is made with a scheduler that runs zero-delay work inline
(ImmediateScheduler), `scheduler.schedule(action)` inside a source's terminal handler runs the action re-entrantly:
before that handler returns, hence before the source's own AutoDetachObserver disposes its subscription.  The handler
of the inline machine is the handler followed by the action it armed (the downstream observer cannot be stopped at
that point: an arming handler emits nothing).  The first action (armed by `subscribe`) is still the explicit `tick`. -/
def seqInlineHandler {α} (kind : SeqKind) (items : Nat → Item) (s : SeqSt) (k : Nat) (n : Notif α) :
    SeqSt × List (Act α) :=
  let h := seqHandler kind s k n
  let t := seqTick (α := α) kind items h.1 false
  (t.1, h.2 ++ t.2)

def seqInlineM {α} (kind : SeqKind) (items : Nat → Item) : Machine SeqSt α α :=
  { handler := seqInlineHandler kind items, tick := seqTick kind items }

/-- `items` of the derived forms -/
def itemsCount (n : Option Nat) : Nat → Item := fun j =>
  match n with
  | none => .src
  | some n => if j < n then .src else .stop

/-! ## catch_handler (`ops.catch(callable)`): source 0, then at most one handler result (id 1), no
scheduler hop; the result is subscribed with the downstream observer itself. -/
structure ChSt where
  switched : Bool := false
deriving Repr, BEq, DecidableEq

def chHandler {α} (res : Except Err Unit) (s : ChSt) (k : Nat) (n : Notif α) : ChSt × List (Act α) :=
  if k = 0 then
    match n with
    | .error _ =>
      match res with
      | .error ex => (s, [Act.emit (.error ex)])
      | .ok _ => ({ switched := true }, [Act.unsub 0, Act.sub 1])   -- `subscription.disposable = d` disposes d1
    | n => (s, [Act.emit n])
  else (s, [Act.emit n])

def chM {α} (res : Except Err Unit) : Machine ChSt α α := { handler := chHandler res }
def chInit : St ChSt := ⟨{}, { done := false, live := [0] }⟩

end Comb

import RxModel.Ops
/-!
# L1 handler catalogue — element-wise operators (C05)

Each operator mirrors the handlers of its source file in `/repo/reactivex/operators/` line by line
(state cells are the `nonlocal` variables of the closure).  The *theorems* (RxProofs/C05.lean) relate
them to list functions.  User callbacks: `α → Except Err β` (may raise).  Python `int` parameters
that the code never validates are `Int`; validated ones have a `…?` constructor returning the
constructor-time exception.
-/

namespace Ops

/-- What Python asks of a value where the code tests truthiness / `is None` on an *element*.
Only the as-is `skip_last` needs it (DESIGN.md §5 C08). -/
class PyVal (α : Type) where
  truthy : α → Bool
  isNone : α → Bool

variable {α β γ κ : Type}

/-- `observer.on_error` passed straight through as the source's `on_error`. -/
def passErr {σ β} (s : σ) (e : Err) : HOut σ β := ⟨s, [.error e], none, false⟩
/-- `observer.on_completed` passed straight through. -/
def passDone {σ β} (s : σ) : HOut σ β := ⟨s, [.completed], none, false⟩
def emit {σ β} (s : σ) (out : List (Notif β)) : HOut σ β := ⟨s, out, none, false⟩

/-- `reactivex.empty()`: completes while subscribing, never subscribes a source. -/
def emptyOp : Op α β where
  σ := Unit
  init := ()
  pre := [.completed]
  sub := false
  onNext := fun s _ => emit s []
  onError := fun s _ => emit s []
  onCompleted := fun s => emit s []

/-- `_map.py: map_` -/
def mapOp (f : α → Except Err β) : Op α β where
  σ := Unit
  init := ()
  onNext := fun s v =>
    match f v with
    | .error e => emit s [.error e]       -- except: obv.on_error(err)
    | .ok y => emit s [.next y]           -- else: obv.on_next(result)
  onError := passErr
  onCompleted := passDone

/-- `_filter.py: filter_` -/
def filterOp (p : α → Except Err Bool) : Op α α where
  σ := Unit
  init := ()
  onNext := fun s v =>
    match p v with
    | .error e => emit s [.error e]
    | .ok b => if b then emit s [.next v] else emit s []
  onError := passErr
  onCompleted := passDone

/-- `_filter.py: filter_indexed_`; state `count`, only incremented when the predicate returned. -/
def filterIndexedOp (p : Option (α → Nat → Except Err Bool)) : Op α α where
  σ := Nat
  init := 0
  onNext := fun count v =>
    match p with
    | none => emit count [.next v]               -- should_run = True
    | some p =>
      match p v count with
      | .error e => emit count [.error e]
      | .ok b => if b then emit (count + 1) [.next v] else emit (count + 1) []
  onError := passErr
  onCompleted := passDone

/-- `_take.py: take_` for `count > 0`; state `remaining`. -/
def takePosOp (count : Nat) : Op α α where
  σ := Nat
  init := count
  onNext := fun remaining v =>
    if remaining > 0 then
      if remaining - 1 = 0 then emit (remaining - 1) [.next v, .completed]
      else emit (remaining - 1) [.next v]
    else emit remaining []
  onError := passErr
  onCompleted := passDone

/-- `take_`: `if not count: return empty()` -/
def takeOp (count : Nat) : Op α α := if count = 0 then emptyOp else takePosOp count

def take? (count : Int) : Except Err (Op α α) :=
  if count < 0 then .error aoor else .ok (takeOp count.toNat)

/-- `_skip.py: skip_`; state `remaining`. -/
def skipOp (count : Nat) : Op α α where
  σ := Nat
  init := count
  onNext := fun remaining v =>
    if remaining ≤ 0 then emit remaining [.next v] else emit (remaining - 1) []
  onError := passErr
  onCompleted := passDone

def skip? (count : Int) : Except Err (Op α α) :=
  if count < 0 then .error aoor else .ok (skipOp count.toNat)

/-- `_takewhile.py: take_while_`; state `running`. -/
def takeWhileOp (p : α → Except Err Bool) (inclusive : Bool) : Op α α where
  σ := Bool
  init := true
  onNext := fun running v =>
    if !running then emit running []
    else
      match p v with
      | .error e => emit running [.error e]
      | .ok r =>
        if r then emit r [.next v]
        else emit r ((if inclusive then [.next v] else []) ++ [.completed])
  onError := passErr
  onCompleted := passDone

/-- `_takewhile.py: take_while_indexed_`; state `(running, i)`. -/
def takeWhileIndexedOp (p : α → Nat → Except Err Bool) (inclusive : Bool) : Op α α where
  σ := Bool × Nat
  init := (true, 0)
  onNext := fun s v =>
    if !s.1 then emit s []
    else
      match p v s.2 with
      | .error e => emit s [.error e]
      | .ok r =>
        if r then emit (r, s.2 + 1) [.next v]
        else emit (r, s.2 + 1) ((if inclusive then [.next v] else []) ++ [.completed])
  onError := passErr
  onCompleted := passDone

/-- `_skipwhile.py: skip_while_`; state `running`. -/
def skipWhileOp (p : α → Except Err Bool) : Op α α where
  σ := Bool
  init := false
  onNext := fun running v =>
    if !running then
      match p v with
      | .error e => emit running [.error e]
      | .ok r => if !r then emit true [.next v] else emit false []
    else emit running [.next v]
  onError := passErr
  onCompleted := passDone

/-- `_zip.py: zip_with_iterable_`; the iterator is a position in `seq` (`none` = StopIteration). -/
def zipWithIterableOp (seq : Nat → Option γ) : Op α (α × γ) where
  σ := Nat
  init := 0
  onNext := fun pos left =>
    match seq pos with
    | none => emit pos [.completed]
    | some right => emit (pos + 1) [.next (left, right)]
  onError := passErr
  onCompleted := passDone

/-- `_map.py: map_indexed_`: per subscription,
`source.pipe(zip_with_iterable(infinite()), starmap_indexed(mapper)).subscribe(obv)`, where
`starmap_indexed(mapper) = map(lambda t: mapper(*t))`; the final `.subscribe(obv)` puts one more
`AutoDetachObserver` in front of `obv` (`idOp` behind an observer). -/
def mapIndexedOp (f : α → Nat → Except Err β) : Op α β :=
  ((zipWithIterableOp (fun i => some i)).comp (mapOp (fun t => f t.1 t.2))).comp idOp

/-- `_skipwhile.py: skip_while_indexed_` = `map_indexed(indexer) | skip_while(skipper) | map(mapper)`. -/
def skipWhileIndexedOp (p : α → Nat → Except Err Bool) : Op α α :=
  ((mapIndexedOp (fun x i => .ok (x, i))).comp (skipWhileOp (fun t => p t.1 t.2))).comp
    (mapOp (fun t => .ok t.1))

/-- `_distinct.py: array_index_of_comparer(...) != -1`: the stored keys are compared in order; an
exception raised by the comparer stops the search. -/
def findMatch (cmp : κ → κ → Except Err Bool) (k : κ) : List κ → Except Err Bool
  | [] => .ok false
  | a :: rest =>
    match cmp a k with
    | .error e => .error e
    | .ok true => .ok true
    | .ok false => findMatch cmp k rest

/-- `_distinct.py: distinct_`; state `hashset.set` (a list searched with the comparer).
`key = pure` is `key_mapper=None`.  Key mapper and comparer may raise (→ `on_error`). -/
def distinctOp (key : α → Except Err κ) (cmp : κ → κ → Except Err Bool) : Op α α where
  σ := List κ
  init := []
  onNext := fun set x =>
    match key x with
    | .error e => emit set [.error e]
    | .ok k =>
      match findMatch cmp k set with              -- try: is_new = hashset.push(key)
      | .error e => emit set [.error e]
      | .ok true => emit set []
      | .ok false => emit (set ++ [k]) [.next x]
  onError := passErr
  onCompleted := passDone

/-- `_distinctuntilchanged.py`; state `(has_current_key, current_key)` as an `Option`. -/
def distinctUntilChangedOp (key : α → Except Err κ) (cmp : κ → κ → Except Err Bool) : Op α α where
  σ := Option κ
  init := none
  onNext := fun cur v =>
    match key v with
    | .error e => emit cur [.error e]
    | .ok k =>
      match cur with
      | none => emit (some k) [.next v]
      | some c =>
        match cmp c k with
        | .error e => emit cur [.error e]
        | .ok eq => if !eq then emit (some k) [.next v] else emit cur []
  onError := passErr
  onCompleted := passDone

/-- `_pairwise.py`; state `(has_previous, previous)`.  `if pair:` is always true for a 2-tuple. -/
def pairwiseOp : Op α (α × α) where
  σ := Option α
  init := none
  onNext := fun prev x =>
    match prev with
    | none => emit (some x) []
    | some p => emit (some x) [.next (p, x)]
  onError := passErr
  onCompleted := passDone

/-- `_startswith.py`: `concat(from_iterable(args), source)` — the values while subscribing, then the
source's notifications unchanged. -/
def startWithOp (args : List α) : Op α α where
  σ := Unit
  init := ()
  pre := args.map .next
  onNext := fun s v => emit s [.next v]
  onError := passErr
  onCompleted := passDone

/-- `_defaultifempty.py`; state `found`. -/
def defaultIfEmptyOp (dflt : α) : Op α α where
  σ := Bool
  init := false
  onNext := fun _ x => emit true [.next x]
  onError := passErr
  onCompleted := fun found => if !found then emit found [.next dflt, .completed] else emit found [.completed]

/-- `_ignoreelements.py` -/
def ignoreElementsOp : Op α α where
  σ := Unit
  init := ()
  onNext := fun s _ => emit s []
  onError := passErr
  onCompleted := passDone

/-- `q.append(x); if len(q) > count: q.pop(0)` -/
def pushBounded (q : List α) (x : α) (count : Int) : List α :=
  if ((q ++ [x]).length : Int) > count then (q ++ [x]).tail else q ++ [x]

/-- `_takelast.py`; state `q`. -/
def takeLastOp (count : Int) : Op α α where
  σ := List α
  init := []
  onNext := fun q x => emit (pushBounded q x count) []
  onError := passErr
  onCompleted := fun q => emit [] (q.map .next ++ [.completed])     -- while q: on_next(q.pop(0))

/-- `_skiplast.py` **with the proposed fix** (`has_front` flag instead of `front is not None`). -/
def skipLastOp (count : Int) : Op α α where
  σ := List α
  init := []
  onNext := fun q value =>
    if ((q ++ [value]).length : Int) > count then
      match q ++ [value] with
      | front :: rest => emit rest [.next front]
      | [] => emit [] []
    else emit (q ++ [value]) []
  onError := passErr
  onCompleted := passDone

/-- `_skiplast.py` **as it is on the pinned tree**: `front = None … if front is not None:`. -/
def skipLastAsIsOp [PyVal α] (count : Int) : Op α α where
  σ := List α
  init := []
  onNext := fun q value =>
    if ((q ++ [value]).length : Int) > count then
      match q ++ [value] with
      | front :: rest => if !PyVal.isNone front then emit rest [.next front] else emit rest []
      | [] => emit [] []
    else emit (q ++ [value]) []
  onError := passErr
  onCompleted := passDone

/-- `_takelastbuffer.py`; state `q`. -/
def takeLastBufferOp (count : Int) : Op α (List α) where
  σ := List α
  init := []
  onNext := fun q x => emit (pushBounded q x count) []
  onError := passErr
  onCompleted := fun q => emit q [.next q, .completed]

/-- `_elementatordefault.py`; state `index_` (set to `-1` once the element was found, *before* it is
emitted, so that a re-entered or late `on_next` does nothing); `dflt = none` is `has_default=False`. -/
def elementAtOrDefaultOp (index : Nat) (dflt : Option α) : Op α α where
  σ := Int
  init := (index : Int)
  onNext := fun index_ x =>
    if index_ > 0 then emit (index_ - 1) []
    else if index_ = 0 then emit (-1) [.next x, .completed]
    else emit index_ []
  onError := passErr
  onCompleted := fun index_ =>
    match dflt with
    | none => emit index_ [.error aoor]
    | some d => emit index_ [.next d, .completed]

def elementAt? (index : Int) (dflt : Option α) : Except Err (Op α α) :=
  if index < 0 then .error aoor else .ok (elementAtOrDefaultOp index.toNat dflt)

/-- `_find.py: find_value_`; state `(index, found)` (`found` is set *before* the result is emitted, so that
a re-entered or late `on_next` returns at once).  `yes x i` is `index if yield_index else x`,
`no` is `-1 if yield_index else None`. -/
def findValueOp (p : α → Nat → Except Err Bool) (yes : α → Nat → β) (no : β) : Op α β where
  σ := Nat × Bool
  init := (0, false)
  onNext := fun s x =>
    if s.2 then emit s []
    else
      match p x s.1 with
      | .error e => emit s [.error e]
      | .ok r => if r then emit (s.1, true) [.next (yes x s.1), .completed] else emit (s.1 + 1, false) []
  onError := passErr
  onCompleted := fun s => emit s [.next no, .completed]

def findOp (p : α → Nat → Except Err Bool) : Op α (Option α) := findValueOp p (fun x _ => some x) none
def findIndexOp (p : α → Nat → Except Err Bool) : Op α Int := findValueOp p (fun _ i => (i : Int)) (-1)

/-- `_materialize.py` -/
def materializeOp : Op α (Notif α) where
  σ := Unit
  init := ()
  onNext := fun s v => emit s [.next (.next v)]
  onError := fun s e => emit s [.next (.error e), .completed]
  onCompleted := fun s => emit s [.next .completed, .completed]

/-- `_dematerialize.py`: `value.accept(observer)` (`notification.py`: `_accept_observer`). -/
def dematerializeOp : Op (Notif α) α where
  σ := Unit
  init := ()
  onNext := fun s n => emit s [n]
  onError := passErr
  onCompleted := passDone

/-- `_scan.py: scan_` with a seed (`defer` + `map(projection)`); state `(has_accumulation, accumulation)`.
Used by the proposed `slice` fix to tag elements with their index. -/
def scanSeedOp (f : β → α → Except Err β) (seed : β) : Op α β where
  σ := Option β
  init := none
  onNext := fun acc x =>
    match f (acc.getD seed) x with
    | .error e => emit acc [.error e]
    | .ok a => emit (some a) [.next a]
  onError := passErr
  onCompleted := passDone

end Ops

import RxModel.AggBase
/-!
# Agg.SeqEq — `sequence_equal` (`reactivex/operators/_sequenceequal.py`) as a machine over tagged events

One run of `first.pipe(sequence_equal(second))` — whatever the scheduler and whether the sources are hot
or cold — is one finite list of events `(side, notification)`.  With an *iterable* second argument the
library wraps it in `from_iterable`, which is just one particular interleaving (all right-hand events
in one go).  Each side is subscribed through its own `AutoDetachObserver` (`upL`/`upR`), the result goes
to the downstream one (`down`).  The theorems quantify over all event lists.
-/

namespace Agg

inductive Side where
  | L | R
deriving Repr, DecidableEq

structure SeqSt (α : Type) where
  donel : Bool := false
  doner : Bool := false
  ql : List α := []
  qr : List α := []
  decided : Bool := false      -- as repaired by 818e2bd: set by `decide(result)` before `observer.on_next(result)`
deriving Repr

def decided (b : Bool) : List (Notif Bool) := [.next b, .completed]

/-- `decide(result)`: `decided[0] = True; observer.on_next(result); observer.on_completed()` -/
def emitD {α} (s : SeqSt α) (b : Bool) : HOut (SeqSt α) Bool := emit { s with decided := true } (decided b)

/-- `on_next1` / `on_next2`, `on_completed1` / `on_completed2`, `on_error` — as written, after the `decided` test.
Note the argument order of the comparer: the *queued* value comes first on both sides. -/
def seqHandleU {α} (cmp : α → α → Except Err Bool) (s : SeqSt α) : Side → Notif α → HOut (SeqSt α) Bool
  | .L, .next x =>
    match s.qr with
    | v :: qr' =>                                  -- if len(qr) > 0: v = qr.pop(0)
      let s' := { s with qr := qr' }
      match cmp v x with                           -- try: equal = comparer_(v, x)
      | .error e => emit s' [.error e]
      | .ok eq => if !eq then emitD s' false else emit s' []
    | [] =>
      if s.doner then emitD s false       -- elif doner[0]
      else emit { s with ql := s.ql ++ [x] } []    -- else: ql.append(x)
  | .L, .completed =>
    let s' := { s with donel := true }
    if s.ql.isEmpty then
      if !s.qr.isEmpty then emitD s' false
      else if s.doner then emitD s' true
      else emit s' []
    else emit s' []
  | .R, .next x =>
    match s.ql with
    | v :: ql' =>
      let s' := { s with ql := ql' }
      match cmp v x with
      | .error e => emit s' [.error e]
      | .ok eq => if !eq then emitD s' false else emit s' []
    | [] =>
      if s.donel then emitD s false
      else emit { s with qr := s.qr ++ [x] } []
  | .R, .completed =>
    let s' := { s with doner := true }
    if s.qr.isEmpty then
      if !s.ql.isEmpty then emitD s' false
      else if s.donel then emitD s' true
      else emit s' []
    else emit s' []
  | _, .error e => emit s [.error e]

/-- every handler starts with `if decided[0]: return` (the shared `on_error` included) -/
def seqHandle {α} (cmp : α → α → Except Err Bool) (s : SeqSt α) (sd : Side) (n : Notif α) : HOut (SeqSt α) Bool :=
  if s.decided then emit s [] else seqHandleU cmp s sd n

structure SeqRun (α : Type) where
  upL : Bool := false
  upR : Bool := false
  s : SeqSt α := {}
  down : Bool := false

structure SeqStepOut (α : Type) where
  st : SeqRun α
  out : List (Notif Bool)
  esc : Option Err

def SeqRun.up {α} (st : SeqRun α) : Side → Bool
  | .L => st.upL
  | .R => st.upR

/-- One tagged event.  The side's own observer stops on its terminal; in the prompt case the downstream
terminal disposes the `CompositeDisposable(subscription1, subscription2)`, stopping both sides. -/
def seqStep {α} (cmp : α → α → Except Err Bool) (lag : Bool) (st : SeqRun α) (ev : Side × Notif α) : SeqStepOut α :=
  if st.up ev.1 then ⟨st, [], none⟩
  else
    let h := seqHandle cmp st.s ev.1 ev.2
    let d := deliver st.down h.calls
    let stopAll := !lag && d.1
    ⟨{ upL := st.upL || (ev.1 == .L && ev.2.isTerminal) || stopAll,
       upR := st.upR || (ev.1 == .R && ev.2.isTerminal) || stopAll,
       s := h.st, down := d.1 }, d.2, h.esc⟩

def seqSteps {α} (cmp : α → α → Except Err Bool) (lag : Bool) : SeqRun α → List (Side × Notif α) → List (SeqStepOut α)
  | _, [] => []
  | st, ev :: evs => seqStep cmp lag st ev :: seqSteps cmp lag (seqStep cmp lag st ev).st evs

def seqOutFrom {α} (cmp : α → α → Except Err Bool) (lag : Bool) (st : SeqRun α) (tr : List (Side × Notif α)) : List (Notif Bool) :=
  (seqSteps cmp lag st tr).flatMap (·.out)

/-- what the subscriber of `sequence_equal` sees over the event trace `tr` -/
def seqOut {α} (cmp : α → α → Except Err Bool) (lag : Bool) (tr : List (Side × Notif α)) : List (Notif Bool) :=
  seqOutFrom cmp lag {} tr

def seqEscapes {α} (cmp : α → α → Except Err Bool) (lag : Bool) (tr : List (Side × Notif α)) : List Err :=
  (seqSteps cmp lag {} tr).filterMap (·.esc)

def seqFinal {α} (cmp : α → α → Except Err Bool) (lag : Bool) : SeqRun α → List (Side × Notif α) → SeqRun α
  | st, [] => st
  | st, ev :: evs => seqFinal cmp lag (seqStep cmp lag st ev).st evs

def seqOutT {α τ} (cmp : α → α → Except Err Bool) (lag : Bool) (tr : List (τ × Side × Notif α)) : List (τ × Notif Bool) :=
  ((tr.map (·.1)).zip (seqSteps cmp lag {} (tr.map (·.2)))).flatMap (fun p => p.2.out.map (fun n => (p.1, n)))

/-- the events of one side -/
def sideOf {α} (sd : Side) (tr : List (Side × Notif α)) : List (Notif α) :=
  (tr.filter (fun ev => ev.1 == sd)).map (·.2)

/-- The reference decision as a function of what each side has delivered so far (`ls`, `rs`) and whether it
has completed (`dl`, `dr`): compare position by position; a mismatch decides `false`; a side that is
complete and shorter than what the other has delivered decides `false`; both complete and equal ⇒ `true`;
otherwise undecided. -/
def seqSpec {α} (eq : α → α → Bool) : List α → List α → Bool → Bool → Option Bool
  | x :: ls, y :: rs, dl, dr => if eq x y then seqSpec eq ls rs dl dr else some false
  | [], [], dl, dr => if dl && dr then some true else none
  | [], _ :: _, dl, _ => if dl then some false else none
  | _ :: _, [], _, dr => if dr then some false else none

/-- Python's `len(a) == len(b) and all(eq(x, y) for x, y in zip(a, b))` -/
def listEq {α} (eq : α → α → Bool) : List α → List α → Bool
  | [], [] => true
  | x :: ls, y :: rs => eq x y && listEq eq ls rs
  | _, _ => false

end Agg

import RxModel.Core
/-!
# L6 Connectable — multicasting over a (minimal) subject model (C24)

Mirrors, handler by handler and as written:
* `reactivex/subject/subject.py`, `behaviorsubject.py`, `replaysubject.py` (count-bounded buffer only) —
  just enough of the subjects for multicasting (`Subj`);
* `reactivex/observable/connectableobservable.py` — `connect` (`has_subscription`, the
  `CompositeDisposable(subscription, Disposable(dispose))` handle), `auto_connect` (`count`,
  `is_connected` reset on every unsubscribe, the connection never disposed);
* `reactivex/operators/connectable/_refcount.py` (after the C44 fix: state per application);
* `_publish.py`, `_replay.py`, `_publishvalue.py`, `_multicast.py` — which subject is used.

A `World` is one multicast observable over one source (cold: the source's messages are replayed
relative to every source subscription; hot: one global timeline), its subscribers and the
subscription log of the source.  `run` executes a history of `subscribe / unsubscribe / connect /
disconnect` calls at virtual times, with the tie rules of the `TestScheduler` (at one instant: hot
messages, then the history's calls in order, then cold messages).
-/

namespace Conn

/-! ## Subject -/

structure Subj (α : Type) where
  isBehavior : Bool := false
  isReplay : Bool := false
  bufSize : Option Nat := none       -- replay: `buffer_size` (none = unbounded)
  value : Option α := none           -- behavior: current value
  queue : List α := []               -- replay: buffered values
  term : Option (Notif α) := none    -- `is_stopped` (+ the exception)
  obs : List Nat := []               -- `observers`, in subscription order
deriving Repr

namespace Subj
variable {α : Type}

/-- `_trim`: `while len(queue) > buffer_size: popleft()` -/
def trim (buf : Option Nat) (q : List α) : List α :=
  match buf with
  | none => q
  | some n => q.drop (q.length - n)

/-- `_subscribe_core`: what the new observer `i` is sent immediately -/
def subscribe (s : Subj α) (i : Nat) : Subj α × List (Nat × Notif α) :=
  if s.isReplay then
    let q := trim s.bufSize s.queue
    ({ s with queue := q, obs := s.obs ++ [i] },
     q.map (fun v => (i, Notif.next v)) ++ (match s.term with | some t => [(i, t)] | none => []))
  else
    match s.term with
    | some t => (s, [(i, t)])
    | none =>
      if s.isBehavior then
        ({ s with obs := s.obs ++ [i] }, match s.value with | some v => [(i, Notif.next v)] | none => [])
      else ({ s with obs := s.obs ++ [i] }, [])

/-- `InnerSubscription.dispose` / `RemovableDisposable.dispose` -/
def unsubscribe (s : Subj α) (i : Nat) : Subj α := { s with obs := s.obs.erase i }

/-- `on_next / on_error / on_completed` (through `Observer`: ignored once stopped) -/
def onNotif (s : Subj α) (n : Notif α) : Subj α × List (Nat × Notif α) :=
  if s.term.isSome then (s, [])
  else
    match n with
    | .next v =>
      ({ s with value := if s.isBehavior then some v else s.value,
                queue := if s.isReplay then trim s.bufSize (s.queue ++ [v]) else s.queue },
       s.obs.map (fun i => (i, Notif.next v)))
    | t => ({ s with term := some t, obs := [] }, s.obs.map (fun i => (i, t)))

/-! ### The subject alone: an event history and what one subscriber sees of it -/

/-- what can happen to a subject: a subscription, an unsubscription, an input notification -/
inductive SEv (α : Type) where
  | sub (i : Nat)
  | unsub (i : Nat)
  | inp (n : Notif α)
deriving Repr

/-- after `subscribe`: a subscriber that was handed a terminal at once (stopped subject) detaches -/
def afterSub (s : Subj α) (i : Nat) : Subj α :=
  if (s.subscribe i).2.any (fun d => d.2.isTerminal) then (s.subscribe i).1.unsubscribe i else (s.subscribe i).1

/-- all deliveries `(subscriber, notification)` of a history, in order -/
def runEv (s : Subj α) : List (SEv α) → List (Nat × Notif α)
  | [] => []
  | .sub i :: rest => (s.subscribe i).2 ++ runEv (s.afterSub i) rest
  | .unsub i :: rest => runEv (s.unsubscribe i) rest
  | .inp n :: rest => (s.onNotif n).2 ++ runEv (s.onNotif n).1 rest

def seenBy (i : Nat) (r : List (Nat × Notif α)) : List (Notif α) :=
  r.filterMap (fun d => if d.1 = i then some d.2 else none)

/-- the subject's input from now on, as far as subscriber `i` is concerned: up to and including the
first terminal, or until `i` unsubscribes -/
def suffixFor (i : Nat) : List (SEv α) → List (Notif α)
  | [] => []
  | .unsub j :: rest => if j = i then [] else suffixFor i rest
  | .sub _ :: rest => suffixFor i rest
  | .inp n :: rest => if n.isTerminal then [n] else n :: suffixFor i rest

/-- no (further) `subscribe` call by subscriber `i` -/
def noSub (i : Nat) : List (SEv α) → Bool
  | [] => true
  | .sub j :: rest => j != i && noSub i rest
  | _ :: rest => noSub i rest

end Subj

/-! ## The multicast world -/

inductive Wrap where
  | raw                      -- the ConnectableObservable itself
  | refCount                 -- `.pipe(ops.ref_count())` / `share()`
  | autoConnect (n : Nat)    -- `.auto_connect(n)`
deriving Repr, DecidableEq

/-- an open subscription to the source, with its remaining (absolute-time) messages if cold -/
structure SrcSub (α : Type) where
  id : Nat
  pending : List (Nat × Notif α)
deriving Repr

structure World (α : Type) where
  subj : Subj α
  wrap : Wrap := .raw
  /-- the cold source's messages (relative times); unused when hot -/
  coldMsgs : List (Nat × Notif α) := []
  /-- hot source: the global remaining messages (absolute times) -/
  hot : Option (List (Nat × Notif α)) := none
  -- ConnectableObservable
  hasSub : Bool := false
  /-- index of `self.subscription` while that composite has not been disposed -/
  curHandle : Option Nat := none
  /-- source subscription owned by that composite -/
  curSrc : Option Nat := none
  nHandles : Nat := 0
  srcOpen : List (SrcSub α) := []
  nextSrc : Nat := 0
  /-- (source subscription id, subscribed at, unsubscribed at) -/
  srcLog : List (Nat × Nat × Option Nat) := []
  -- ref_count / auto_connect
  count : Int := 0
  connSub : Option Nat := none
  isConnected : Bool := false
  -- subscribers whose subscription disposable has not run yet
  live : List Nat := []
  /-- everything delivered: (subscriber, time, notification) -/
  out : List (Nat × Nat × Notif α) := []
deriving Repr

namespace World
variable {α : Type}

def closeLog (log : List (Nat × Nat × Option Nat)) (sid t : Nat) : List (Nat × Nat × Option Nat) :=
  log.map (fun e => if e.1 = sid && e.2.2.isNone then (e.1, e.2.1, some t) else e)

/-- dispose one source subscription (idempotent) -/
def closeSrc (w : World α) (t sid : Nat) : World α :=
  if w.srcOpen.any (fun s => s.id = sid) then
    { w with srcOpen := w.srcOpen.filter (fun s => s.id ≠ sid), srcLog := closeLog w.srcLog sid t }
  else w

/-- `ConnectableObservable.connect` -/
def connect (w : World α) (t : Nat) : World α :=
  if w.hasSub then w
  else
    { w with
      hasSub := true
      srcOpen := w.srcOpen ++ [⟨w.nextSrc, match w.hot with
                                            | some _ => []
                                            | none => w.coldMsgs.map (fun m => (t + m.1, m.2))⟩]
      srcLog := w.srcLog ++ [(w.nextSrc, t, none)]
      curSrc := some w.nextSrc
      nextSrc := w.nextSrc + 1
      curHandle := some w.nHandles
      nHandles := w.nHandles + 1 }

/-- dispose the composite handle number `h` (older handles are already disposed: no-op) -/
def disposeHandle (w : World α) (t h : Nat) : World α :=
  if w.curHandle = some h then
    let w1 := match w.curSrc with
      | some sid => w.closeSrc t sid
      | none => w
    { w1 with hasSub := false, curHandle := none, curSrc := none }
  else w

/-- the subscription disposable of subscriber `i` runs (at most once) -/
def disposeSub (w : World α) (t i : Nat) : World α :=
  if w.live.contains i then
    let w1 := { w with live := w.live.erase i, subj := w.subj.unsubscribe i }
    match w.wrap with
    | .raw => w1
    | .refCount =>
      -- count -= 1; if not count and connectable_subscription: connectable_subscription.dispose()
      let w2 := { w1 with count := w1.count - 1 }
      if w2.count == 0 then
        match w2.connSub with
        | some h => if w2.curHandle = some h then w2.disposeHandle t h else w2
        | none => w2
      else w2
    | .autoConnect _ =>
      -- count -= 1; is_connected = False   (the connection itself is never disposed)
      { w1 with count := w1.count - 1, isConnected := false }
  else w

/-- hand deliveries to the subscribers; a terminal makes the subscriber's AutoDetachObserver
dispose its subscription -/
def deliver (w : World α) (t : Nat) : List (Nat × Notif α) → World α
  | [] => w
  | (i, n) :: rest =>
    let w1 := { w with out := w.out ++ [(i, t, n)] }
    let w2 := if n.isTerminal then w1.disposeSub t i else w1
    deliver w2 t rest

/-- deliveries made *inside* `subscribe` (replay / current value / terminal of a stopped subject):
recorded now; the auto-dispose of a terminal takes effect when `subscribe` returns -/
def record (w : World α) (t : Nat) (dl : List (Nat × Notif α)) : World α :=
  { w with out := w.out ++ dl.map (fun d => (d.1, t, d.2)) }

/-- subscriber `i` subscribes -/
def opSub (w : World α) (t i : Nat) : World α :=
  let stopped := fun (dl : List (Nat × Notif α)) => dl.any (fun d => d.2.isTerminal)
  match w.wrap with
  | .raw =>
    let r := w.subj.subscribe i
    let w1 := ({ w with subj := r.1, live := w.live ++ [i] }).record t r.2
    if stopped r.2 then w1.disposeSub t i else w1
  | .refCount =>
    -- count += 1; should_connect = count == 1; source.subscribe(observer); if should_connect: connect
    let c := w.count + 1
    let r := w.subj.subscribe i
    let w1 := ({ w with count := c, subj := r.1, live := w.live ++ [i] }).record t r.2
    let w2 := if c == 1 then
        let w' := w1.connect t
        { w' with connSub := w'.curHandle }
      else w1
    if stopped r.2 then w2.disposeSub t i else w2
  | .autoConnect n =>
    -- count += 1; should_connect = count == n and not is_connected; source.subscribe(observer); ...
    let c := w.count + 1
    let should := c == (n : Int) && !w.isConnected
    let r := w.subj.subscribe i
    let w1 := ({ w with count := c, subj := r.1, live := w.live ++ [i] }).record t r.2
    let w2 := if should then { (w1.connect t) with isConnected := true } else w1
    if stopped r.2 then w2.disposeSub t i else w2

/-- one notification from source subscription `sid` -/
def srcDeliver (w : World α) (t sid : Nat) (n : Notif α) : World α :=
  let r := w.subj.onNotif n
  let w1 := ({ w with subj := r.1 }).deliver t r.2
  if n.isTerminal then w1.closeSrc t sid else w1

/-- the earliest pending cold message (ties: earlier subscription first) -/
def nextCold : List (SrcSub α) → Option (Nat × Nat × Notif α)
  | [] => none
  | s :: rest =>
    match s.pending, nextCold rest with
    | [], r => r
    | (t, n) :: _, none => some (s.id, t, n)
    | (t, n) :: _, some (sid', t', n') => if t' < t then some (sid', t', n') else some (s.id, t, n)

def popCold (subs : List (SrcSub α)) (sid : Nat) : List (SrcSub α) :=
  subs.map (fun s => if s.id = sid then { s with pending := s.pending.drop 1 } else s)

/-- run the source up to the instant `limit`: hot messages with time ≤ limit, cold messages with
time < limit (the history's calls at `limit` come between them) -/
def advance (limit : Nat) : Nat → World α → World α
  | 0, w => w
  | fuel + 1, w =>
    let hotNext := match w.hot with
      | some ((t, n) :: _) => if t ≤ limit then some (t, n) else none
      | _ => none
    let coldNext := match nextCold w.srcOpen with
      | some (sid, t, n) => if t < limit then some (sid, t, n) else none
      | none => none
    match hotNext, coldNext with
    | none, none => w
    | some (t, n), none =>
      let w1 := { w with hot := w.hot.map (fun (l : List (Nat × Notif α)) => l.drop 1) }
      advance limit fuel (w1.srcOpen.foldl (fun (acc : World α) (s : SrcSub α) => acc.srcDeliver t s.id n) w1)
    | none, some (sid, t, n) =>
      let w1 := { w with srcOpen := popCold w.srcOpen sid }
      advance limit fuel (w1.srcDeliver t sid n)
    | some (th, nh), some (sid, tc, nc) =>
      if th ≤ tc then
        let w1 := { w with hot := w.hot.map (fun (l : List (Nat × Notif α)) => l.drop 1) }
        advance limit fuel (w1.srcOpen.foldl (fun (acc : World α) (s : SrcSub α) => acc.srcDeliver th s.id nh) w1)
      else
        let w1 := { w with srcOpen := popCold w.srcOpen sid }
        advance limit fuel (w1.srcDeliver tc sid nc)

def pendingCount (w : World α) : Nat :=
  (match w.hot with | some l => l.length | none => 0) + (w.srcOpen.map (fun s => s.pending.length)).sum

end World

/-- a call of the history -/
inductive Op where
  | sub (i : Nat)
  | unsub (i : Nat)
  | connect
  | disconnect (k : Nat)    -- dispose what the k-th `connect` call of the history returned
deriving Repr, DecidableEq

namespace World
variable {α : Type}

/-- `handles` = what each `connect` call of the history returned so far -/
def applyOp (w : World α) (handles : List (Option Nat)) (t : Nat) : Op → World α × List (Option Nat)
  | .sub i => (w.opSub t i, handles)
  | .unsub i => (w.disposeSub t i, handles)
  | .connect =>
    let w1 := w.connect t
    (w1, handles ++ [w1.curHandle])
  | .disconnect k =>
    match handles[k]? with
    | some (some h) => (w.disposeHandle t h, handles)
    | _ => (w, handles)

def runOps (w : World α) (handles : List (Option Nat)) : List (Nat × Op) → World α × List (Option Nat)
  | [] => (w, handles)
  | (t, op) :: rest =>
    let w1 := advance t (w.pendingCount + 1) w
    let r := w1.applyOp handles t op
    runOps r.1 r.2 rest

/-- the whole experiment: `auto_connect(0)` connects when the observable is built (time 0); the
history; the source runs on until `horizon`, where the harness disposes everything -/
def run (w : World α) (ops : List (Nat × Op)) (horizon : Nat) : World α :=
  let w0 := match w.wrap with
    | .autoConnect 0 => { (w.connect 0) with isConnected := true }
    | _ => w
  let r := runOps w0 [] ops
  let w1 := advance horizon (r.1.pendingCount + 1) r.1
  let w2 := w1.live.foldl (fun acc i => acc.disposeSub horizon i) w1
  -- the harness holds the handles only of a raw connectable; `auto_connect` never disposes its connection
  match w2.wrap, w2.curHandle with
  | .raw, some h => w2.disposeHandle horizon h
  | _, _ => w2

def outputsOf (w : World α) (i : Nat) : List (Nat × Notif α) :=
  w.out.filterMap (fun e => if e.1 = i then some e.2 else none)

end World

/-! ### `multicast(subject_factory, mapper)` (= `publish(mapper)`, `replay(mapper=…)`, `publish_value(v, mapper)`)

`_multicast.py`, factory branch: every subscription builds its own connectable
(`source.pipe(multicast(subject=subject_factory(scheduler)))`), subscribes `mapper(connectable)` —
`k` inner subscriptions to the private subject — **then** connects it, and returns
`CompositeDisposable(subscription, connection)`.  So one outer subscription at time `t`, disposed
at `tu` (if ever), is a private raw-connectable world with this history: -/
def mcastOps (k t : Nat) (tu : Option Nat) : List (Nat × Op) :=
  (List.range k).map (fun a => (t, Op.sub a)) ++ [(t, Op.connect)] ++
    (match tu with
     | some u => (List.range k).map (fun a => (u, Op.unsub a)) ++ [(u, Op.disconnect 0)]
     | none => [])

def World.mcastWorld {α} (w : World α) (k t : Nat) (tu : Option Nat) (horizon : Nat) : World α :=
  w.run (mcastOps k t tu) horizon

end Conn

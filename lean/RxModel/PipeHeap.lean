/-!
# PipeHeap — the graph of disposables a pipeline builds (C02, C03)

A heap of disposable nodes addressed by index.  `owned` is the list of *owning edges* of a node: the
items a CompositeDisposable holds, the current item of a Serial/SingleAssignment/MultipleAssignment
disposable, the underlying disposable of a RefCountDisposable — kept after the node was disposed
(the real classes clear their lists then; nothing reads them afterwards) and extended by items that
are attached to an already disposed container, so that the theorems can speak about "every item ever
attached beneath a disposed node".

`done`  = `dispose()` has been called on the node (for a RefCountDisposable: `is_primary_disposed`).
`released` = RefCountDisposable.is_disposed (the underlying resource was released).
A node *fires* (propagates disposal along its owning edges) when it is done — a RefCountDisposable
only when it is released, i.e. primary-disposed **and** no live dependent.
Mirrors `reactivex/disposable/{compositedisposable,serialdisposable,singleassignmentdisposable,
multipleassignmentdisposable,refcountdisposable,disposable}.py` at the level of sequential calls.
-/

namespace Pipe

inductive Kind where
  | leaf      -- Disposable(action) / BooleanDisposable / foreign object with a dispose() method
  | comp | serial | single | multi
  | refcount
  | inner     -- RefCountDisposable.InnerDisposable
deriving Repr, DecidableEq

structure Node where
  kind : Kind
  done : Bool := false
  released : Bool := false
  owned : List Nat := []
  parent : Option Nat := none     -- inner: the RefCountDisposable it belongs to
deriving Repr, DecidableEq

abbrev Heap := List Node

def Node.fires (n : Node) : Bool :=
  if n.kind == .refcount then n.released else n.done

/-- is `y` owned by some firing node? -/
def ownedByFiring (h : Heap) (y : Nat) : Bool :=
  h.any (fun x => x.fires && x.owned.contains y)

/-- number of dependents of refcount node `r` that were not disposed yet (the real `count`). -/
def liveInners (h : Heap) (r : Nat) : Nat :=
  (h.filter (fun n => n.kind == .inner && n.parent == some r && !n.done)).length

/-- one round of propagation, phase 1: everything owned by a firing node gets `dispose()` called. -/
def stepDone (h : Heap) (p : Node × Nat) : Node :=
  { p.1 with done := p.1.done || ownedByFiring h p.2 }

def propDone (h : Heap) : Heap := h.zipIdx.map (stepDone h)

/-- phase 2: a primary-disposed RefCountDisposable without live dependents releases. -/
def stepReleased (h : Heap) (p : Node × Nat) : Node :=
  { p.1 with released := p.1.released || (p.1.kind == .refcount && p.1.done && liveInners h p.2 == 0) }

def propReleased (h : Heap) : Heap := h.zipIdx.map (stepReleased h)

def propagate (h : Heap) : Heap := propReleased (propDone h)

/-- how much is left to dispose / release: the termination measure of `settle`. -/
def pending (h : Heap) : Nat :=
  (h.filter (fun n => !n.done)).length + (h.filter (fun n => !n.released)).length

theorem propDone_length (h : Heap) : (propDone h).length = h.length := by
  simp [propDone]

theorem propReleased_length (h : Heap) : (propReleased h).length = h.length := by
  simp [propReleased]

/-- generic: a flag-raising index-wise map never increases the count of unset flags, and strictly
decreases it when it changes the list. -/
theorem filter_len_map_le {α} (f : α × Nat → α) (p : α → Bool) (l : List α) (k : Nat)
    (hmono : ∀ a i, p (f (a, i)) = true → p a = true) :
    ((l.zipIdx k).map f |>.filter p).length ≤ (l.filter p).length := by
  induction l generalizing k with
  | nil => simp
  | cons a l ih =>
    simp only [List.zipIdx_cons, List.map_cons, List.filter_cons]
    have := ih (k + 1)
    by_cases h1 : p (f (a, k)) = true
    · have h2 := hmono a k h1
      simp [h1, h2]; omega
    · by_cases h2 : p a = true
      · simp [h1, h2]; omega
      · simp [h1, h2]; omega

theorem pending_propDone_le (h : Heap) : pending (propDone h) ≤ pending h := by
  unfold pending propDone
  have h1 := filter_len_map_le (stepDone h) (fun n => !n.done) h 0 (by intro a i; simp [stepDone]; intro x _; exact x)
  have h2 := filter_len_map_le (stepDone h) (fun n => !n.released) h 0 (by intro a i; simp [stepDone])
  omega

theorem pending_propReleased_le (h : Heap) : pending (propReleased h) ≤ pending h := by
  unfold pending propReleased
  have h1 := filter_len_map_le (stepReleased h) (fun n => !n.done) h 0 (by intro a i; simp [stepReleased])
  have h2 := filter_len_map_le (stepReleased h) (fun n => !n.released) h 0 (by intro a i; simp [stepReleased]; intro x _; exact x)
  omega

/-- strictness: if an index-wise flag-raising map changes the list, some `p`-count drops. -/
theorem filter_len_map_lt {α} [DecidableEq α] (f : α × Nat → α) (p : α → Bool) (l : List α) (k : Nat)
    (hmono : ∀ a i, p (f (a, i)) = true → p a = true)
    (hchg : ∀ a i, f (a, i) ≠ a → p a = true ∧ p (f (a, i)) = false)
    (hne : (l.zipIdx k).map f ≠ l) :
    ((l.zipIdx k).map f |>.filter p).length < (l.filter p).length := by
  induction l generalizing k with
  | nil => simp at hne
  | cons a l ih =>
    simp only [List.zipIdx_cons, List.map_cons, List.filter_cons] at hne ⊢
    have hle := filter_len_map_le f p l (k + 1) hmono
    by_cases hfa : f (a, k) = a
    · have hne' : (l.zipIdx (k + 1)).map f ≠ l := by
        intro h; apply hne; rw [hfa, h]
      have := ih (k + 1) hne'
      rw [hfa]; cases p a <;> simp <;> omega
    · obtain ⟨h1, h2⟩ := hchg a k hfa
      simp [h1, h2]; omega


theorem stepDone_ne (h : Heap) (a : Node) (i : Nat) (hne : stepDone h (a, i) ≠ a) :
    (!a.done) = true ∧ (!(stepDone h (a, i)).done) = false := by
  obtain ⟨k, d, r, o, p⟩ := a
  cases d <;> cases hf : ownedByFiring h i <;> simp_all [stepDone]

theorem stepReleased_ne (h : Heap) (a : Node) (i : Nat) (hne : stepReleased h (a, i) ≠ a) :
    (!a.released) = true ∧ (!(stepReleased h (a, i)).released) = false := by
  obtain ⟨k, d, r, o, p⟩ := a
  cases r <;> cases hf : (k == Kind.refcount && d && liveInners h i == 0) <;> simp_all [stepReleased]

theorem pending_propDone_lt (h : Heap) (hne : propDone h ≠ h) : pending (propDone h) < pending h := by
  unfold pending propDone at *
  have h1 := filter_len_map_lt (stepDone h) (fun n => !n.done) h 0
    (by intro a i; simp [stepDone]; intro x _; exact x) (fun a i hn => stepDone_ne h a i hn) hne
  have h2 := filter_len_map_le (stepDone h) (fun n => !n.released) h 0 (by intro a i; simp [stepDone])
  omega

theorem pending_propReleased_lt (h : Heap) (hne : propReleased h ≠ h) : pending (propReleased h) < pending h := by
  unfold pending propReleased at *
  have h1 := filter_len_map_le (stepReleased h) (fun n => !n.done) h 0 (by intro a i; simp [stepReleased])
  have h2 := filter_len_map_lt (stepReleased h) (fun n => !n.released) h 0
    (by intro a i; simp [stepReleased]; intro x _; exact x) (fun a i hn => stepReleased_ne h a i hn) hne
  omega

theorem pending_propagate_lt (h : Heap) (hne : propagate h ≠ h) : pending (propagate h) < pending h := by
  unfold propagate at *
  by_cases hd : propDone h = h
  · rw [hd] at hne ⊢; exact pending_propReleased_lt h hne
  · have := pending_propDone_lt h hd
    have := pending_propReleased_le (propDone h)
    omega

/-- run disposal to quiescence: what the nested `dispose()` calls of the real classes achieve.
Structural recursion on a fuel that `pending` bounds (`pending_propagate_lt`), so that the definition
also evaluates inside the kernel. -/
def settleFuel : Nat → Heap → Heap
  | 0, h => h
  | n + 1, h => if propagate h = h then h else settleFuel n (propagate h)

def settle (h : Heap) : Heap := settleFuel (pending h) h

/-! ## Operations (direct calls made by operator code, handlers or disposable actions) -/

def setNode (h : Heap) (i : Nat) (f : Node → Node) : Heap :=
  h.zipIdx.map (fun p => if p.2 == i then f p.1 else p.1)

def markDone (h : Heap) (ids : List Nat) : Heap :=
  h.zipIdx.map (fun p => if ids.contains p.2 then { p.1 with done := true } else p.1)

inductive Op where
  | new (k : Kind) (items : List Nat)      -- constructor; comp: initial items, refcount: [underlying]
  | add (c x : Nat)                        -- CompositeDisposable.add
  | remove (c x : Nat)                     -- CompositeDisposable.remove
  | clear (c : Nat)                        -- CompositeDisposable.clear
  | assign (s x : Nat)                     -- `.disposable = x` on serial / single / multi
  | dispose (x : Nat)                      -- `.dispose()`
  | getInner (r : Nat)                     -- RefCountDisposable.disposable (hands out a dependent)
deriving Repr, DecidableEq

/-- result reported to the caller: `ok`, or `rejected` (SingleAssignmentDisposable already assigned). -/
inductive Res | ok | rejected | bad
deriving Repr, DecidableEq

/-- The raw effect of one call, before nested disposal runs: optionally replace the owning edges of one
node, call `dispose()` on some nodes, optionally allocate a node. -/
structure Eff where
  upd : Option (Nat × List Nat) := none
  marks : List Nat := []
  push : Option Node := none
  res : Res := .ok
deriving Repr, DecidableEq

def effect (h : Heap) : Op → Eff
  | .new k items => { push := some { kind := k, owned := items } }
  | .add c x =>
    match h[c]? with
    | some n => if n.kind == .comp then { upd := some (c, n.owned ++ [x]) } else { res := .bad }
    | none => { res := .bad }
  | .remove c x =>
    match h[c]? with
    | some n =>
      if n.kind != .comp then { res := .bad }
      else if n.done then {}                                  -- `if self.is_disposed: return False`
      else if n.owned.contains x then { upd := some (c, n.owned.erase x), marks := [x] }
      else {}
    | none => { res := .bad }
  | .clear c =>
    match h[c]? with
    | some n =>
      if n.kind != .comp then { res := .bad }
      else if n.done then {}
      else { upd := some (c, []), marks := n.owned }
    | none => { res := .bad }
  | .assign s x =>
    match h[s]? with
    | some n =>
      match n.kind with
      | .serial =>
        if n.done then { upd := some (s, n.owned ++ [x]) }     -- disposed: the new item is disposed at once
        else { upd := some (s, [x]), marks := n.owned }         -- the previous item is disposed
      | .single =>
        if n.done then { upd := some (s, n.owned ++ [x]) }
        else if n.owned.isEmpty then { upd := some (s, [x]) }
        else { res := .rejected }                               -- "Disposable has already been assigned"
      | .multi =>
        if n.done then { upd := some (s, n.owned ++ [x]) }
        else { upd := some (s, [x]) }                           -- the old item is dropped, NOT disposed
      | _ => { res := .bad }
    | none => { res := .bad }
  | .dispose x => { marks := [x] }
  | .getInner r =>
    match h[r]? with
    | some n =>
      if n.kind != .refcount then { res := .bad }
      else if n.released then { push := some { kind := .leaf } }            -- inert `Disposable()`
      else { push := some { kind := .inner, parent := some r } }
    | none => { res := .bad }

def applyEff (h : Heap) (e : Eff) : Heap :=
  let h1 := match e.upd with
    | some (i, o) => setNode h i (fun n => { n with owned := o })
    | none => h
  let h2 := markDone h1 e.marks
  match e.push with
  | some n => h2 ++ [n]
  | none => h2

def applyRaw (h : Heap) (op : Op) : Heap × Res := (applyEff h (effect h op), (effect h op).res)

/-- one direct call, run to quiescence. -/
def apply (h : Heap) (op : Op) : Heap × Res :=
  let (h', r) := applyRaw h op
  (settle h', r)

def run (h : Heap) : List Op → Heap
  | [] => h
  | op :: ops => run (apply h op).1 ops

end Pipe

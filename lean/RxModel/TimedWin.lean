import RxModel.TimedBase
/-!
# TimedWin — time-window operators (C17)

`_takewithtime.py`, `_takeuntilwithtime.py`, `_skipwithtime.py`, `_skipuntilwithtime.py`,
`_takelastwithtime.py`, `_skiplastwithtime.py`, `_timeout.py`.

Each `…Run` is the two-stream run of the operator: the source messages that its subscription sees
(`Timed.hot` / `Timed.cold` of the recorded timeline) against the operator's pending timer, with the
scheduler's `(due, seq)` rule inlined through `timerBefore`.  A downstream terminal disposes the whole
subscription (the subscriber's `AutoDetachObserver`), so every run stops after it has emitted one.
-/

namespace Timed

/-! ## take_with_time / take_until_with_time
`disp = _scheduler.schedule_relative(duration, action)` (or `schedule_absolute(end_time)`) with
`action = observer.on_completed()`, THEN `source.subscribe(observer)`: the source is passed through
untouched and the timer was armed first.  `due` is the time the timer is queued at, `fireAt = max due sub`
the clock reading when it runs (a due time in the past runs at once). -/
def twtRun {α} (timerFirst : Bool) (due fireAt : Nat) : TL α → TL α
  | [] => [(fireAt, .completed)]                       -- the timer's action: observer.on_completed()
  | (t, n) :: rest =>
    if timerBefore timerFirst due t then [(fireAt, .completed)]
    else match n with
      | .next v => (t, .next v) :: twtRun timerFirst due fireAt rest
      | n => [(t, n)]                                   -- source terminal passes; the timer is disposed with it

/-! ## skip_with_time / skip_until_with_time
`open = [False]`; the timer's action sets `open[0] = True`; `on_next` forwards iff `open[0]`;
`on_error` / `on_completed` are the observer's own.  skip_with_time arms the timer before subscribing the
source, skip_until_with_time after. -/
def swtOnNext {α} (isOpen : Bool) (x : α) : List (Notif α) := if isOpen then [.next x] else []

def swtRun {α} (timerFirst : Bool) (due : Nat) : Bool → TL α → TL α
  | _, [] => []
  | isOpen, (t, n) :: rest =>
    let isOpen' := isOpen || timerBefore timerFirst due t      -- the timer's action ran before this message
    match n with
    | .next v => at_ t (swtOnNext isOpen' v) ++ swtRun timerFirst due isOpen' rest
    | n => [(t, n)]

/-! ## take_last_with_time
`q` is the list of `{"interval": now, "value": x}`.
```
on_next:       q.append(now, x); while q and now - q[0].interval >= duration: q.pop(0)
on_completed:  while q: n = q.pop(0); if now - n.interval <  duration: observer.on_next(n.value)     # FIXED (`<`)
               observer.on_completed()
```
The comparison at completion is a parameter so that the code as it is on the pinned tree (`<=`) can be
stated too (section "as-is" of `RxProofs/C17.lean`). `now - t >= d` is written `t + d ≤ now`. -/
def popOld {α} (d now : Nat) : List (Nat × α) → List (Nat × α)
  | [] => []
  | (t, v) :: q => if t + d ≤ now then popOld d now q else (t, v) :: q

def tlwtOnNext {α} (d now : Nat) (q : List (Nat × α)) (x : α) : List (Nat × α) :=
  popOld d now (q ++ [(now, x)])

/-- `keepFixed now t d`: `now - t < d` — the repaired comparison. -/
def keepFixed (now t d : Nat) : Bool := decide (now < t + d)
/-- `keepAsIs now t d`: `now - t <= d` — the comparison on the pinned tree. -/
def keepAsIs (now t d : Nat) : Bool := decide (now ≤ t + d)

def tlwtOnCompleted {α} (keep : Nat → Nat → Nat → Bool) (d now : Nat) (q : List (Nat × α)) : List (Notif α) :=
  (q.filter (fun e => keep now e.1 d)).map (fun e => Notif.next e.2) ++ [.completed]

def tlwtRun {α} (keep : Nat → Nat → Nat → Bool) (d : Nat) : List (Nat × α) → TL α → TL α
  | _, [] => []
  | q, (t, .next x) :: rest => tlwtRun keep d (tlwtOnNext d t q x) rest
  | _, (t, .error e) :: _ => [(t, .error e)]
  | q, (t, .completed) :: _ => at_ t (tlwtOnCompleted keep d t q)

/-! ## skip_last_with_time
```
on_next:       q.append(now, x); while q and now - q[0].interval >= duration: observer.on_next(q.pop(0).value)
on_completed:  while q and now - q[0].interval >= duration: observer.on_next(q.pop(0).value)
               observer.on_completed()
``` -/
def slwtDrain {α} (d now : Nat) : List (Nat × α) → List (Notif α) × List (Nat × α)
  | [] => ([], [])
  | (t, v) :: q =>
    if t + d ≤ now then ((Notif.next v) :: (slwtDrain d now q).1, (slwtDrain d now q).2)
    else ([], (t, v) :: q)

def slwtRun {α} (d : Nat) : List (Nat × α) → TL α → TL α
  | _, [] => []
  | q, (t, .next x) :: rest =>
    at_ t (slwtDrain d t (q ++ [(t, x)])).1 ++ slwtRun d (slwtDrain d t (q ++ [(t, x)])).2 rest
  | _, (t, .error e) :: _ => [(t, .error e)]
  | q, (t, .completed) :: _ => at_ t ((slwtDrain d t q).1 ++ [.completed])

/-! ## timeout
```
switched=[False]; _id=[0]; timer = SerialDisposable()
create_timer(): my_id=_id[0]; timer.disposable = schedule_relative(duetime, action) | schedule_absolute(duetime, action)
   action: switched[0] = (_id[0] == my_id); if switched[0]: subscription.disposable = obs.subscribe(observer)
on_next(v):    if not switched[0]: _id[0] += 1; observer.on_next(v); create_timer()
on_error(e):   if not switched[0]: _id[0] += 1; observer.on_error(e)
on_completed:  if not switched[0]: _id[0] += 1; observer.on_completed()
```
`create_timer()` runs once before `source.subscribe` (so that first timer may win a tie against a cold source)
and once per element.  Assigning `timer.disposable` disposes the previous timer (SerialDisposable), so at most
one timer is pending.  `other S` is what the fallback observable delivers when subscribed at `S`
(default `throw(Exception("Timeout"))`: an error at `S`). -/
inductive Due where
  | rel (d : Nat)        -- relative due time: `schedule_relative(d)`
  | abs (at_ : Nat)      -- absolute (datetime) due time: `schedule_absolute(D)`, the same `D` for every timer
deriving Repr, DecidableEq

def Due.at : Due → Nat → Nat
  | .rel d, now => now + d
  | .abs D, _ => D

structure ToTimer where
  due : Nat
  fireAt : Nat
  myId : Nat
  first : Bool
deriving Repr, DecidableEq

structure ToSt where
  id : Nat := 0
  switched : Bool := false
  timer : Option ToTimer := none
deriving Repr, DecidableEq

def toCreateTimer (mode : Due) (now : Nat) (first : Bool) (s : ToSt) : ToSt :=
  { s with timer := some { due := mode.at now, fireAt := max (mode.at now) now, myId := s.id, first := first } }

def toOnNext {α} (mode : Due) (now : Nat) (s : ToSt) (v : α) : ToSt × List (Notif α) :=
  if !s.switched then (toCreateTimer mode now false { s with id := s.id + 1 }, [.next v]) else (s, [])

def toOnTerminal {α} (s : ToSt) (n : Notif α) : ToSt × List (Notif α) :=
  if !s.switched then ({ s with id := s.id + 1 }, [n]) else (s, [])

/-- the timer's action; returns the new state (the timer slot is now empty) and whether it switched -/
def toAction (s : ToSt) (tm : ToTimer) : ToSt :=
  { s with switched := s.id == tm.myId, timer := none }

def toHandle {α} (mode : Due) (now : Nat) (s : ToSt) : Notif α → ToSt × List (Notif α)
  | .next v => toOnNext mode now s v
  | n => toOnTerminal s n

/-- the pending timer, if the scheduler runs it before a source message at `t` -/
def toFire (cold1 : Bool) (s : ToSt) (t : Nat) : Option ToTimer :=
  match s.timer with
  | some tm => if timerBefore (tm.first && cold1) tm.due t then some tm else none
  | none => none

def toRun {α} (mode : Due) (cold1 : Bool) (other : Nat → TL α) : ToSt → TL α → TL α
  | s, [] =>
    match s.timer with
    | none => []
    | some tm => if (toAction s tm).switched then other tm.fireAt else []
  | s, (t, n) :: rest =>
    match toFire cold1 s t with
    | some tm =>
      if (toAction s tm).switched then other tm.fireAt       -- source disposed; the fallback takes over
      else                                                    -- (a stale timer: unreachable, `C17.to_timer_current`)
        at_ t (toHandle mode t (toAction s tm) n).2 ++
          (if isNext n then toRun mode cold1 other (toHandle mode t (toAction s tm) n).1 rest else [])
    | none =>
      at_ t (toHandle mode t s n).2 ++
        (if isNext n then toRun mode cold1 other (toHandle mode t s n).1 rest else [])

/-- the state after `create_timer()` at subscription time -/
def toInit (mode : Due) (sub : Nat) : ToSt := toCreateTimer mode sub true {}


/-! ## Declarative rules (the right-hand sides of the C17 theorems; also exposed by the driver so that
every correspondence case checks `run = spec` on the concrete timeline as well) -/

def hasTerminal {α} (l : TL α) : Bool := l.any (fun m => !isNext m.2)

/-- take: exactly the source notifications the timer does not precede; then the timer's completion
unless the source ended first. -/
def twtSpec {α} (timerFirst : Bool) (due fireAt : Nat) (msgs : TL α) : TL α :=
  let pre := conform (msgs.filter (fun m => !timerBefore timerFirst due m.1))
  if hasTerminal pre then pre else pre ++ [(fireAt, .completed)]

/-- skip: exactly the elements the timer precedes; terminals always. -/
def swtSpec {α} (timerFirst : Bool) (due : Nat) (msgs : TL α) : TL α :=
  (conform msgs).filter (fun m => !isNext m.2 || timerBefore timerFirst due m.1)

/-- take_last_with_time: at completion `T`, the elements with `T - t < d`, then completion. -/
def tlwtSpec {α} (d : Nat) (msgs : TL α) : TL α :=
  match firstTerminal msgs with
  | none => []
  | some (T, .completed) =>
    ((nexts msgs).filter (fun e => decide (T < e.1 + d))).map (fun e => (T, Notif.next e.2)) ++ [(T, .completed)]
  | some (T, n) => [(T, n)]

/-- skip_last_with_time, timed form: at a notification at `τ` (element or completion) the elements that
arrived earlier and whose age reached `d` in `(P, τ]` (`P` = time of the previous notification) are emitted,
oldest first; with `d = 0` an element is emitted on arrival.  `E` = the elements seen so far. -/
def slwtSpec {α} (d : Nat) : List (Nat × α) → Nat → TL α → TL α
  | _, _, [] => []
  | E, P, (τ, .next x) :: rest =>
    ((E.filter (fun e => decide (P < e.1 + d) && decide (e.1 + d ≤ τ))) ++ (if d = 0 then [(τ, x)] else [])).map
        (fun e => (τ, Notif.next e.2))
      ++ slwtSpec d (E ++ [(τ, x)]) τ rest
  | _, _, (τ, .error e) :: _ => [(τ, .error e)]
  | E, P, (τ, .completed) :: _ =>
    (E.filter (fun e => decide (P < e.1 + d) && decide (e.1 + d ≤ τ))).map (fun e => (τ, Notif.next e.2))
      ++ [(τ, .completed)]

/-- timeout: a deadline that every element moves; the first source notification the deadline precedes is
replaced by the fallback, subscribed at the deadline. -/
def toSpec {α} (mode : Due) (cold1 : Bool) (other : Nat → TL α) : (due fireAt : Nat) → (first : Bool) → TL α → TL α
  | _, fireAt, _, [] => other fireAt
  | due, fireAt, first, (t, n) :: rest =>
    if timerBefore (first && cold1) due t then other fireAt
    else match n with
      | .next v => (t, .next v) :: toSpec mode cold1 other (mode.at t) (max (mode.at t) t) false rest
      | n => [(t, n)]

end Timed

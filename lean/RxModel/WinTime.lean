import RxModel.WinBuf
/-!
# WinTime — `window_with_time_` and `window_with_time_or_count_`

Mirrors `reactivex/operators/_windowwithtime.py` (the `create_timer` chain over `next_span`,
`next_shift`, `total_time`) and `_windowwithtimeorcount.py` (`n`, `s`, `window_id`, one timer per
window).  Time is in integer ticks relative to nothing: `Chain` works on offsets from the
subscription instant `t0`; the machine's armed timer is `due = t0 + total_time`.
-/

namespace Win

/-! ## the create_timer chain (pure arithmetic) -/

structure Chain where
  nextShift : Nat
  nextSpan : Nat
  total : Nat := 0
deriving Repr, BEq, DecidableEq

/-- what the timer armed by one `create_timer()` call will do, and when (offset from subscription). -/
structure Tick where
  at_ : Nat
  isShift : Bool
  isSpan : Bool
deriving Repr, BEq, DecidableEq

/-- one `create_timer()` call: flags, `new_total_time`, the updates of `next_span` / `next_shift`. -/
def Chain.next (shift : Nat) (c : Chain) : Tick × Chain :=
  let isSpan := c.nextSpan ≤ c.nextShift          -- `==` → both, `<` → span only
  let isShift := c.nextShift ≤ c.nextSpan         -- `==` → both, else (span > shift) → shift only
  let newTotal := if isSpan then c.nextSpan else c.nextShift
  (⟨newTotal, isShift, isSpan⟩,
   { nextShift := if isShift then c.nextShift + shift else c.nextShift,
     nextSpan := if isSpan then c.nextSpan + shift else c.nextSpan,
     total := newTotal })

/-- the first `n` timers of the chain. -/
def Chain.ticks (shift : Nat) : Nat → Chain → List Tick
  | 0, _ => []
  | n + 1, c => (c.next shift).1 :: Chain.ticks shift n (c.next shift).2

/-! ## window_with_time_ -/

structure Tim (α : Type) where
  b : Base α := {}
  t0 : Nat := 0
  chain : Chain := ⟨0, 0, 0⟩
  queue : List Nat := []
  timer : Option Tick := none      -- the armed timer (none once `timer_d` is disposed)
deriving Repr

namespace Tim
variable {α : Type}

/-- `create_timer()`; the scheduled item is cancelled at once when the group is already disposed. -/
def createTimer (shift : Nat) (s : Tim α) : Tim α :=
  let (tk, c) := s.chain.next shift
  { s with chain := c, timer := if s.b.rcDisposed then none else some tk }

def init (span shift t0 : Nat) : Tim α :=
  let (b, id) := ({ now := t0 } : Base α).newWin
  let s : Tim α := { b := b.outerNext id, t0 := t0, chain := ⟨shift, span, 0⟩, queue := [id] }
  let s := createTimer shift s
  { s with b := s.b.subscribe 0 }

/-- the timer `action`. -/
def onTick (shift : Nat) (s : Tim α) : Tim α :=
  match s.timer with
  | none => s
  | some tk =>
    let s := { s with timer := none }
    let s := if tk.isShift then
        let (b, id) := s.b.newWin
        { s with b := b.outerNext id, queue := s.queue ++ [id] }
      else s
    if tk.isSpan then
      match s.queue with
      | [] => { s with b := s.b.emit (.escaped "IndexError") }      -- `queue.pop(0)` on an empty list
      | id :: q => createTimer shift { s with b := s.b.winEnd id none, queue := q }
    else createTimer shift s

/-- `on_error` / `on_completed`: `for s in queue: s.on_xxx()` (no pop), then the outer observer. -/
def onEnd (s : Tim α) (e : Option Err) : Tim α :=
  let b := s.queue.foldl (fun b id => b.winEnd id e) s.b
  { s with b := b.outerEnd e }

/-- the group disposable holds `timer_d`: once it is disposed the armed timer is cancelled. -/
def sync (s : Tim α) : Tim α := if s.b.rcDisposed then { s with timer := none } else s

def step (shift : Nat) (s : Tim α) : Ev α → Tim α
  | .src 0 n =>
    if s.b.live.contains 0 then
      match n with
      | .next x => { s with b := s.queue.foldl (fun b id => b.winNext id x) s.b }
      | .error e => let s := onEnd s (some e); sync { s with b := s.b.unsub 0 }
      | .completed => let s := onEnd s none; sync { s with b := s.b.unsub 0 }
    else s
  | .src _ _ => s
  | .dispose w => sync { s with b := s.b.disposeEv w }
  | .tick => sync (onTick shift s)

def mach (shift : Nat) : Mach (Tim α) α where
  step s t e := step shift { s with b := { s.b with now := t } } e
  log s := s.b.log
  pending s := s.timer.map (fun tk => s.t0 + tk.at_)

end Tim

/-! ## window_with_time_or_count_ -/

structure Toc (α : Type) where
  b : Base α := {}
  n : Nat := 0
  s : Nat := 0              -- current window
  windowId : Nat := 0
  timer : Option (Nat × Nat) := none     -- (due, _id)
deriving Repr

namespace Toc
variable {α : Type}

def createTimer (span : Nat) (st : Toc α) (id : Nat) : Toc α :=
  { st with timer := if st.b.rcDisposed then none else some (st.b.now + span, id) }

def init (span t0 : Nat) : Toc α :=
  let (b, id) := ({ now := t0 } : Base α).newWin
  let st : Toc α := createTimer span { b := b.outerNext id, s := id } 0
  { st with b := st.b.subscribe 0 }

def sync (st : Toc α) : Toc α := if st.b.rcDisposed then { st with timer := none } else st

/-- close the current window, open the next one (shared by the timer action and the count branch). -/
def roll (st : Toc α) : Toc α :=
  let st := { st with n := 0, windowId := st.windowId + 1 }
  let b := st.b.winEnd st.s none
  let (b, id) := b.newWin
  { st with b := b.outerNext id, s := id }

def onTick (span : Nat) (st : Toc α) : Toc α :=
  match st.timer with
  | none => st
  | some (_, id) =>
    let st := { st with timer := none }
    if id != st.windowId then st
    else
      let st := roll st
      createTimer span (sync st) st.windowId

def onNext (span count : Nat) (st : Toc α) (x : α) : Toc α :=
  let st := { st with b := st.b.winNext st.s x, n := st.n + 1 }
  if st.n == count then
    let st := roll st
    createTimer span (sync st) st.windowId
  else st

def onEnd (st : Toc α) (e : Option Err) : Toc α := { st with b := (st.b.winEnd st.s e).outerEnd e }

def step (span count : Nat) (st : Toc α) : Ev α → Toc α
  | .src 0 n =>
    if st.b.live.contains 0 then
      match n with
      | .next x => sync (onNext span count st x)
      | .error e => let st := onEnd st (some e); sync { st with b := st.b.unsub 0 }
      | .completed => let st := onEnd st none; sync { st with b := st.b.unsub 0 }
    else st
  | .src _ _ => st
  | .dispose w => sync { st with b := st.b.disposeEv w }
  | .tick => sync (onTick span st)

def mach (span count : Nat) : Mach (Toc α) α where
  step st t e := step span count { st with b := { st.b with now := t } } e
  log st := st.b.log
  pending st := st.timer.map (·.1)

end Toc

end Win

namespace Win
/-- `[s, s+d, s+2d, …]` (n terms) — the specification of the timer chain. -/
def arithFrom (s d : Nat) : Nat → List Nat
  | 0 => []
  | n + 1 => s :: arithFrom (s + d) d n
end Win

namespace Win
/-- **closed form of a time window** (hot source: the source wins ties against the operator's timers):
window `k` of `window_with_time(span, shift)` subscribed at `t0` is open for arrival times in
`(t0 + k·shift, t0 + k·shift + span]`. -/
def inWin {α : Type} (span shift t0 k : Nat) (p : Nat × α) : Bool :=
  decide (t0 + k * shift < p.1 ∧ p.1 ≤ t0 + k * shift + span)
end Win

import RxModel.Comb
/-!
# L2 static n-ary combinators: zip, combine_latest, with_latest_from, fork_join, amb (C13)

Mirrors `reactivex/observable/{zip,combinelatest,withlatestfrom,forkjoin,amb}.py` and
`reactivex/operators/_amb.py`, handler by handler.  Per-source state is a function `Nat → _`
(the Python lists indexed by source); tuples are `List`s.
-/

namespace Comb

/-! ## zip -/
structure ZipSt (α : Type) where
  q : Nat → List α := fun _ => []
  comp : Nat → Bool := fun _ => false

/-- `zip.py`: `on_next` = `queues[i].append(x); next_(i)`, `completed(i)`, `observer.on_error`. -/
def zipHandler {α} (n : Nat) (s : ZipSt α) (i : Nat) : Notif α → ZipSt α × List (Act (List α))
  | .next x =>
    let q1 := upd s.q i (s.q i ++ [x])
    if (List.range n).all (fun j => !(q1 j).isEmpty) then
      let tup := (List.range n).filterMap (fun j => (q1 j).head?)
      let q2 := fun j => (q1 j).tail
      let fin := (List.range n).any (fun j => s.comp j && (q2 j).isEmpty)
      ({ s with q := q2 }, Act.emit (.next tup) :: (if fin then [Act.emit .completed] else []))
    else ({ s with q := q1 }, [])
  | .error e => (s, [Act.emit (.error e)])
  | .completed =>
    ({ s with comp := upd s.comp i true }, if (s.q i).isEmpty then [Act.emit .completed] else [])

def zipM {α} (n : Nat) : Machine (ZipSt α) α (List α) := { handler := zipHandler n }
def zipInit {α} (n : Nat) : St (ZipSt α) := startAll {} n

/-! ## combine_latest -/
structure ClSt (α : Type) where
  has : Nat → Bool := fun _ => false
  hasAll : Bool := false
  isDone : Nat → Bool := fun _ => false
  vals : Nat → Option α := fun _ => none

def clHandler {α} (n : Nat) (s : ClSt α) (i : Nat) : Notif α → ClSt α × List (Act (List α))
  | .next x =>
    let vals := upd s.vals i (some x)
    let has := upd s.has i true
    let hasAll := s.hasAll || (List.range n).all has
    let s' := { s with vals := vals, has := has, hasAll := hasAll }
    if hasAll then (s', [Act.emit (.next ((List.range n).filterMap vals))])
    else if (List.range n).all (fun j => j == i || s.isDone j) then (s', [Act.emit .completed])
    else (s', [])
  | .error e => (s, [Act.emit (.error e)])
  | .completed =>
    let d := upd s.isDone i true
    ({ s with isDone := d }, if (List.range n).all d then [Act.emit .completed] else [])

def clM {α} (n : Nat) : Machine (ClSt α) α (List α) := { handler := clHandler n }
def clInit {α} (n : Nat) : St (ClSt α) := startAll {} n

/-! ## with_latest_from — source 0 is the parent, 1..m the children.
Children are subscribed first, the parent last; the returned composite holds the parent first. -/
structure WlfSt (α : Type) where
  vals : Nat → Option α := fun _ => none     -- `NO_VALUE` = none; index = child id (1-based)

def wlfHandler {α} (m : Nat) (s : WlfSt α) (i : Nat) : Notif α → WlfSt α × List (Act (List α))
  | .next x =>
    if i = 0 then
      if (List.range m).all (fun j => (s.vals (j + 1)).isSome) then
        (s, [Act.emit (.next (x :: (List.range m).filterMap (fun j => s.vals (j + 1))))])
      else (s, [])
    else ({ s with vals := upd s.vals i (some x) }, [])
  | .error e => (s, [Act.emit (.error e)])
  | .completed => if i = 0 then (s, [Act.emit .completed]) else (s, [])   -- children: no on_completed handler

def wlfM {α} (m : Nat) : Machine (WlfSt α) α (List α) := { handler := wlfHandler m }
def wlfInit {α} (m : Nat) : St (WlfSt α) := ⟨{}, { done := false, live := List.range (m + 1) }⟩
/-- subscription order at start (effects): children 1..m, then the parent -/
def wlfInitSubs (m : Nat) : List Nat := (List.range m).map (· + 1) ++ [0]

/-! ## fork_join -/
structure FjSt (α : Type) where
  vals : Nat → Option α := fun _ => none
  isDone : Nat → Bool := fun _ => false
  has : Nat → Bool := fun _ => false

def fjHandler {α} (n : Nat) (s : FjSt α) (i : Nat) : Notif α → FjSt α × List (Act (List α))
  | .next x => ({ s with vals := upd s.vals i (some x), has := upd s.has i true }, [])
  | .error e => (s, [Act.emit (.error e)])
  | .completed =>
    let d := upd s.isDone i true
    let s' := { s with isDone := d }
    if !s.has i then (s', [Act.emit .completed])
    else if (List.range n).all d then
      if (List.range n).all s.has then
        (s', [Act.emit (.next ((List.range n).filterMap s.vals)), Act.emit .completed])
      else (s', [Act.emit .completed])
    else (s', [])

def fjM {α} (n : Nat) : Machine (FjSt α) α (List α) := { handler := fjHandler n }
def fjInit {α} (n : Nat) : St (FjSt α) := startAll {} n

/-! ## amb — `rx.amb(s0, …, s(n-1))` is the fold `A0 = amb(left := s0, right := never)`,
`Aj = amb(left := sj, right := A(j-1))` of the binary operator (`_.amb(previous)(current)` makes the NEW source the
left one), so `s(n-1)` is subscribed first and the returned composite holds `s(n-1), …, s0` in this order.
Flattened: the first source `i` to notify becomes the `choice` of every level: level `i` disposes its right side
(`s(i-1), …, s0`, in this order), then each level `j > i` disposes its left side `sj`.
The binary operator `source.pipe(ops.amb(other))` is the case left = 0, right = 1 with natural order. -/
structure AmbSt where
  choice : Option Nat := none

def ambHandler {α} (n : Nat) (s : AmbSt) (i : Nat) (x : Notif α) : AmbSt × List (Act α) :=
  match s.choice with
  | none =>
    ({ choice := some i }, ((List.range i).reverse ++ (List.range n).filter (fun j => i < j)).map Act.unsub ++ [Act.emit x])
  | some w => if w = i then (s, [Act.emit x]) else (s, [])

def ambM {α} (n : Nat) : Machine AmbSt α α := { handler := ambHandler n }
/-- n-ary fold: subscription and container order `n-1, …, 0` -/
def ambInit (n : Nat) : St AmbSt := ⟨{}, { done := false, live := (List.range n).reverse }⟩
/-- binary operator: left (0) then right (1) -/
def amb2Init : St AmbSt := startAll {} 2

end Comb

/-! ## amb, NESTED: `rx.amb(s0, …, s(n-1))` as the code builds it — level `j` is the binary operator
`amb(left := sj, right := level (j-1))`, level `-1` is `never`.  `ch j` is level j's `choice[0]`
(`some true` = "L": its own source `sj`; `some false` = "R": the levels below).  A notification of `sk` enters level `k`
on the left (`choice_left`: first time → dispose the right side, i.e. every source below, nearest first), and if level k
forwards it, climbs through the levels above as their right input (`choice_right`: first time → dispose that level's left
source) until it reaches the subscriber.  `RxProofs/C13.lean: amb_nested_eq_flat` proves that this machine and the
flattened `ambM` produce the same effects for every event list. -/
namespace Comb

/-- climb from level `j` through `fuel` levels (to the top): new choices, the unsubscriptions made on the way, and
whether the notification reached the subscriber -/
def ambUp {β} : Nat → Nat → (Nat → Option Bool) → (Nat → Option Bool) × List (Act β) × Bool
  | 0, _, ch => (ch, [], true)
  | f + 1, j, ch =>
    match ch j with
    | none =>
      let r := ambUp (β := β) f (j + 1) (upd ch j (some false))
      (r.1, Act.unsub j :: r.2.1, r.2.2)          -- choice_right: `left_subscription.dispose()`
    | some false => ambUp f (j + 1) ch              -- already "R": forward
    | some true => (ch, [], false)                  -- this level chose its own source: dropped

structure AmbNSt where
  ch : Nat → Option Bool := fun _ => none

def ambNestedHandler {α} (n : Nat) (s : AmbNSt) (k : Nat) (x : Notif α) : AmbNSt × List (Act α) :=
  match s.ch k with
  | none =>
    -- choice_left at level k: `right_subscription.dispose()` closes level k-1, i.e. s(k-1), then level k-2, …
    let r := ambUp (β := α) (n - (k + 1)) (k + 1) (upd s.ch k (some true))
    (⟨r.1⟩, (List.range k).reverse.map Act.unsub ++ r.2.1 ++ (if r.2.2 then [Act.emit x] else []))
  | some true =>
    let r := ambUp (β := α) (n - (k + 1)) (k + 1) s.ch
    (⟨r.1⟩, r.2.1 ++ (if r.2.2 then [Act.emit x] else []))
  | some false => (s, [])

def ambNestedM {α} (n : Nat) : Machine AmbNSt α α := { handler := ambNestedHandler n }
def ambNestedInit (n : Nat) : St AmbNSt := ⟨{}, { done := false, live := (List.range n).reverse }⟩

end Comb

/-!
# Thr.SO — atomic-step model of `ScheduledObserver` / `ObserveOnObserver`

Mirrors `reactivex/observer/scheduledobserver.py`, `observeonobserver.py` and the base class
`Observer.on_next/on_error/on_completed` (`observer.py`), one transition per atomic step:

producer thread, one call `on_next(v)` / `on_error(e)` / `on_completed()`:
  * `check`   `if not self.is_stopped:`                      (unlocked read)
  * `mark`    `self.is_stopped = True`                       (terminal calls only; unlocked write)
  * `append`  `self.queue.append(action)`                    (unlocked, one list operation)
  * `ea`      `with self.lock: if not has_faulted and queue: is_owner = not is_acquired; is_acquired = True`
  * `sched`   `if is_owner: self.disposable.disposable = self.scheduler.schedule(self.run)`

consumer thread (any thread of the target scheduler that picks up a scheduled `run`):
  * `runBegin` the scheduler starts one pending `run` action
  * `pop`/`release`  `with self.lock: if queue: work = queue.pop(0) else: is_acquired = False; return`
  * `dstart`  `work()` enters the downstream observer's callback           (unlocked)
  * `dend`    the callback returns or raises
  * `fault`   `with self.lock: queue = []; has_faulted = True` then re-raise (run is not re-scheduled)
  * `resched` `self.scheduler.schedule(self.run)`

The target scheduler is abstracted as a counter of pending `run` actions that ANY consumer thread
may start at any time (this covers an event loop = one consumer, and thread pools / new-thread
schedulers = many consumers).  Any number of producers, any number of consumers; a schedule is a
list of thread ids; a step of a thread that is not enabled is a no-op.

`ScheduledObserver.dispose()` (used by ReplaySubject on unsubscribe; never called on the observe_on path) is modelled by
"disposer" threads: `is_stopped = True`, then `self.disposable.dispose()` — the SerialDisposable that holds the disposable of
the run scheduled by `ensure_active` (NOT of the runs re-scheduled by `run` itself): a still-pending owner-scheduled run is
cancelled (and one scheduled later is cancelled as soon as it is assigned), after which nothing is ever delivered again.

Ghost state (not in the code, used to state the theorems): `received` (append order),
`delivered` (order in which downstream callbacks were entered), `raisedG` (a delivery raised).
-/

namespace Thr.SO

/-- one producer call: the queued item and whether the call is terminal (`on_error`/`on_completed`). -/
structure Call (α : Type) where
  item : α
  terminal : Bool
deriving Repr, BEq, DecidableEq

inductive PPc where
  | ready | needMark | toAppend | appended | owing
  | assign (rid : Nat)      -- `self.disposable.disposable = d` (d = disposable of run `rid`): SerialDisposable's locked test-and-store
  | cancelRun (rid : Nat)   -- the SerialDisposable was already disposed: `d.dispose()` (cancels run `rid` if it is still pending)
deriving Repr, BEq, DecidableEq

/-- a thread calling `ScheduledObserver.dispose()`: `is_stopped = True`, then `self.disposable.dispose()` =
locked `is_disposed = True; old = current; current = None`, then `old.dispose()` -/
inductive DPc where
  | start | stopped | flagged (old : Option Nat) | done
deriving Repr, BEq, DecidableEq

structure Prod (α : Type) where
  calls : List (Call α)
  pc : PPc
deriving Repr

inductive CPc (α : Type) where
  | idle
  | atLock
  | popped (x : α)
  | delivering (x : α)
  | faulting
  | resched
deriving Repr, BEq, DecidableEq

inductive Tid where
  | prod (i : Nat)
  | cons (j : Nat)
  | disp (k : Nat)
deriving Repr, BEq, DecidableEq

/-- what a step did (compared with the events observed on the real code). -/
inductive Lbl (α : Type) where
  | noop
  | skip            -- call dropped: is_stopped was set
  | check           -- is_stopped read false
  | mark
  | append (x : α)
  | ea (owner : Bool)
  | sched
  | runBegin
  | pop (x : α)
  | release
  | dstart (x : α)
  | dend (raised : Bool)
  | fault
  | resched
  | assign (disposed : Bool)      -- SerialDisposable.set_disposable's locked section; disposed = it was already disposed
  | cancelRun (cancelled : Bool)  -- `d.dispose()` on the scheduled run's disposable; cancelled = the run was still pending
  | dstop                         -- dispose(): `is_stopped = True`
  | dflag                         -- dispose(): SerialDisposable.dispose's locked section
deriving Repr, BEq, DecidableEq

structure Sys (α : Type) where
  queue : List α := []
  isAcquired : Bool := false
  hasFaulted : Bool := false
  isStopped : Bool := false
  pendingRuns : Nat := 0
  pendingId : Nat := 0           -- identity of the pending run (meaningful while pendingRuns ≥ 1)
  nextRun : Nat := 0             -- fresh run identities
  heldId : Option Nat := none    -- the run whose disposable the SerialDisposable currently holds
  serialDisposed : Bool := false -- `self.disposable` (SerialDisposable) has been disposed
  lostToken : Bool := false      -- ghost: a pending run was cancelled by dispose: the ownership token is gone for good
  prods : List (Prod α) := []
  cons : List (CPc α) := []
  disps : List DPc := []
  received : List α := []
  delivered : List α := []
  raisedG : Bool := false
deriving Repr

variable {α : Type}

/-- one atomic step of producer `p` (its own record is returned updated). -/
def prodStep (s : Sys α) (p : Prod α) : Sys α × Prod α × Lbl α :=
  match p.calls with
  | [] => (s, p, .noop)
  | c :: rest =>
    match p.pc with
    | .ready =>
      if s.isStopped then (s, { calls := rest, pc := .ready }, .skip)
      else (s, { p with pc := if c.terminal then .needMark else .toAppend }, .check)
    | .needMark => ({ s with isStopped := true }, { p with pc := .toAppend }, .mark)
    | .toAppend =>
      ({ s with queue := s.queue ++ [c.item], received := s.received ++ [c.item] },
        { p with pc := .appended }, .append c.item)
    | .appended =>
      if !s.hasFaulted && !s.queue.isEmpty then
        if s.isAcquired then (s, { calls := rest, pc := .ready }, .ea false)
        else ({ s with isAcquired := true }, { p with pc := .owing }, .ea true)
      else (s, { calls := rest, pc := .ready }, .ea false)
    | .owing =>
      ({ s with pendingRuns := s.pendingRuns + 1, pendingId := s.nextRun, nextRun := s.nextRun + 1 },
        { p with pc := .assign s.nextRun }, .sched)
    | .assign rid =>
      if s.serialDisposed then (s, { p with pc := .cancelRun rid }, .assign true)
      else ({ s with heldId := some rid }, { calls := rest, pc := .ready }, .assign false)
    | .cancelRun rid =>
      -- (this pc is only reached after `serialDisposed` was read true and the flag is never reset; the guard repeats it)
      if s.pendingRuns ≥ 1 ∧ s.pendingId = rid ∧ s.serialDisposed = true then
        ({ s with pendingRuns := 0, lostToken := true }, { calls := rest, pc := .ready }, .cancelRun true)
      else (s, { calls := rest, pc := .ready }, .cancelRun false)

/-- one atomic step of a consumer at `pc`; `raises k` = the k-th downstream callback raises. -/
def consStep (raises : Nat → Bool) (s : Sys α) (pc : CPc α) : Sys α × CPc α × Lbl α :=
  match pc with
  | .idle =>
    match s.pendingRuns with
    | 0 => (s, .idle, .noop)
    | n + 1 => ({ s with pendingRuns := n }, .atLock, .runBegin)
  | .atLock =>
    match s.queue with
    | x :: q => ({ s with queue := q }, .popped x, .pop x)
    | [] => ({ s with isAcquired := false }, .idle, .release)
  | .popped x => ({ s with delivered := s.delivered ++ [x] }, .delivering x, .dstart x)
  | .delivering _ =>
    if raises (s.delivered.length - 1) then ({ s with raisedG := true }, .faulting, .dend true)
    else (s, .resched, .dend false)
  | .faulting => ({ s with queue := [], hasFaulted := true }, .idle, .fault)
  | .resched => ({ s with pendingRuns := s.pendingRuns + 1, pendingId := s.nextRun, nextRun := s.nextRun + 1 }, .idle, .resched)

/-- one atomic step of a thread executing `dispose()` -/
def dispStep (s : Sys α) (pc : DPc) : Sys α × DPc × Lbl α :=
  match pc with
  | .start => ({ s with isStopped := true }, .stopped, .dstop)
  | .stopped => ({ s with serialDisposed := true, heldId := none }, .flagged s.heldId, .dflag)
  | .flagged none => (s, .done, .cancelRun false)
  | .flagged (some rid) =>
    if s.pendingRuns ≥ 1 ∧ s.pendingId = rid ∧ s.serialDisposed = true then
      ({ s with pendingRuns := 0, lostToken := true }, .done, .cancelRun true)
    else (s, .done, .cancelRun false)
  | .done => (s, .done, .noop)

def stepL (raises : Nat → Bool) (s : Sys α) : Tid → Sys α × Lbl α
  | .prod i =>
    match s.prods[i]? with
    | none => (s, .noop)
    | some p =>
      let (s', p', l) := prodStep s p
      ({ s' with prods := s.prods.set i p' }, l)
  | .cons j =>
    match s.cons[j]? with
    | none => (s, .noop)
    | some pc =>
      let (s', pc', l) := consStep raises s pc
      ({ s' with cons := s.cons.set j pc' }, l)
  | .disp k =>
    match s.disps[k]? with
    | none => (s, .noop)
    | some pc =>
      let (s', pc', l) := dispStep s pc
      ({ s' with disps := s.disps.set k pc' }, l)

def step (raises : Nat → Bool) (s : Sys α) (t : Tid) : Sys α := (stepL raises s t).1

def run (raises : Nat → Bool) (s : Sys α) (sched : List Tid) : Sys α := sched.foldl (step raises) s

/-- run a schedule collecting the labels. -/
def runL (raises : Nat → Bool) (s : Sys α) : List Tid → Sys α × List (Lbl α)
  | [] => (s, [])
  | t :: ts =>
    let (s1, l) := stepL raises s t
    let (s2, ls) := runL raises s1 ts
    (s2, l :: ls)

/-- initial system: producers with their call lists, `nc` idle consumers. -/
def init (progs : List (List (Call α))) (nc : Nat) (nd : Nat := 0) : Sys α :=
  { prods := progs.map fun cs => { calls := cs, pc := .ready }, cons := List.replicate nc .idle,
    disps := List.replicate nd .start }

def prodDone (p : Prod α) : Bool := p.calls.isEmpty

def CPc.isIdle : CPc α → Bool
  | .idle => true
  | _ => false

/-- nothing left to do anywhere: every producer finished all its calls, no `run` is pending on the
scheduler and no consumer is inside `run`. -/
def quiescent (s : Sys α) : Bool :=
  s.prods.all prodDone && s.pendingRuns == 0 && s.cons.all CPc.isIdle && s.disps.all (· == .done)

end Thr.SO
